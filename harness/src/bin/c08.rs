//! C08 — routing work gates block production; payouts go only to eligible parties.
//!
//! Part 1  burnfee.rs (`return_routing_work_needed_to_produce_block_in_nolan`,
//!         `calculate_burnfee_for_block`) bit-for-bit against the Flocq model
//!         (coq/model/BurnFee.v) + direct oracle (zero after two heartbeats, antitone).
//! Part 2  transactions with real routing paths (`add_hop`) and broken / misdirected /
//!         self-hop / forged paths: `generate_total_work`, `validate_routing_path`,
//!         `get_winning_routing_node` against coq/model/Routing.v + direct oracle.
//! Part 3  real chains (world.rs): the routing-work gate of `Block::validate` with work
//!         just short / exact / over, and the fee transaction of accepted blocks that
//!         carry a golden ticket (payees, bound) against the model + direct oracle.
use std::collections::BTreeSet;
use std::io::Write as _;
use std::panic::{catch_unwind, AssertUnwindSafe};

use saito_core::core::consensus::block::Block;
use saito_core::core::consensus::burnfee::BurnFee;
use saito_core::core::consensus::golden_ticket::GoldenTicket;
use saito_core::core::consensus::hop::Hop;
use saito_core::core::consensus::slip::{Slip, SlipType};
use saito_core::core::consensus::transaction::{Transaction, TransactionType};
use saito_core::core::consensus::wallet::Wallet;
use saito_core::core::defs::{SaitoHash, SaitoPrivateKey, SaitoPublicKey};
use saito_core::core::util::crypto::{hash, verify};
use verif_harness::common::{jstr, Args, Summary};
use verif_harness::gal;
use verif_harness::rng::Rng;
use verif_harness::world::*;

const SENTINEL: u64 = 10_000_000_000_000_000_000;
const TWO64: u128 = 1u128 << 64;

// ------------------------------------------------------------------ helpers

fn panic_msg(e: Box<dyn std::any::Any + Send>) -> String {
    if let Some(s) = e.downcast_ref::<String>() {
        s.clone()
    } else if let Some(s) = e.downcast_ref::<&str>() {
        s.to_string()
    } else {
        "?".to_string()
    }
}

/// panic message -> site number of the Coq models
fn panic_site(msg: &str) -> u64 {
    if msg.contains("multiply with overflow") {
        801
    } else if msg.contains("add with overflow") {
        811
    } else if msg.to_lowercase().contains("division by zero") {
        812
    } else if msg.contains("winning routing node should") {
        813
    } else if msg.contains("index out of bounds") {
        814
    } else if msg.contains("winning tx doesn't have fees") {
        815
    } else if msg.contains("buffer to be valid") {
        816
    } else {
        899
    }
}

/// observation encoding shared with `BurnFee.obs_res`: value, or 2^64 + site
fn obs(r: Result<u64, u64>) -> String {
    match r {
        Ok(v) => format!("{}", v),
        Err(site) => format!("{}", TWO64 + site as u128),
    }
}

/// are u64 overflow checks compiled in (debug profile)?
fn overflow_checks_on() -> bool {
    let x = std::hint::black_box(u64::MAX);
    catch_unwind(|| std::hint::black_box(x + std::hint::black_box(1))).is_err()
}

/// 32 big-endian bytes as a decimal literal
fn u256_dec(b: &[u8; 32]) -> String {
    let mut limbs: Vec<u32> = b.chunks(4).map(|c| u32::from_be_bytes(c.try_into().unwrap())).collect();
    let mut digits: Vec<u8> = vec![];
    loop {
        let mut rem: u64 = 0;
        let mut all_zero = true;
        for l in limbs.iter_mut() {
            let cur = (rem << 32) | (*l as u64);
            *l = (cur / 1_000_000_000) as u32;
            rem = cur % 1_000_000_000;
            if *l != 0 {
                all_zero = false;
            }
        }
        for _ in 0..9 {
            digits.push((rem % 10) as u8);
            rem /= 10;
        }
        if all_zero {
            break;
        }
    }
    while digits.len() > 1 && *digits.last().unwrap() == 0 {
        digits.pop();
    }
    digits.iter().rev().map(|d| (b'0' + d) as char).collect()
}

fn be32(x: u128) -> [u8; 32] {
    let mut out = [0u8; 32];
    out[16..32].copy_from_slice(&x.to_be_bytes());
    out
}

struct Keys {
    v: Vec<(SaitoPublicKey, SaitoPrivateKey)>,
}
impl Keys {
    fn new(n: u8) -> Keys {
        Keys { v: (1..=n).map(keypair).collect() }
    }
    /// interned key: 0 = zero key, i+1 = i-th key of the pool
    fn id(&self, pk: &SaitoPublicKey) -> u64 {
        if pk.iter().all(|b| *b == 0) {
            return 0;
        }
        for (i, (k, _)) in self.v.iter().enumerate() {
            if k == pk {
                return i as u64 + 1;
            }
        }
        999
    }
}

fn hop_sig_ok(tx: &Transaction, hop: &Hop) -> bool {
    let bytes: Vec<u8> = [tx.signature.as_slice(), hop.to.as_slice()].concat();
    verify(bytes.as_slice(), &hop.sig, &hop.from)
}

/// (from0, fees, path) of a transaction as the Gallina triple used by the case files
fn abs_tx(tx: &Transaction, fees: u64, keys: &Keys) -> String {
    let from0 = match tx.from.first() {
        Some(s) => format!("Some {}", keys.id(&s.public_key)),
        None => "None".to_string(),
    };
    let hops: Vec<String> = tx
        .path
        .iter()
        .map(|h| format!("({}, {}, {})", keys.id(&h.from), keys.id(&h.to), gal::boolean(hop_sig_ok(tx, h))))
        .collect();
    format!("({}, {}, {})", from0, fees, gal::list(&hops))
}

/// fees as the harness computes them (independently of generate_total_fees)
fn fees_of(tx: &Transaction) -> u64 {
    let tin: u128 = tx.from.iter().filter(|s| s.slip_type != SlipType::Bound).map(|s| s.amount as u128).sum();
    let tout: u128 = tx.to.iter().filter(|s| s.slip_type != SlipType::Bound).map(|s| s.amount as u128).sum();
    if tin > tout {
        (tin - tout) as u64
    } else {
        0
    }
}

fn contiguous(tx: &Transaction) -> bool {
    (1..tx.path.len()).all(|i| tx.path[i].from == tx.path[i - 1].to)
}

fn halve_n(mut w: u64, n: usize) -> u64 {
    for _ in 0..n {
        w -= w / 2;
    }
    w
}

fn write_shards_off(
    dir: &str,
    name: &str,
    header: &str,
    case_type: &str,
    cases: &[String],
    shards: usize,
    offset: usize,
) -> Vec<String> {
    std::fs::create_dir_all(dir).unwrap();
    let shards = shards.max(1).min(cases.len().max(1));
    let mut files = vec![];
    for k in 0..shards {
        let path = format!("{}/{}_{}.v", dir, name, k);
        let mut f = std::io::BufWriter::new(std::fs::File::create(&path).unwrap());
        writeln!(f, "{}", header).unwrap();
        writeln!(f, "Open Scope N_scope.").unwrap();
        writeln!(f, "Definition cases : list (N * ({})) := [", case_type).unwrap();
        let mut first = true;
        for (i, c) in cases.iter().enumerate() {
            if i % shards != k {
                continue;
            }
            if !first {
                writeln!(f, ";").unwrap();
            }
            first = false;
            write!(f, "({}, {})", i + offset, c).unwrap();
        }
        writeln!(f, "].").unwrap();
        writeln!(
            f,
            "Definition bad : list N := flat_map (fun ic => if check (snd ic) then [] else [fst ic]) cases."
        )
        .unwrap();
        writeln!(f, "Eval vm_compute in bad.").unwrap();
        files.push(path);
    }
    files
}

struct Ctx {
    args: Args,
    dbg: bool,
    summary: Summary,
    files: Vec<String>,
    distinct: BTreeSet<String>,
}
impl Ctx {
    fn next_case(&self) -> usize {
        self.summary.case_descs.len()
    }
    fn nontrivial(&mut self, key: String) {
        if self.distinct.insert(key) {
            self.summary.nontrivial += 1;
        }
    }
}

/// Reference for the routing-work requirement, independent of the implementation's float
/// pipeline: the parent's burn fee divided by the elapsed time, rounded to the nearest nolan.
/// `None` where the float pipeline may legitimately differ from exact arithmetic (large burn
/// fees, fraction within 1/1024 of a tie) or where `2 * heartbeat` overflows.
fn ref_work(bf: u64, ts: u64, prev: u64, hb: u64) -> Option<u64> {
    if hb >= (1 << 62) {
        return None;
    }
    if ts <= prev {
        return Some(SENTINEL);
    }
    let el = ts - prev;
    if el >= 2 * hb {
        return Some(0);
    }
    if bf >= (1 << 40) {
        return None;
    }
    let (bf, el) = (bf as u128, el as u128);
    let rem = bf % el;
    let dist = if 2 * rem > el { 2 * rem - el } else { el - 2 * rem }; // |frac - 1/2| * 2 * el
    if dist * 512 <= el {
        return None;
    }
    Some(((2 * bf + el) / (2 * el)) as u64)
}

/// vacuity guard: a family of scenarios must have produced at least `min` cases with this outcome
fn require_min(ctx: &mut Ctx, case: usize, dim: &str, key: &str, min: u64) {
    let have = ctx.summary.distribution.get(dim).and_then(|m| m.get(key)).copied().unwrap_or(0);
    if have < min {
        ctx.summary.oracle_failure(
            case,
            &format!("vacuity guard: only {} scenario(s) with {} = {} (at least {} expected on an honest tree)", have, dim, key, min),
            &format!("{{\"vacuity\":{},\"key\":{}}}", jstr(dim), jstr(key)),
        );
    }
}

// ------------------------------------------------------------------ part 1: burnfee.rs

fn real_work(bf: u64, ts: u64, prev: u64, hb: u64) -> Result<u64, u64> {
    catch_unwind(|| BurnFee::return_routing_work_needed_to_produce_block_in_nolan(bf, ts, prev, hb))
        .map_err(|e| panic_site(&panic_msg(e)))
}
fn real_burnfee(bf: u64, ts: u64, prev: u64, hb: u64) -> Result<u64, u64> {
    catch_unwind(|| BurnFee::calculate_burnfee_for_block(bf, ts, prev, hb)).map_err(|e| panic_site(&panic_msg(e)))
}

fn rand_bits(rng: &mut Rng, max_bits: u64) -> u64 {
    let bits = rng.range(0, max_bits);
    if bits == 0 {
        0
    } else if bits >= 64 {
        rng.next() | (1 << 63)
    } else {
        (rng.next() & ((1u64 << bits) - 1)) | (1u64 << (bits - 1))
    }
}

/// antitone oracle on the implementation for one (bf, prev, hb) and t1 <= t2
fn oracle_antitone(ctx: &mut Ctx, case: usize, bf: u64, prev: u64, t1: u64, t2: u64, hb: u64, desc: &str) {
    let (w1, w2) = match (real_work(bf, t1, prev, hb), real_work(bf, t2, prev, hb)) {
        (Ok(a), Ok(b)) => (a, b),
        _ => return,
    };
    if w2 > w1 {
        let what = format!(
            "routing work requirement increases with elapsed time: bf={} prev={} hb={}: work(ts={})={} < work(ts={})={}",
            bf, prev, hb, t1, w1, t2, w2
        );
        if t1 <= prev && bf > SENTINEL {
            ctx.summary.known_hit("sentinel-below-max-work", case, &what);
        } else {
            ctx.summary.oracle_failure(case, &what, desc);
        }
    }
}

fn part1(ctx: &mut Ctx, rng: &mut Rng) {
    let thorough = ctx.args.tier == "thorough";
    let mut quads: Vec<(u64, u64, u64, u64, &'static str)> = vec![]; // bf, ts, prev, hb, kind
    let bfs: [u64; 19] = [
        0,
        1,
        2,
        49_999_999,
        50_000_000,
        100_000_000,
        (1 << 53) - 1,
        1 << 53,
        (1 << 53) + 1,
        SENTINEL - 1,
        SENTINEL,
        SENTINEL + 1,
        (1 << 63) - 1,
        1 << 63,
        (1 << 63) + 1,
        u64::MAX - 1,
        u64::MAX,
        12_345_678_901_234_567,
        99_999_999,
    ];
    let hbs: [u64; 3] = [1, 100, 5000];
    let prevs: [u64; 4] = [0, 1000, 1_700_000_000_000, u64::MAX - 20_000];
    for &bf in &bfs {
        for &hb in &hbs {
            for &prev in &prevs {
                for dt in [0, 1, 2, hb - 1, hb, hb + 1, 2 * hb - 1, 2 * hb, 2 * hb + 1, 3 * hb] {
                    if let Some(ts) = prev.checked_add(dt) {
                        quads.push((bf, ts, prev, hb, "boundary"));
                    }
                }
                // misordered timestamps
                if prev > 0 {
                    quads.push((bf, prev - 1, prev, hb, "misordered"));
                    quads.push((bf, prev / 2, prev, hb, "misordered"));
                    quads.push((bf, 0, prev, hb, "misordered"));
                }
            }
        }
    }
    // heartbeat extremes: 2 * heartbeat overflows u64 (debug: panic, release: wrap)
    for &hb in &[0u64, 1 << 62, (1 << 63) - 1, 1 << 63, (1 << 63) + 1, u64::MAX, (1 << 63) + 50] {
        for &bf in &[0u64, 1, 50_000_000, u64::MAX] {
            for &(prev, ts) in &[(1000u64, 1000u64), (1000, 1001), (1000, 1150), (0, u64::MAX), (5, 3)] {
                quads.push((bf, ts, prev, hb, "heartbeat-extreme"));
            }
        }
    }
    let n_random = if thorough { 300_000 } else { 30_000 };
    for i in 0..n_random {
        let bf = match i % 4 {
            0 => rand_bits(rng, 64),
            1 => rng.range(1, 1_000_000_000_000),
            2 => rand_bits(rng, 40),
            _ => rng.next(),
        };
        let hb = match rng.below(8) {
            0 => 1,
            1 | 2 => 100,
            3 | 4 => 5000,
            5 => rng.range(1, 1_000_000),
            6 => rng.range(1, 50),
            _ => rand_bits(rng, 40).max(1),
        };
        let dt = match rng.below(10) {
            0 => rng.range(0, 3),
            1 => 2 * hb - rng.range(0, 2.min(2 * hb)),
            2 => rng.range(2 * hb, 4 * hb),
            _ => rng.range(1, (2 * hb - 1).max(1)),
        };
        let prev = match rng.below(4) {
            0 => 0,
            1 => rng.range(0, 1_000_000),
            2 => 1_700_000_000_000 + rng.range(0, 1_000_000_000),
            _ => rng.next() >> rng.range(0, 40),
        };
        let ts = match prev.checked_add(dt) {
            Some(t) => t,
            None => continue,
        };
        quads.push((bf, ts, prev, hb, "random"));
        if i % 50 == 0 && prev > 0 {
            quads.push((bf, rng.range(0, prev.min(u64::MAX - 1)), prev, hb, "misordered"));
        }
    }

    let offset = ctx.next_case();
    let mut cases: Vec<String> = Vec::with_capacity(quads.len());
    for (i, &(bf, ts, prev, hb, kind)) in quads.iter().enumerate() {
        let case = offset + i;
        let w = real_work(bf, ts, prev, hb);
        let b = real_burnfee(bf, ts, prev, hb);
        cases.push(format!("({}, {}, {}, {}, {}, {})", bf, ts, prev, hb, obs(w), obs(b)));
        let desc = format!(
            "{{\"part\":\"burnfee\",\"kind\":{},\"burn_fee_previous_block\":{},\"current_ts\":{},\"previous_ts\":{},\"heartbeat\":{},\"work_needed\":{},\"burnfee_for_block\":{}}}",
            jstr(kind), bf, ts, prev, hb, jstr(&format!("{:?}", w)), jstr(&format!("{:?}", b))
        );
        ctx.summary.count("burnfee.kind", kind);
        ctx.summary.count(
            "burnfee.bf_bits",
            &format!("{:02}", ((64 - bf.leading_zeros() as u64) + 7) / 8 * 8),
        );
        ctx.summary.count(
            "burnfee.elapsed",
            if ts <= prev {
                "misordered-or-zero"
            } else if hb < (1 << 63) && ts - prev >= 2 * hb {
                ">=2hb"
            } else {
                "<2hb"
            },
        );
        if ts > prev && hb < (1 << 63) && ts - prev < 2 * hb {
            ctx.nontrivial(format!("bf/{}/{}/{}", bf, ts - prev, hb));
        }
        // --- direct oracle on the implementation
        // (a) zero from two heartbeats on
        if hb > 0 && hb < (1 << 63) && ts > prev && ts - prev >= 2 * hb {
            if w != Ok(0) {
                ctx.summary.oracle_failure(
                    case,
                    &format!("routing work requirement is {:?} (not 0) at elapsed {} >= 2 * heartbeat {}", w, ts - prev, hb),
                    &desc,
                );
            }
        }
        // (b) never increases with elapsed time: against a later timestamp
        if ts >= prev && hb < (1 << 63) {
            let later = match i % 3 {
                0 => ts.saturating_add(1),
                1 => ts.saturating_add(rng.range(0, hb.clamp(1, 1 << 40))),
                _ => ts.saturating_add(rng.range(0, hb.saturating_mul(3).clamp(1, 1 << 40))),
            };
            oracle_antitone(ctx, case, bf, prev, ts, later, hb, &desc);
        }
        // (d) the requirement is the burn fee divided by the elapsed time, rounded to the nearest nolan
        if let (Some(r), Ok(wv)) = (ref_work(bf, ts, prev, hb), w) {
            if r != wv && ctx.summary.distribution.get("burnfee.reference_mismatch").and_then(|m| m.get("reported")).copied().unwrap_or(0) < 2 {
                // (only the first two are reported so that block-level replays are not crowded out)
                ctx.summary.count("burnfee.reference_mismatch", "reported");
                ctx.summary.oracle_failure(
                    case,
                    &format!(
                        "routing work requirement {} differs from burn fee / elapsed rounded to the nearest nolan = {} (bf={}, elapsed={}, exact quotient {}+{}/{})",
                        wv, r, bf, ts.wrapping_sub(prev), bf / ts.wrapping_sub(prev).max(1), bf % ts.wrapping_sub(prev).max(1), ts.wrapping_sub(prev)
                    ),
                    &desc,
                );
            }
            ctx.summary.count("burnfee.reference_checked", if ts > prev && ts - prev < 2 * hb { "float-path" } else { "early-return" });
        }
        // (c) a misordered / equal timestamp must be "impossible": at least the sentinel
        if ts <= prev && w != Ok(SENTINEL) {
            ctx.summary.oracle_failure(case, &format!("misordered timestamps give {:?}, not the sentinel", w), &desc);
        }
        ctx.summary.case_descs.push(desc);
    }
    // the refutation witness of C08_work_antitone_refuted, replayed on the real function
    {
        let case = offset; // attached to the first case of the part
        let (bf, prev, t1, t2, hb) = (u64::MAX, 1000u64, 1000u64, 1001u64, 100u64);
        oracle_antitone(ctx, case, bf, prev, t1, t2, hb, "{\"part\":\"burnfee\",\"kind\":\"refutation-witness\"}");
        let w1 = real_work(bf, t1, prev, hb);
        let w2 = real_work(bf, t2, prev, hb);
        ctx.summary.samples.push(format!(
            "{{\"witness\":\"work_antitone_refuted\",\"bf\":{},\"prev\":{},\"t1\":{},\"t2\":{},\"hb\":{},\"work_t1\":{},\"work_t2\":{}}}",
            bf, prev, t1, t2, hb, jstr(&format!("{:?}", w1)), jstr(&format!("{:?}", w2))
        ));
    }
    // dense sweeps on the implementation only: every elapsed time 0 ..= 2hb+2
    let n_sweeps = if thorough { 400 } else { 60 };
    let mut sweep_points = 0u64;
    for s in 0..n_sweeps {
        let bf = if s % 3 == 0 { rand_bits(rng, 64) } else { rng.range(1, 10_000_000_000_000) };
        let hb = *rng.pick(&[1u64, 7, 100, 100, 5000]);
        let prev = rng.range(0, 2_000_000_000_000);
        let mut last: Option<u64> = None;
        for dt in 0..=(2 * hb + 2) {
            let w = match real_work(bf, prev + dt, prev, hb) {
                Ok(w) => w,
                Err(_) => break,
            };
            sweep_points += 1;
            if let Some(l) = last {
                if w > l {
                    let what = format!(
                        "routing work requirement increases with elapsed time: bf={} prev={} hb={}: work(dt={})={} < work(dt={})={}",
                        bf, prev, hb, dt - 1, l, dt, w
                    );
                    if dt == 1 && bf > SENTINEL {
                        ctx.summary.known_hit("sentinel-below-max-work", offset, &what);
                    } else {
                        ctx.summary.oracle_failure(offset, &what, "{\"part\":\"burnfee\",\"kind\":\"sweep\"}");
                    }
                }
            }
            if dt >= 2 * hb && w != 0 {
                ctx.summary.oracle_failure(
                    offset,
                    &format!("requirement {} at elapsed {} >= 2*hb (bf={}, hb={})", w, dt, bf, hb),
                    "{\"part\":\"burnfee\",\"kind\":\"sweep\"}",
                );
            }
            last = Some(w);
        }
    }
    ctx.summary.notes.push(format!(
        "part 1: {} (bf, ts, prev, heartbeat) quadruples compared bit-for-bit with the Flocq model; additionally {} points of dense elapsed-time sweeps (0..=2hb+2) checked for antitonicity / zero on the implementation only",
        quads.len(),
        sweep_points
    ));
    let header = format!(
        "From Saito Require Import Base BurnFee.\nDefinition DBG : bool := {}.\nDefinition check (c : N * N * N * N * N * N) : bool :=\n  let '(bf, ts, prev, hb, ew, eb) := c in\n  (obs_res (work_needed_r DBG bf ts prev hb) =? ew) && (burnfee_for_block bf ts prev hb =? eb).",
        gal::boolean(ctx.dbg)
    );
    // keep every shard below ~2 MB (about 110 bytes per case)
    let shards = ctx.args.shards.max(cases.len() / 14_000 + 1);
    let dir = format!("{}/cases", ctx.args.out);
    let files = write_shards_off(&dir, "bf", &header, "N * N * N * N * N * N", &cases, shards, offset);
    ctx.files.extend(files);
}

// ------------------------------------------------------------------ part 2: routing paths

#[derive(Clone, Copy, PartialEq, Debug)]
enum PathKind {
    None,
    Valid,
    Misdirected,
    Broken,
    SelfHop,
    ForgedSig,
    ForeignStart,
    Long,
}

fn mk_slip(pk: &SaitoPublicKey, amount: u64) -> Slip {
    let mut s = Slip::default();
    s.public_key = *pk;
    s.amount = amount;
    s.slip_type = SlipType::Normal;
    s
}

/// a signed transaction of `sender` with the given input / output amounts (inputs are
/// free-standing slips: nothing in part 2 touches the UTXO set)
fn raw_tx(keys: &Keys, sender: usize, ins: &[u64], outs: &[u64], ts: u64) -> Transaction {
    let mut tx = Transaction::default();
    tx.transaction_type = TransactionType::Normal;
    tx.timestamp = ts;
    for (i, a) in ins.iter().enumerate() {
        let mut s = mk_slip(&keys.v[sender].0, *a);
        s.block_id = 1;
        s.tx_ordinal = i as u64;
        tx.add_from_slip(s);
    }
    for a in outs {
        tx.add_to_slip(mk_slip(&keys.v[(sender + 1) % keys.v.len()].0, *a));
    }
    tx.sign(&keys.v[sender].1);
    tx
}

/// appends a hop signed by key `signer` claiming `from` -> `to`
fn push_hop(tx: &mut Transaction, keys: &Keys, signer: usize, from: usize, to: usize) {
    let hop = Hop::generate(&keys.v[signer].1, &keys.v[from].0, &keys.v[to].0, tx);
    tx.path.push(hop);
}

/// builds a path of the requested kind that ends (for the "good" kinds) at `creator`
fn build_path(tx: &mut Transaction, keys: &Keys, rng: &mut Rng, sender: usize, creator: usize, kind: PathKind, hops: usize) {
    let n = keys.v.len();
    if kind == PathKind::None || hops == 0 {
        return;
    }
    // node sequence sender = v0 -> v1 -> ... -> v_hops
    let mut nodes = vec![sender];
    for i in 0..hops {
        let last = *nodes.last().unwrap();
        let mut next = if i + 1 == hops { creator } else { rng.below(n as u64) as usize };
        if next == last {
            next = (next + 1) % n;
            if i + 1 == hops && kind != PathKind::Misdirected {
                // sender == creator with a single hop: route through another node first
                next = creator;
            }
        }
        nodes.push(next);
    }
    if kind == PathKind::Misdirected {
        let l = nodes.len() - 1;
        nodes[l] = (creator + 1 + rng.below(n as u64 - 1) as usize) % n;
        if nodes[l] == nodes[l - 1] {
            nodes[l] = (nodes[l] + 1) % n;
            if nodes[l] == creator {
                nodes[l] = (nodes[l] + 1) % n;
            }
        }
    }
    let victim = rng.below(hops as u64) as usize;
    for i in 0..hops {
        let (from, to) = (nodes[i], nodes[i + 1]);
        if from == to {
            // only possible for sender == creator single hop; use the real assert-free generator
            push_hop(tx, keys, from, from, to);
            continue;
        }
        match kind {
            PathKind::Valid | PathKind::Misdirected | PathKind::Long => {
                // the real add_hop
                tx.add_hop(&keys.v[from].1, &keys.v[from].0, &keys.v[to].0);
            }
            PathKind::Broken => {
                if i == victim && i > 0 {
                    // validly signed hop by a node that is not the previous `to`
                    let other = (from + 1 + rng.below(n as u64 - 1) as usize) % n;
                    if other == to {
                        push_hop(tx, keys, (other + 1) % n, (other + 1) % n, to);
                    } else {
                        tx.add_hop(&keys.v[other].1, &keys.v[other].0, &keys.v[to].0);
                    }
                } else {
                    tx.add_hop(&keys.v[from].1, &keys.v[from].0, &keys.v[to].0);
                }
            }
            PathKind::SelfHop => {
                if i == victim {
                    // from -> from (validly signed), then continue from -> to
                    push_hop(tx, keys, from, from, from);
                }
                tx.add_hop(&keys.v[from].1, &keys.v[from].0, &keys.v[to].0);
            }
            PathKind::ForgedSig => {
                if i == victim {
                    match rng.below(3) {
                        0 => {
                            // signed by somebody else
                            let other = (from + 1) % n;
                            push_hop(tx, keys, other, from, to);
                        }
                        1 => {
                            // signature for a different `to`
                            let other_to = (to + 1) % n;
                            let mut hop = Hop::generate(&keys.v[from].1, &keys.v[from].0, &keys.v[other_to].0, tx);
                            hop.to = keys.v[to].0;
                            tx.path.push(hop);
                        }
                        _ => {
                            // garbage signature
                            let mut hop = Hop::default();
                            hop.from = keys.v[from].0;
                            hop.to = keys.v[to].0;
                            let r = hash(&rng.next().to_be_bytes());
                            hop.sig[0..32].copy_from_slice(&r);
                            hop.sig[32..64].copy_from_slice(&hash(&r));
                            tx.path.push(hop);
                        }
                    }
                } else {
                    tx.add_hop(&keys.v[from].1, &keys.v[from].0, &keys.v[to].0);
                }
            }
            PathKind::ForeignStart => {
                if i == 0 {
                    // first hop does not start at the sender
                    let other = (from + 1 + rng.below(n as u64 - 1) as usize) % n;
                    if other == to {
                        tx.add_hop(&keys.v[from].1, &keys.v[from].0, &keys.v[to].0);
                    } else {
                        tx.add_hop(&keys.v[other].1, &keys.v[other].0, &keys.v[to].0);
                    }
                } else {
                    tx.add_hop(&keys.v[from].1, &keys.v[from].0, &keys.v[to].0);
                }
            }
            PathKind::None => {}
        }
    }
}

fn real_winner(tx: &Transaction, h: SaitoHash, keys: &Keys) -> Result<u64, u64> {
    catch_unwind(AssertUnwindSafe(|| tx.get_winning_routing_node(h)))
        .map(|pk| keys.id(&pk))
        .map_err(|e| panic_site(&panic_msg(e)))
}

/// direct oracle for one transaction: work bounds and eligibility of every lottery outcome
fn oracle_tx(
    ctx: &mut Ctx,
    case: usize,
    tx: &Transaction,
    creator: &SaitoPublicKey,
    fees: u64,
    winners: &[(SaitoHash, Result<u64, u64>)],
    keys: &Keys,
    desc: &str,
) {
    let w = tx.total_work_for_me;
    if tx.total_fees != fees {
        ctx.summary.oracle_failure(case, &format!("total_fees {} differs from inputs - outputs = {}", tx.total_fees, fees), desc);
    }
    if w > tx.total_fees {
        ctx.summary.oracle_failure(case, &format!("routing work {} exceeds the fee {}", w, tx.total_fees), desc);
    }
    let ends_at_creator = tx.path.last().map(|h| &h.to == creator).unwrap_or(false);
    let good = !tx.path.is_empty() && ends_at_creator && contiguous(tx);
    if w > 0 && !good {
        ctx.summary.oracle_failure(
            case,
            &format!("routing work {} counted for a path that is empty / broken / not ending at the creator", w),
            desc,
        );
    }
    if good {
        let expect = halve_n(fees, tx.path.len() - 1);
        if w != expect {
            ctx.summary.oracle_failure(
                case,
                &format!("routing work {} but fee {} halved once per hop after the first ({} hops) is {}", w, fees, tx.path.len(), expect),
                desc,
            );
        }
    }
    // eligibility of winners
    let mut eligible: BTreeSet<u64> = BTreeSet::new();
    eligible.insert(0);
    if tx.path.is_empty() {
        if let Some(s) = tx.from.first() {
            eligible.insert(keys.id(&s.public_key));
        }
    }
    for h in &tx.path {
        eligible.insert(keys.id(&h.to));
    }
    for (h, r) in winners {
        match r {
            Ok(k) => {
                if !eligible.contains(k) {
                    ctx.summary.oracle_failure(
                        case,
                        &format!("lottery winner key#{} for hash {} is neither a hop target nor the sender of a path-less tx", k, hex::encode(h)),
                        desc,
                    );
                }
            }
            Err(site) => {
                // only the documented arithmetic panics (2*fees >= 2^64) are tolerated
                if (fees as u128) * 2 < TWO64 || *site == 813 || *site == 814 || *site == 899 {
                    ctx.summary.oracle_failure(case, &format!("get_winning_routing_node panicked (site {})", site), desc);
                }
            }
        }
    }
}

fn part2(ctx: &mut Ctx, rng: &mut Rng) {
    let thorough = ctx.args.tier == "thorough";
    let keys = Keys::new(6);
    let n = if thorough { 24_000 } else { 3_000 };
    let offset = ctx.next_case();
    let mut cases: Vec<String> = vec![];
    let kinds = [
        PathKind::None,
        PathKind::Valid,
        PathKind::Valid,
        PathKind::Valid,
        PathKind::Misdirected,
        PathKind::Broken,
        PathKind::SelfHop,
        PathKind::ForgedSig,
        PathKind::ForeignStart,
    ];
    for i in 0..n {
        let case = offset + i;
        let sender = rng.below(6) as usize;
        let creator = rng.below(6) as usize;
        let mut kind = *rng.pick(&kinds);
        let mut hops = if kind == PathKind::None { 0 } else { rng.range(1, 5) as usize };
        // amounts
        let (ins, outs): (Vec<u64>, Vec<u64>) = match rng.below(12) {
            0 => (vec![1000], vec![1000]),                         // zero fee
            1 => (vec![1000], vec![2000]),                         // outputs exceed inputs: fee 0
            2 => (vec![rng.range(1, 9)], vec![0]),                 // tiny fees (all lottery outcomes)
            3 => (vec![rng.range(1, 40), rng.range(1, 40)], vec![rng.range(0, 1)]),
            4 => (vec![u64::MAX], vec![0]),                        // aggregate overflows from 2 hops on
            5 => (vec![(1 << 63) + 1], vec![0]),                   // wraps to 0 after 64 hops
            6 => (vec![1 << 63], vec![0]),
            7 => (vec![], vec![]),                                 // no inputs at all
            _ => {
                let a = rng.range(1, 1_000_000_000_000);
                (vec![a], vec![rng.range(0, a)])
            }
        };
        if ins == vec![(1u64 << 63) + 1] && i % 3 == 0 {
            kind = PathKind::Long;
            hops = 64 + rng.below(3) as usize;
        }
        let mut tx = if ins.is_empty() {
            let mut t = Transaction::default();
            t.timestamp = 1;
            t.sign(&keys.v[sender].1);
            t
        } else {
            raw_tx(&keys, sender, &ins, &outs, 1000 + i as u64)
        };
        build_path(&mut tx, &keys, rng, sender, creator, kind, hops);
        let fees = fees_of(&tx);
        let creator_pk = keys.v[creator].0;
        let gen = catch_unwind(AssertUnwindSafe(|| {
            let mut t = tx.clone();
            t.generate(&creator_pk, 0, 0);
            t
        }));
        let tx = match gen {
            Ok(t) => t,
            Err(e) => {
                let desc = format!("{{\"part\":\"routing\",\"kind\":{}}}", jstr(&format!("{:?}", kind)));
                ctx.summary.oracle_failure(case, &format!("Transaction::generate panicked: {}", panic_msg(e)), &desc);
                ctx.summary.case_descs.push(desc);
                cases.push("((0, None, 0, [], []), (1, true, []))".to_string());
                continue;
            }
        };
        let vrp = catch_unwind(AssertUnwindSafe(|| tx.validate_routing_path())).unwrap_or(false);
        // lottery numbers: random hashes and crafted small numbers around the fee boundaries
        let mut hashes: Vec<SaitoHash> = vec![];
        for _ in 0..3 {
            hashes.push(hash(&rng.next().to_be_bytes()));
        }
        let f = fees as u128;
        for x in [0u128, 1, f.saturating_sub(1), f, f + 1, f + f / 2, f + f / 2 + 1, f + f / 2 + f / 4] {
            if rng.chance(1, 2) {
                hashes.push(be32(x));
            }
        }
        if fees > 0 && fees < 12 {
            // small fee vectors: every outcome of the lottery
            for x in 0..(2 * f + 2) {
                hashes.push(be32(x));
            }
        }
        hashes.push([0xff; 32]);
        let winners: Vec<(SaitoHash, Result<u64, u64>)> =
            hashes.iter().map(|h| (*h, real_winner(&tx, *h, &keys))).collect();

        let path_json: Vec<String> = tx
            .path
            .iter()
            .map(|h| format!("[{},{},{}]", keys.id(&h.from), keys.id(&h.to), hop_sig_ok(&tx, h)))
            .collect();
        let desc = format!(
            "{{\"part\":\"routing\",\"kind\":{},\"creator_key\":{},\"sender_key\":{},\"inputs\":{:?},\"outputs\":{:?},\"path_from_to_sigok\":[{}],\"total_work_for_me\":{},\"validate_routing_path\":{},\"winners\":{}}}",
            jstr(&format!("{:?}", kind)),
            creator + 1,
            sender + 1,
            ins,
            outs,
            path_json.join(","),
            tx.total_work_for_me,
            vrp,
            jstr(&format!("{:?}", winners.iter().map(|(_, r)| *r).collect::<Vec<_>>()))
        );
        oracle_tx(ctx, case, &tx, &creator_pk, fees, &winners, &keys, &desc);
        // validate_routing_path: direct check against its definition on the real fields
        let expect_vrp = tx.path.iter().all(|h| hop_sig_ok(&tx, h) && h.from != h.to) && contiguous(&tx);
        if vrp != expect_vrp {
            ctx.summary.oracle_failure(
                case,
                &format!("validate_routing_path = {} but signatures/self-hops/contiguity say {}", vrp, expect_vrp),
                &desc,
            );
        }
        ctx.summary.count("routing.kind", &format!("{:?}", kind));
        ctx.summary.count("routing.hops", &format!("{:02}", tx.path.len().min(64)));
        ctx.summary.count("routing.work", if tx.total_work_for_me > 0 { "positive" } else { "zero" });
        ctx.summary.count("routing.valid_path", if vrp { "valid" } else { "invalid" });
        if !tx.path.is_empty() {
            ctx.nontrivial(format!("rt/{}", desc));
        }
        let xs: Vec<String> = hashes.iter().map(u256_dec).collect();
        let ws: Vec<String> = winners.iter().map(|(_, r)| obs(*r)).collect();
        cases.push(format!(
            "(({}, {}, {}), ({}, {}, {}))",
            creator + 1,
            abs_tx(&tx, fees, &keys),
            gal::list(&xs),
            tx.total_work_for_me,
            gal::boolean(vrp),
            gal::list(&ws)
        ));
        if i < 3 {
            ctx.summary.samples.push(desc.clone());
        }
        ctx.summary.case_descs.push(desc);
    }
    let header = format!(
        "From Saito Require Import Base BurnFee Routing.\nDefinition DBG : bool := {}.\nDefinition mk_tx (t : option N * N * list (N * N * bool)) : rtx :=\n  let '(f0, fees, p) := t in mkRtx f0 fees (map (fun h => mkHop (fst (fst h)) (snd (fst h)) (snd h)) p).\nDefinition check (c : (N * (option N * N * list (N * N * bool)) * list N) * (N * bool * list N)) : bool :=\n  let '((creator, t, xs), (w, v, wins)) := c in\n  let tx := mk_tx t in\n  (total_work creator tx =? w) && Bool.eqb (validate_routing_path tx) v\n  && eqb_lN (map (fun x => obs_res (winning_routing_node DBG tx x)) xs) wins.",
        gal::boolean(ctx.dbg)
    );
    let dir = format!("{}/cases", ctx.args.out);
    let shards = ctx.args.shards.max(cases.len() / 1500 + 1);
    let files = write_shards_off(
        &dir,
        "rt",
        &header,
        "(N * (option N * N * list (N * N * bool)) * list N) * (N * bool * list N)",
        &cases,
        shards,
        offset,
    );
    ctx.files.extend(files);
}

// ------------------------------------------------------------------ part 2b: ATR transaction as lottery winner

/// Block::find_winning_router on hand-made blocks that hold an ATR transaction whose `data` is a
/// serialised transaction: the winner must be drawn from the INNER transaction.
fn part2b(ctx: &mut Ctx, rng: &mut Rng) {
    let thorough = ctx.args.tier == "thorough";
    let keys = Keys::new(6);
    let n = if thorough { 1200 } else { 160 };
    let offset = ctx.next_case();
    let mut cases: Vec<String> = vec![];
    for i in 0..n {
        let case = offset + i;
        // inner transaction (what the ATR transaction rebroadcasts)
        let inner_kind = i % 5;
        let inner_sender = 1 + rng.below(3) as usize; // keys 2..4
        let mut inner = if inner_kind == 3 {
            let mut t = Transaction::default();
            t.timestamp = 7;
            t.sign(&keys.v[inner_sender].1);
            t
        } else {
            let a = rng.range(1000, 1_000_000);
            raw_tx(&keys, inner_sender, &[a], &[a - rng.range(1, 999)], 500 + i as u64)
        };
        if inner_kind == 1 || inner_kind == 2 {
            let hops = rng.range(1, 3) as usize;
            build_path(&mut inner, &keys, rng, inner_sender, 0, PathKind::Valid, hops);
        }
        let data: Vec<u8> = match inner_kind {
            4 => {
                // not a transaction at all
                let mut v = inner.serialize_for_net();
                v.truncate(rng.range(0, 40) as usize);
                v
            }
            _ => inner.serialize_for_net(),
        };
        // the ATR transaction itself: owned by key 6, which is on no path of the inner transaction
        let mut atr = Transaction::default();
        atr.transaction_type = TransactionType::ATR;
        atr.timestamp = 9;
        let a = rng.range(10_000, 1_000_000);
        let fb = rng.range(1, 5000);
        atr.add_from_slip(mk_slip(&keys.v[5].0, a));
        let mut o = mk_slip(&keys.v[5].0, a - fb);
        o.slip_type = SlipType::ATR;
        atr.add_to_slip(o);
        atr.data = data.clone();
        // a normal routed fee transaction next to it
        let fa_in = rng.range(1000, 1_000_000);
        let mut normal = raw_tx(&keys, 1, &[fa_in], &[fa_in - rng.range(1, 999)], 900 + i as u64);
        let nh = rng.below(3) as usize;
        build_path(&mut normal, &keys, rng, 1, 0, if nh == 0 { PathKind::None } else { PathKind::Valid }, nh);
        let mut block = Block::new();
        block.id = 5;
        block.creator = keys.v[0].0;
        block.timestamp = 1000;
        match i % 3 {
            0 => {
                block.transactions.push(normal);
                block.transactions.push(atr);
            }
            1 => {
                block.transactions.push(atr);
                block.transactions.push(normal);
            }
            _ => block.transactions.push(atr),
        }
        if catch_unwind(AssertUnwindSafe(|| block.generate())).map(|r| r.is_err()).unwrap_or(true) {
            ctx.summary.oracle_failure(case, "vacuity guard: Block::generate failed on a hand-made block with an ATR transaction", "{\"part\":\"atr\"}");
            cases.push("((0, []), [])".to_string());
            ctx.summary.case_descs.push("{\"part\":\"atr\",\"setup\":\"failed\"}".to_string());
            continue;
        }
        block.total_fees = block.transactions.iter().map(|t| t.total_fees).sum();
        // the inner transaction as the implementation will see it
        let inner_seen: Option<Transaction> = catch_unwind(AssertUnwindSafe(|| Transaction::deserialize_from_net(&data))).ok().and_then(|r| r.ok());
        let mut elig: BTreeSet<u64> = BTreeSet::new();
        elig.insert(0);
        for t in &block.transactions {
            let subject: Option<&Transaction> = if t.transaction_type == TransactionType::ATR { inner_seen.as_ref() } else { Some(t) };
            if let Some(t) = subject {
                if t.path.is_empty() {
                    if let Some(sl) = t.from.first() {
                        elig.insert(keys.id(&sl.public_key));
                    }
                }
                for h in &t.path {
                    elig.insert(keys.id(&h.to));
                }
            }
        }
        let mut xs: Vec<u128> = vec![0, 1];
        for t in &block.transactions {
            let c = t.cumulative_fees as u128;
            xs.extend([c.saturating_sub(1), c, c + 1]);
        }
        let f = block.total_fees as u128;
        xs.extend([f.saturating_sub(1), f, f + 1]);
        xs.sort();
        xs.dedup();
        let mut hs: Vec<SaitoHash> = xs.iter().map(|x| be32(*x)).collect();
        hs.push(hash(&rng.next().to_be_bytes()));
        let desc = format!(
            "{{\"part\":\"atr\",\"inner\":{},\"layout\":{},\"block_total_fees\":{},\"tx_types_cumulative_fees\":{:?},\"inner_deserialises\":{}}}",
            jstr(["path-less", "routed", "routed", "no-inputs", "truncated-bytes"][inner_kind]),
            i % 3,
            block.total_fees,
            block.transactions.iter().map(|t| vec![t.transaction_type as u64, t.cumulative_fees]).collect::<Vec<_>>(),
            inner_seen.is_some()
        );
        let mut sweep: Vec<String> = vec![];
        let mut atr_won = false;
        for h in hs {
            let r = catch_unwind(AssertUnwindSafe(|| block.find_winning_router(h))).map(|pk| keys.id(&pk)).map_err(|e| panic_site(&panic_msg(e)));
            // which transaction holds the winning nolan
            let x = u128::from_be_bytes(h[16..32].try_into().unwrap());
            if h[0..16].iter().all(|b| *b == 0) && block.total_fees > 0 {
                let w = ((x % block.total_fees as u128) as u64).max(1);
                if let Some(t) = block.transactions.iter().find(|t| t.cumulative_fees >= w) {
                    if t.transaction_type == TransactionType::ATR {
                        atr_won = true;
                    }
                }
            }
            match r {
                Ok(k) if !elig.contains(&k) => ctx.summary.oracle_failure(
                    case,
                    &format!("find_winning_router({}) returns key#{}: not a hop target / path-less sender of a transaction of the block (for the ATR transaction: of the transaction it carries)", hex::encode(h), k),
                    &desc,
                ),
                Err(site) if inner_seen.is_some() => {
                    ctx.summary.oracle_failure(case, &format!("find_winning_router({}) panicked (site {}) although the ATR payload is a valid transaction", hex::encode(h), site), &desc)
                }
                _ => {}
            }
            sweep.push(format!("({}, {}, {})", u256_dec(&h), u256_dec(&hash(h.as_ref())), obs(r)));
        }
        ctx.summary.count("atr.inner", ["path-less", "routed", "routed", "no-inputs", "truncated-bytes"][inner_kind]);
        ctx.summary.count("atr.winner_is_atr_tx", if atr_won { "yes" } else { "no" });
        ctx.nontrivial(format!("atr/{}", desc));
        let txs: Vec<String> = block
            .transactions
            .iter()
            .map(|t| {
                let is_atr = t.transaction_type == TransactionType::ATR;
                let inner_s = match (&inner_seen, is_atr) {
                    (Some(it), true) => format!("Some {}", abs_tx(it, it.total_fees, &keys)),
                    _ => "None".to_string(),
                };
                format!("({}, {}, {}, {})", t.cumulative_fees, gal::boolean(is_atr), inner_s, abs_tx(t, t.total_fees, &keys))
            })
            .collect();
        cases.push(format!("(({}, {}), {})", block.total_fees, gal::list(&txs), gal::list(&sweep)));
        ctx.summary.case_descs.push(desc);
    }
    require_min(ctx, offset, "atr.winner_is_atr_tx", "yes", 100);
    let header = format!(
        "From Saito Require Import Base BurnFee Routing.\nDefinition DBG : bool := {}.\n{}",
        gal::boolean(ctx.dbg),
        r#"Definition T := (option N * N * list (N * N * bool))%type.
Definition mk_tx (t : T) : rtx :=
  let '(f0, fees, p) := t in mkRtx f0 fees (map (fun h => mkHop (fst (fst h)) (snd (fst h)) (snd h)) p).
Definition mk_btx4 (c : N * bool * option T * T) : btx :=
  let '(cum, atr, inner, t) := c in mkBtx cum atr (option_map mk_tx inner) (mk_tx t).
Definition check (c : (N * list (N * bool * option T * T)) * list (N * N * N)) : bool :=
  let '((fees, txs), sweep) := c in
  forallb (fun s => let '(x, x2, e) := s in
                    obs_res (find_winning_router DBG fees (map mk_btx4 txs) x x2) =? e) sweep."#
    );
    let dir = format!("{}/cases", ctx.args.out);
    let files = write_shards_off(&dir, "atr", &header, "(N * list (N * bool * option T * T)) * list (N * N * N)", &cases, 8, offset);
    ctx.files.extend(files);
}

// ------------------------------------------------------------------ part 3: real chains

/// like world::make_block, but the golden ticket may be solved by another key
async fn make_block_gt(
    node: &Node,
    parent_hash: SaitoHash,
    timestamp: u64,
    txs: Vec<Transaction>,
    gt: Option<(&SaitoPublicKey, &SaitoPublicKey, &SaitoPrivateKey, u64)>, // (ticket key, relay key, relay secret, seed)
) -> Result<Block, String> {
    let mut map = fixed_tx_map();
    for mut tx in txs {
        tx.generate(&node.pk, 0, 0);
        map.insert(tx.signature, tx);
    }
    let mut gt_opt = None;
    if let Some((pk, relay_pk, relay_sk, seed)) = gt {
        let parent = node.blockchain.get_block(&parent_hash).ok_or_else(|| "parent not found".to_string())?;
        // the solution names `pk`; the transaction that carries it is signed (and sent) by the relay
        let ticket = mine_golden_ticket(parent_hash, parent.difficulty, *pk, seed);
        let mut gttx = Wallet::create_golden_ticket_transaction(ticket, relay_pk, relay_sk).await;
        gttx.generate(&node.pk, 0, 0);
        gt_opt = Some(gttx);
    }
    let mut block = Block::create(&mut map, parent_hash, &node.blockchain, timestamp, &node.pk, &node.sk, gt_opt, &node.cfg, &node.storage)
        .await
        .map_err(|e| format!("Block::create failed: {:?}", e))?;
    block.generate().map_err(|e| format!("generate failed: {:?}", e))?;
    block.sign(&node.sk);
    block.generate().map_err(|e| format!("generate failed: {:?}", e))?;
    Ok(block)
}

/// a spendable-slip pool of one key (outputs of the genesis issuance)
struct Purse {
    slips: Vec<Slip>,
    next: usize,
}
impl Purse {
    fn take(&mut self) -> Slip {
        let s = self.slips[self.next].clone();
        self.next += 1;
        s
    }
}

/// routed transaction paying `fee`, path sender(A) -> routers… -> target, `hops` hops
fn routed_tx(
    keys: &Keys,
    purse: &mut Purse,
    sender: usize,
    fee: u64,
    route: &[usize],
    ts: u64,
) -> Transaction {
    let s = purse.take();
    let mut tx = make_tx(&[s.clone()], &[(keys.v[sender].0, s.amount - fee)], &keys.v[sender].1, ts);
    let mut from = sender;
    for &to in route {
        tx.add_hop(&keys.v[from].1, &keys.v[from].0, &keys.v[to].0);
        from = to;
    }
    tx
}

fn abs_block_txs(b: &Block, keys: &Keys) -> (Vec<String>, bool) {
    // (cumulative_fees, (from0, fees, path)) per transaction; flag = ATR present
    let mut has_atr = false;
    let v = b
        .transactions
        .iter()
        .map(|t| {
            if t.transaction_type == TransactionType::ATR {
                has_atr = true;
            }
            format!("({}, {})", t.cumulative_fees, abs_tx(t, t.total_fees, keys))
        })
        .collect();
    (v, has_atr)
}

fn eligible_of(b: &Block, keys: &Keys, set: &mut BTreeSet<u64>) {
    for t in &b.transactions {
        if t.path.is_empty() {
            if let Some(s) = t.from.first() {
                set.insert(keys.id(&s.public_key));
            }
        }
        for h in &t.path {
            set.insert(keys.id(&h.to));
        }
    }
}

/// fees collected by a block, recomputed from its transactions' slips
fn collected_fees(b: &Block) -> u64 {
    b.transactions
        .iter()
        .filter(|t| matches!(t.transaction_type, TransactionType::Normal | TransactionType::GoldenTicket))
        .map(fees_of)
        .sum()
}

struct Scenario {
    hb: u64,
    dt: u64,            // candidate timestamp offset from its parent (may be 0)
    misordered: bool,   // candidate timestamp before the parent's
    hops: usize,        // hops of the work-carrying transactions
    n_tx: usize,        // number of work-carrying transactions
    variant: i64,       // work - needed: -1 short, 0 exact, +k over
    path_defect: u8,    // 0 none, 1 forged hop signature, 2 self-hop, 3 misdirected, 4 broken
    with_gt: bool,
    pre_dt: Option<u64>, // an extra block between block 2 and the candidate (varies the parent's burn fee)
    carrier: u8,         // type of work transaction 0: 0 Normal, 1 the GoldenTicket transaction itself, 2 BlockStake
}

async fn run_gate_scenario(ctx: &mut Ctx, rng: &mut Rng, sc: &Scenario, keys: &Keys, cases: &mut Vec<String>, case: usize) {
    let params = Params { genesis_period: 100, heartbeat: sc.hb, ..Params::default() };
    let mut node = Node::new(&params, 1);
    let creator = 0usize; // keys.v[0] == node key (keypair(1))
    let sender = 1usize;
    let iss: Vec<(SaitoPublicKey, u64)> = (0..12).map(|_| (keys.v[sender].0, 400_000_000_000u64)).collect();
    let g = make_genesis(&node, 1_000_000, &iss).await.unwrap();
    let r0 = node.add_block(g.clone()).await;
    let mut purse = Purse { slips: (0..12).map(|i| outputs_of(&g, i)[0].clone()).collect(), next: 0 };
    // block 2: far after genesis (no work needed), fee sets nothing for the gate; burnfee becomes 50_000_000
    let ts2 = 1_000_000 + 2 * sc.hb + 17;
    let tx2 = routed_tx(keys, &mut purse, sender, 1000, &[creator], ts2);
    let b2 = make_block(&node, g.hash, ts2, vec![tx2], false, 0).await.unwrap();
    let r2 = node.add_block(b2.clone()).await;
    if r0 != AddClass::OnChain || r2 != AddClass::OnChain {
        ctx.summary.oracle_failure(
            case,
            &format!("vacuity guard: gate scenario could not be set up (genesis {:?}, block 2 {:?}); the honest setup blocks must be accepted", r0, r2),
            "{\"part\":\"gate\",\"setup\":\"failed\"}",
        );
        cases.push("((0, [], 0, 0, 0, 1), (0, false, false))".to_string());
        ctx.summary.case_descs.push("{\"part\":\"gate\",\"setup\":\"failed\"}".to_string());
        return;
    }
    // optional extra block: the candidate's parent then has a burn fee other than 50_000_000
    let (b2, ts2) = match sc.pre_dt {
        None => (b2, ts2),
        Some(pd) => {
            let tsx = ts2 + pd;
            let need_x = BurnFee::return_routing_work_needed_to_produce_block_in_nolan(b2.burnfee, tsx, ts2, sc.hb);
            let txx = routed_tx(keys, &mut purse, sender, need_x + 1000 + rng.below(1000), &[creator], tsx);
            let bx = make_block(&node, b2.hash, tsx, vec![txx], false, 0).await.unwrap();
            let rx = node.add_block(bx.clone()).await;
            if rx != AddClass::OnChain {
                ctx.summary.oracle_failure(
                    case,
                    &format!("vacuity guard: gate scenario could not be set up (block 3 with ample work {:?})", rx),
                    "{\"part\":\"gate\",\"setup\":\"failed\"}",
                );
                cases.push("((0, [], 0, 0, 0, 1), (0, false, false))".to_string());
                ctx.summary.case_descs.push("{\"part\":\"gate\",\"setup\":\"failed\"}".to_string());
                return;
            }
            (bx, tsx)
        }
    };
    let ts3 = if sc.misordered { ts2 - 1 - rng.below(100) } else { ts2 + sc.dt };
    let needed_impl = BurnFee::return_routing_work_needed_to_produce_block_in_nolan(b2.burnfee, ts3, ts2, sc.hb);
    // the requirement the candidate is measured against: exact arithmetic where it is unambiguous
    let needed_ref = ref_work(b2.burnfee, ts3, ts2, sc.hb);
    let needed = needed_ref.unwrap_or(needed_impl);
    // target total work
    let target: u64 = if needed == SENTINEL {
        // cannot be met with real money: offer a sizeable amount of work anyway
        1_000_000_000
    } else {
        (needed as i128 + sc.variant as i128).max(0) as u64
    };
    // split the target over n_tx transactions; per-tx work w_i needs fee f_i with halve^(hops-1)(f_i) = w_i
    let n_tx = sc.n_tx.max(1);
    let mut works = vec![target / n_tx as u64; n_tx];
    works[0] += target % n_tx as u64;
    let mut txs = vec![];
    for (j, w) in works.iter().enumerate() {
        let mul = 1u64 << (sc.hops - 1);
        let fee = w * mul; // ceil-halving of w * 2^(k) k times gives exactly w
        // route: sender -> r1 -> ... -> creator
        let mut route: Vec<usize> = (0..sc.hops - 1).map(|k| 2 + ((j + k) % 3)).collect();
        route.push(creator);
        let mut tx = {
            let s = purse.take();
            // distinct timestamps: the tx signature does not cover (block_id, tx_ordinal) of the inputs
            make_tx(&[s.clone()], &[(keys.v[sender].0, s.amount - fee)], &keys.v[sender].1, ts3.wrapping_add(j as u64))
        };
        if j == 0 && sc.carrier != 0 {
            // the fee-paying, routed transaction is not a Normal one: re-type and re-sign before routing
            if sc.carrier == 1 {
                tx.transaction_type = TransactionType::GoldenTicket;
                tx.data = mine_golden_ticket(b2.hash, b2.difficulty, keys.v[4].0, case as u64).serialize_for_net();
            } else {
                tx.transaction_type = TransactionType::BlockStake;
            }
            tx.sign(&keys.v[sender].1);
        }
        let defect_here = sc.path_defect != 0 && j == 0;
        let mut from = sender;
        for (k, &to) in route.iter().enumerate() {
            let last = k + 1 == route.len();
            if defect_here && last && sc.path_defect == 1 {
                // forged: the last hop to the creator is "signed" by the creator, not by `from`
                let hop = Hop::generate(&keys.v[creator].1, &keys.v[from].0, &keys.v[to].0, &tx);
                tx.path.push(hop);
            } else if defect_here && last && sc.path_defect == 2 {
                // self-hop inserted before the last hop
                let hop = Hop::generate(&keys.v[from].1, &keys.v[from].0, &keys.v[from].0, &tx);
                tx.path.push(hop);
                tx.add_hop(&keys.v[from].1, &keys.v[from].0, &keys.v[to].0);
            } else if defect_here && last && sc.path_defect == 3 {
                // misdirected: ends at a router, not at the creator
                let other = 5usize;
                tx.add_hop(&keys.v[from].1, &keys.v[from].0, &keys.v[other].0);
            } else if defect_here && last && sc.path_defect == 4 && route.len() > 1 {
                // broken: last hop starts at a node that is not the previous `to`
                let other = 5usize;
                tx.add_hop(&keys.v[other].1, &keys.v[other].0, &keys.v[to].0);
            } else {
                tx.add_hop(&keys.v[from].1, &keys.v[from].0, &keys.v[to].0);
            }
            from = to;
        }
        txs.push(tx);
    }
    let relay = if case % 2 == 0 { 4 } else { 3 };
    let gt = if sc.with_gt { Some((&keys.v[4].0, &keys.v[relay].0, &keys.v[relay].1, case as u64)) } else { None };
    let built = if sc.carrier == 1 {
        let gttx = txs.remove(0);
        make_block_with_gttx(&node, b2.hash, ts3, txs, gttx).await
    } else {
        make_block_gt(&node, b2.hash, ts3, txs, gt).await
    };
    let b3 = match built {
        Ok(b) => b,
        Err(e) => {
            ctx.summary.oracle_failure(case, &format!("vacuity guard: gate candidate not built: {}", e), "{\"part\":\"gate\",\"setup\":\"candidate-failed\"}");
            cases.push("((0, [], 0, 0, 0, 1), (0, false, false))".to_string());
            ctx.summary.case_descs.push("{\"part\":\"gate\",\"setup\":\"candidate-failed\"}".to_string());
            return;
        }
    };
    let total_work = b3.total_work;
    let class = {
        let fut = node.add_block(b3.clone());
        fut.await
    };
    let accepted = class == AddClass::OnChain;
    let invalid_paths: Vec<bool> = b3.transactions.iter().map(|t| !t.validate_routing_path()).collect();
    let work_from_invalid: u64 = b3
        .transactions
        .iter()
        .zip(invalid_paths.iter())
        .filter(|(_, inv)| **inv)
        .map(|(t, _)| t.total_work_for_me)
        .sum();
    let desc = format!(
        "{{\"part\":\"gate\",\"heartbeat\":{},\"parent_burnfee\":{},\"parent_ts\":{},\"candidate_ts\":{},\"work_needed\":{},\"work_needed_by_implementation\":{},\"total_work\":{},\"hops\":{},\"work_txs\":{},\"variant\":{},\"path_defect\":{},\"work_transaction_0_type\":{},\"golden_ticket\":{},\"add_block\":{},\"work_from_invalid_paths\":{}}}",
        sc.hb, b2.burnfee, ts2, ts3, needed, needed_impl, total_work, sc.hops, n_tx, sc.variant, sc.path_defect, jstr(["Normal", "GoldenTicket", "BlockStake"][sc.carrier as usize]), sc.with_gt || sc.carrier == 1,
        jstr(&format!("{:?}", class)), work_from_invalid
    );
    // ---- direct oracle
    if accepted && total_work < needed {
        ctx.summary.oracle_failure(
            case,
            &format!("block accepted with routing work {} below the requirement {} = parent burn fee {} / elapsed {} rounded to the nearest nolan (heartbeat {}; the implementation asked for {})", total_work, needed, b2.burnfee, ts3 as i128 - ts2 as i128, sc.hb, needed_impl),
            &desc,
        );
    }
    if let Some(r) = needed_ref {
        if r != needed_impl {
            ctx.summary.oracle_failure(
                case,
                &format!("the implementation asks for {} but burn fee {} / elapsed {} rounded to the nearest nolan is {}", needed_impl, b2.burnfee, ts3 as i128 - ts2 as i128, r),
                &desc,
            );
        }
        ctx.summary.count("gate.requirement_fraction", &{
            let el = (ts3 as i128 - ts2 as i128).max(1) as u64;
            if ts3 <= ts2 || el >= 2 * sc.hb { "n/a".to_string() } else if 2 * (b2.burnfee % el) >= el { ">=.5".to_string() } else { "<.5".to_string() }
        });
    }
    if accepted && total_work.saturating_sub(work_from_invalid) < needed {
        // the requirement is met only thanks to paths that are not cryptographically valid / are self-hops
        // (before fix ff03c2c this was finding invalid-path-work-accepted; now any occurrence is a violation)
        let bad: Vec<String> = b3
            .transactions
            .iter()
            .zip(invalid_paths.iter())
            .filter(|(t, inv)| **inv && t.total_work_for_me > 0)
            .map(|(t, _)| format!("{:?} transaction, work {}, path {}", t.transaction_type, t.total_work_for_me, abs_tx(t, t.total_fees, keys)))
            .collect();
        ctx.summary.oracle_failure(
            case,
            &format!(
                "block accepted although only {} of its routing work {} comes through cryptographically valid paths (requirement {}): counted work of transactions whose validate_routing_path() is false (forged hop signature / self-hop): {:?}",
                total_work - work_from_invalid, total_work, needed, bad
            ),
            &desc,
        );
    }
    if !accepted && sc.path_defect == 0 && total_work >= needed && class != AddClass::Panicked {
        ctx.summary.oracle_failure(
            case,
            &format!("otherwise valid block with routing work {} >= requirement {} was not accepted ({:?})", total_work, needed, class),
            &desc,
        );
    }
    ctx.summary.count("gate.variant", &format!("{:+}", sc.variant.signum()));
    ctx.summary.count("gate.result", &format!("{:?}", class));
    ctx.summary.count("gate.defect", &format!("{}", sc.path_defect));
    if sc.carrier != 0 {
        ctx.summary.count(
            "gate.non_normal_carrier",
            &format!("{}:{}:{:?}", ["Normal", "GoldenTicket", "BlockStake"][sc.carrier as usize], if sc.path_defect == 0 { "valid-path" } else { "invalid-path" }, class),
        );
    }
    ctx.summary.count("gate.hops", &format!("{}", sc.hops));
    ctx.nontrivial(format!("gate/{}", desc));
    // ---- model case: block total work from the abstract transactions, gate verdict
    let atxs: Vec<String> = b3.transactions.iter().map(|t| abs_tx(t, t.total_fees, keys)).collect();
    let strict = sc.path_defect == 0 || sc.path_defect >= 3;
    cases.push(format!(
        "(({}, {}, {}, {}, {}, {}), ({}, {}, {}))",
        keys.id(&b3.creator),
        gal::list(&atxs),
        b2.burnfee,
        ts3,
        ts2,
        sc.hb,
        total_work,
        gal::boolean(accepted),
        gal::boolean(strict)
    ));
    if case % 40 == 0 {
        ctx.summary.samples.push(desc.clone());
    }
    ctx.summary.case_descs.push(desc);
}


/// re-seals a block after its transaction list was edited: merkle root, pre-hash, creator signature, hash
fn reseal(block: &mut Block, sk: &SaitoPrivateKey) {
    block.merkle_root = block.generate_merkle_root(false, false);
    let _ = block.generate();
    block.sign(sk);
    let _ = block.generate();
}

/// a fresh node holding `chain` (all blocks were accepted by another node before)
/// add_block for an adversarial (tampered, re-signed) block: a panic of the node while it processes the block
/// (for instance its own supply check after it accepted a forged payout) is caught and reported as a failure
/// of the property on this input instead of killing the harness
async fn add_block_caught(n: &mut Node, b: Block, ctx: &mut Ctx, case: usize, what: &str, desc: &str) -> AddClass {
    let id = b.id;
    match verif_harness::chainsim::futures_catch(AssertUnwindSafe(n.add_block(b))).await {
        Ok(cl) => cl,
        Err(m) => {
            ctx.summary.oracle_failure(
                case,
                &format!("the node panicked while adding block {} ({}): {} -- a tampered block must be refused, not crash the node", id, what, m),
                desc,
            );
            AddClass::Panicked
        }
    }
}

async fn replay_node(params: &Params, chain: &[Block]) -> Option<Node> {
    let mut node = Node::new(params, 1);
    for b in chain {
        if node.add_block(b.clone()).await != AddClass::OnChain {
            return None;
        }
    }
    Some(node)
}

const FEE_TAMPER: [&str; 7] = [
    "payee-changed-to-ineligible-key",
    "amount-plus-one",
    "extra-output",
    "fee-transaction-duplicated",
    "fee-transaction-removed",
    "payee-swapped-among-eligible",
    "miner-output-to-gt-transaction-sender",
];

/// clone of an honest golden-ticket block with its fee transaction tampered and everything re-signed
fn tampered_clone(b: &Block, kind: usize, keys: &Keys, sk: &SaitoPrivateKey, gt_sender: &SaitoPublicKey) -> Option<Block> {
    let mut c = b.clone();
    let fi = c.transactions.iter().position(|t| t.transaction_type == TransactionType::Fee)?;
    let outsider = keys.v[7].0;
    match kind {
        0 => {
            let t = &mut c.transactions[fi];
            t.to.first_mut()?.public_key = outsider;
            t.sign(sk);
        }
        1 => {
            let t = &mut c.transactions[fi];
            t.to.first_mut()?.amount += 1;
            t.sign(sk);
        }
        2 => {
            let t = &mut c.transactions[fi];
            let mut o = Slip::default();
            o.public_key = outsider;
            o.amount = 1;
            o.slip_type = SlipType::RouterOutput;
            t.add_to_slip(o);
            t.sign(sk);
        }
        3 => {
            let t = c.transactions[fi].clone();
            c.transactions.push(t);
        }
        4 => {
            c.transactions.remove(fi);
        }
        5 => {
            let t = &mut c.transactions[fi];
            if t.to.len() < 2 || t.to[0].public_key == t.to[1].public_key {
                return None;
            }
            let k0 = t.to[0].public_key;
            t.to[0].public_key = t.to[1].public_key;
            t.to[1].public_key = k0;
            t.sign(sk);
        }
        _ => {
            let t = &mut c.transactions[fi];
            let m = t.to.iter_mut().find(|s| s.slip_type == SlipType::MinerOutput)?;
            if &m.public_key == gt_sender {
                return None;
            }
            m.public_key = *gt_sender;
            t.sign(sk);
        }
    }
    reseal(&mut c, sk);
    Some(c)
}

fn fee_outputs(b: &Block, keys: &Keys) -> (Vec<(u64, u64, u64)>, usize) {
    let fee_txs: Vec<&Transaction> = b.transactions.iter().filter(|t| t.transaction_type == TransactionType::Fee).collect();
    let outs = fee_txs
        .iter()
        .flat_map(|t| t.to.iter())
        .map(|s| {
            (
                keys.id(&s.public_key),
                s.amount,
                match s.slip_type {
                    SlipType::MinerOutput => 1,
                    SlipType::RouterOutput => 2,
                    _ => 9,
                },
            )
        })
        .collect();
    (outs, fee_txs.len())
}

/// per-block bookkeeping the lottery and the golden-ticket rule depend on
fn oracle_block_meta(ctx: &mut Ctx, case: usize, b: &Block, parent: &Block, desc: &str) {
    let mut cum: u128 = 0;
    for (i, t) in b.transactions.iter().enumerate() {
        cum += fees_of(t) as u128;
        if t.cumulative_fees as u128 != cum {
            ctx.summary.oracle_failure(
                case,
                &format!("block {}: cumulative_fees of transaction {} is {} but the fees of transactions 0..={} add up to {}", b.id, i, t.cumulative_fees, i, cum),
                desc,
            );
            break;
        }
    }
    let mut d = parent.difficulty;
    if parent.has_golden_ticket {
        if b.has_golden_ticket {
            d += 1;
        }
    } else if !b.has_golden_ticket && d > 0 {
        d -= 1;
    }
    if b.difficulty != d {
        ctx.summary.oracle_failure(
            case,
            &format!("accepted block {} has difficulty {} but parent difficulty {} / golden tickets (parent {}, block {}) give {}", b.id, b.difficulty, parent.difficulty, parent.has_golden_ticket, b.has_golden_ticket, d),
            desc,
        );
    }
}

/// chains g, b2, b3, b4(gt) [, b5(gt)] with fees and varied paths; checks every fee transaction
async fn run_payout_scenario(ctx: &mut Ctx, rng: &mut Rng, keys: &Keys, cases: &mut Vec<String>, first_case: usize) -> usize {
    let hb = 100u64;
    let gp = *rng.pick(&[10u64, 10, 20, 100]);
    let params = Params { genesis_period: gp, heartbeat: hb, ..Params::default() };
    let mut node = Node::new(&params, 1);
    let creator = 0usize;
    let n_iss = 40;
    let mut iss: Vec<(SaitoPublicKey, u64)> = vec![];
    for i in 0..n_iss {
        iss.push((keys.v[1 + i % 2].0, 50_000_000_000u64));
    }
    let g = make_genesis(&node, 5_000_000, &iss).await.unwrap();
    if node.add_block(g.clone()).await != AddClass::OnChain {
        return 0;
    }
    let mut purses: Vec<Purse> = vec![
        Purse { slips: (0..n_iss).filter(|i| i % 2 == 0).map(|i| outputs_of(&g, i)[0].clone()).collect(), next: 0 },
        Purse { slips: (0..n_iss).filter(|i| i % 2 == 1).map(|i| outputs_of(&g, i)[0].clone()).collect(), next: 0 },
    ];
    let mut chain: Vec<Block> = vec![g.clone()];
    // "forced" flavour: two ticket-less blocks with multi-hop fee transactions, the second collecting
    // about four times the first, then a golden ticket: the loop-back branch pays router2 uncapped
    let forced = gp == 10 && rng.chance(1, 2);
    let n_blocks = rng.range(3, 6) as usize;
    let mut produced = 0usize;
    let big = rng.range(100_000, 5_000_000);
    for bi in 0..n_blocks {
        let parent = chain.last().unwrap().clone();
        let ts = parent.timestamp + 2 * hb + rng.range(0, 50);
        // transactions of this block: 0..4 with varied fees and paths
        let mut txs = vec![];
        let ntx = if forced && bi < 2 { rng.range(2, 3) } else if bi == 0 { rng.range(1, 3) } else { rng.range(0, 4) } as usize;
        for _ in 0..ntx {
            let who = rng.below(2) as usize; // purse / sender key index 1 or 2
            if purses[who].next + 1 >= purses[who].slips.len() {
                continue;
            }
            let sender = 1 + who;
            let fee = if forced && bi < 2 {
                (if bi == 0 { big } else { 4 * big }) + rng.below(1000)
            } else {
                match rng.below(5) {
                    0 => 0,
                    1 => rng.range(1, 20),
                    2 => big,
                    _ => rng.range(big / 10, big),
                }
            };
            let hops = if forced && bi < 2 { rng.range(2, 3) as usize } else { rng.below(4) as usize };
            let mut route: Vec<usize> = vec![];
            let mut last = sender;
            if forced && bi < 2 {
                // block N-2 is routed through R1 = key#4 only, block N-1 through R2 = key#5 (and key#6)
                route = if bi == 0 { vec![3, creator] } else if rng.chance(1, 2) { vec![4, creator] } else { vec![4, 5] };
            }
            for k in 0..(if forced && bi < 2 { 0 } else { hops }) {
                let mut nx = if k + 1 == hops && rng.chance(3, 4) { creator } else { rng.range(2, 5) as usize };
                if nx == last {
                    nx = if nx == 5 { 3 } else { nx + 1 };
                }
                route.push(nx);
                last = nx;
            }
            let k = txs.len() as u64;
            txs.push(routed_tx(keys, &mut purses[who], sender, fee, &route, ts + k));
        }
        let no_gt_run = chain.iter().rev().take_while(|x| !x.has_golden_ticket).count();
        let with_gt = if forced && bi < 3 { bi == 2 } else { bi >= 1 && rng.chance(2, 3) || bi + 1 == n_blocks || (bi >= 1 && no_gt_run >= 2) };
        if txs.is_empty() && !with_gt {
            let who = 0;
            txs.push(routed_tx(keys, &mut purses[who], 1, 5, &[creator], ts));
        }
        let miner = *rng.pick(&[0usize, 4, 5]);
        // the golden-ticket transaction is sent by a relay that need not be the solver
        let relay = *rng.pick(&[miner, miner, 0, 3, 6]);
        let gt = if with_gt { Some((&keys.v[miner].0, &keys.v[relay].0, &keys.v[relay].1, first_case as u64 * 16 + bi as u64)) } else { None };
        let b = match make_block_gt(&node, parent.hash, ts, txs, gt).await {
            Ok(b) => b,
            Err(e) => {
                ctx.summary.notes.push(format!("payout scenario: block not built: {}", e));
                break;
            }
        };
        let class = node.add_block(b.clone()).await;
        if class != AddClass::OnChain {
            // not a C08 matter (e.g. the golden-ticket density rule); the chain just ends here
            ctx.summary.count("payout.chain_block_rejected", &format!("{:?}", class));
            break;
        }
        chain.push(b.clone());
        oracle_block_meta(ctx, first_case + produced, &b, &parent, "{\"part\":\"payout\",\"check\":\"block bookkeeping\"}");
        if !b.has_golden_ticket {
            // a ticket-less block must not carry a fee transaction: offer a re-signed clone with a stray one
            if rng.chance(1, 2) {
                let mut c = b.clone();
                let mut t = Transaction::default();
                t.transaction_type = TransactionType::Fee;
                t.timestamp = c.timestamp;
                let mut o = Slip::default();
                o.public_key = keys.v[7].0;
                o.amount = 1000;
                o.slip_type = SlipType::RouterOutput;
                t.add_to_slip(o);
                t.sign(&node.sk);
                c.transactions.push(t);
                reseal(&mut c, &node.sk);
                if let Some(mut n2) = replay_node(&params, &chain[..chain.len() - 1]).await {
                    let cl = add_block_caught(&mut n2, c.clone(), ctx, first_case + produced, "ticket-less block with a stray fee transaction paying 1000 to key#8", "{\"part\":\"payout\",\"check\":\"stray fee transaction in a ticket-less block\"}").await;
                    ctx.summary.count("payout.stray_fee_tx", &format!("{:?}", cl));
                    if cl == AddClass::OnChain {
                        ctx.summary.oracle_failure(
                            first_case + produced,
                            &format!("block {} without a golden ticket but with a fee transaction paying 1000 to key#8 was accepted", c.id),
                            "{\"part\":\"payout\",\"check\":\"stray fee transaction in a ticket-less block\"}",
                        );
                    }
                } else {
                    ctx.summary.oracle_failure(first_case + produced, "vacuity guard: an accepted chain could not be replayed on a fresh node", "{\"part\":\"payout\"}");
                }
            }
            continue;
        }
        // ---------------- an accepted block with a golden ticket: inspect its fee transaction
        let case = first_case + produced;
        let gt_tx = b.transactions.iter().find(|t| t.transaction_type == TransactionType::GoldenTicket).unwrap();
        // layout of GoldenTicket::serialize_for_net: target(32) random(32) public_key(33)
        let _ = GoldenTicket::deserialize_from_net(&gt_tx.data);
        let gt_random: SaitoHash = gt_tx.data[32..64].try_into().unwrap();
        let gt_public_key: SaitoPublicKey = gt_tx.data[64..97].try_into().unwrap();
        let (outputs, n_fee_txs) = fee_outputs(&b, keys);
        let gt_sender: SaitoPublicKey = gt_tx.from.first().map(|x| x.public_key).unwrap_or([0; 33]);
        let prev = &chain[chain.len() - 2];
        let pp = if chain.len() >= 3 { Some(&chain[chain.len() - 3]) } else { None };
        // lottery numbers exactly as generate_consensus_values derives them
        let r1 = hash(gt_random.as_ref());
        let r1b = hash(r1.as_ref());
        let r2 = hash(hash(r1.as_ref()).as_ref());
        let r2b = hash(r2.as_ref());
        // ---- direct oracle: payees and bound
        let mut eligible: BTreeSet<u64> = BTreeSet::new();
        eligible.insert(keys.id(&gt_public_key));
        eligible_of(prev, keys, &mut eligible);
        let mut bound: u128 = collected_fees(prev) as u128;
        let paid_blocks = if !prev.has_golden_ticket && pp.is_some() {
            let ppb = pp.unwrap();
            eligible_of(ppb, keys, &mut eligible);
            let f = collected_fees(ppb) as u128;
            bound += f - f / 2;
            2
        } else {
            1
        };
        let total_out: u128 = outputs.iter().map(|o| o.1 as u128).sum();
        let desc = format!(
            "{{\"part\":\"payout\",\"block_id\":{},\"genesis_period\":{},\"gt_solver_key\":{},\"gt_transaction_sender_key\":{},\"prev_total_fees\":{},\"prev_avg_total_fees\":{},\"prev_has_gt\":{},\"prevprev_total_fees\":{},\"paid_blocks\":{},\"fee_tx_outputs_key_amount_kind\":{:?},\"eligible_keys\":{:?},\"bound\":{}}}",
            b.id, gp, keys.id(&gt_public_key), keys.id(&gt_sender), prev.total_fees, prev.avg_total_fees, prev.has_golden_ticket,
            pp.map(|x| x.total_fees).unwrap_or(0), paid_blocks,
            outputs.iter().map(|o| vec![o.0, o.1, o.2]).collect::<Vec<_>>(),
            eligible.iter().collect::<Vec<_>>(), bound
        );
        oracle_ticket(ctx, case, &b, prev, keys, &desc);
        if n_fee_txs != 1 {
            ctx.summary.oracle_failure(case, &format!("accepted block with golden ticket has {} fee transactions", n_fee_txs), &desc);
        }
        if collected_fees(prev) != prev.total_fees {
            ctx.summary.oracle_failure(
                case,
                &format!("header total_fees {} of the paid block differs from the fees its transactions carry {}", prev.total_fees, collected_fees(prev)),
                &desc,
            );
        }
        for o in &outputs {
            if !eligible.contains(&o.0) || o.0 == 0 {
                ctx.summary.oracle_failure(
                    case,
                    &format!("fee transaction pays {} to key#{} which is neither the golden-ticket solver nor on a routing path (or path-less sender) of the paid block(s)", o.1, o.0),
                    &desc,
                );
            }
            if o.2 == 1 && o.0 != keys.id(&gt_public_key) {
                ctx.summary.oracle_failure(case, &format!("miner output goes to key#{} not the golden-ticket solver", o.0), &desc);
            }
        }
        // the router share for the fees of block N-2 (paid when block N-1 had no ticket) must go to a
        // router of block N-2 — or to the graveyard — never to somebody who only routed for block N-1
        if paid_blocks == 2 {
            let ppb = pp.unwrap();
            let router_outs: Vec<&(u64, u64, u64)> = outputs.iter().filter(|o| o.2 == 2).collect();
            let second: Option<&(u64, u64, u64)> = if router_outs.len() == 2 {
                Some(router_outs[1])
            } else if router_outs.len() == 1 && prev.total_fees == 0 {
                Some(router_outs[0])
            } else {
                None
            };
            if let Some(o) = second {
                let mut elig_pp: BTreeSet<u64> = BTreeSet::new();
                eligible_of(ppb, keys, &mut elig_pp);
                let drawn = catch_unwind(AssertUnwindSafe(|| ppb.find_winning_router(r2))).map(|k| keys.id(&k)).unwrap_or(999);
                ctx.summary.count("payout.router2_checked", if elig_pp.contains(&o.0) { "on-path-of-N-2" } else { "NOT-on-path-of-N-2" });
                if !elig_pp.contains(&o.0) {
                    let mut elig_prev: BTreeSet<u64> = BTreeSet::new();
                    eligible_of(prev, keys, &mut elig_prev);
                    ctx.summary.oracle_failure(
                        case,
                        &format!(
                            "the router share {} for the fees of block {} (N-2) goes to key#{} which is on no routing path of that block (its routers / path-less senders: {:?}; routers of block {} (N-1): {:?}; block N-2's own lottery draws key#{})",
                            o.1, ppb.id, o.0, elig_pp, prev.id, elig_prev, drawn
                        ),
                        &desc,
                    );
                } else if o.0 != drawn {
                    ctx.summary.oracle_failure(
                        case,
                        &format!("the router share {} for the fees of block {} (N-2) goes to key#{} but that block's lottery (find_winning_router with the third hash of the ticket's random) draws key#{}", o.1, ppb.id, o.0, drawn),
                        &desc,
                    );
                }
            }
        }
        if total_out > bound {
            ctx.summary.oracle_failure(
                case,
                &format!("fee transaction pays {} which exceeds the fees collected by the paid block(s) ({})", total_out, bound),
                &desc,
            );
        }
        ctx.summary.count("payout.paid_blocks", &format!("{}", paid_blocks));
        ctx.summary.count("payout.outputs", &format!("{}", outputs.len()));
        ctx.summary.count("payout.capped", if (prev.total_fees / 2) as f64 > prev.avg_total_fees as f64 * 1.5 { "capped" } else { "uncapped" });
        ctx.nontrivial(format!("pay/{}", desc));
        ctx.summary.count("payout.gt_sender", if gt_sender == gt_public_key { "solver" } else { "relay" });
        if outputs.iter().any(|o| o.2 == 1) && gt_sender != gt_public_key {
            ctx.summary.count("payout.miner_paid_with_relay", "yes");
        }
        if paid_blocks == 2 && outputs.len() == 3 {
            ctx.summary.count("payout.router2_paid", if (pp.unwrap().total_fees - pp.unwrap().total_fees / 2) == outputs[2].1 { "uncapped" } else { "capped" });
        }
        // ---- tampered fee transactions (re-signed clones of this honest block) must be rejected
        let mut variants: Vec<String> = vec![format!(
            "({}, {}, true)",
            gal::list(&outputs.iter().map(|o| format!("({}, {}, {})", o.0, o.1, o.2)).collect::<Vec<_>>()),
            n_fee_txs
        )];
        for kind in 0..FEE_TAMPER.len() {
            if !rng.chance(2, 3) {
                continue;
            }
            let c = match tampered_clone(&b, kind, keys, &node.sk, &gt_sender) {
                Some(c) => c,
                None => continue,
            };
            let mut n2 = match replay_node(&params, &chain[..chain.len() - 1]).await {
                Some(n) => n,
                None => {
                    ctx.summary.oracle_failure(case, "vacuity guard: an accepted chain could not be replayed on a fresh node", &desc);
                    break;
                }
            };
            let cl = add_block_caught(&mut n2, c.clone(), ctx, case, &format!("tampered, re-signed fee transaction: {}", FEE_TAMPER[kind]), &desc).await;
            let (couts, cn) = fee_outputs(&c, keys);
            ctx.summary.count("payout.tampered", &format!("{}:{:?}", FEE_TAMPER[kind], cl));
            if cl == AddClass::OnChain {
                ctx.summary.oracle_failure(
                    case,
                    &format!(
                        "block {} with a tampered, re-signed fee transaction ({}) was accepted: {} fee transaction(s) paying (key, amount, kind) {:?} instead of {:?}",
                        c.id, FEE_TAMPER[kind], cn, couts, outputs
                    ),
                    &desc,
                );
            }
            variants.push(format!(
                "({}, {}, {})",
                gal::list(&couts.iter().map(|o| format!("({}, {}, {})", o.0, o.1, o.2)).collect::<Vec<_>>()),
                cn,
                gal::boolean(cl == AddClass::OnChain)
            ));
        }
        // ---- block-level lottery: find_winning_router on the paid block at the boundaries
        let mut sweep: Vec<String> = vec![];
        {
            let mut xs: Vec<u128> = vec![0, 1];
            for t in &prev.transactions {
                let c = t.cumulative_fees as u128;
                xs.extend([c.saturating_sub(1), c, c + 1]);
            }
            let f = prev.total_fees as u128;
            xs.extend([f.saturating_sub(1), f, f + 1, 2 * f + 3]);
            xs.sort();
            xs.dedup();
            let mut hs: Vec<SaitoHash> = xs.iter().map(|x| be32(*x)).collect();
            hs.push(hash(&rng.next().to_be_bytes()));
            hs.push([0xff; 32]);
            let mut elig: BTreeSet<u64> = BTreeSet::new();
            elig.insert(0);
            eligible_of(prev, keys, &mut elig);
            for h in hs {
                let r = catch_unwind(AssertUnwindSafe(|| prev.find_winning_router(h))).map(|pk| keys.id(&pk)).map_err(|e| panic_site(&panic_msg(e)));
                match r {
                    Ok(k) if !elig.contains(&k) => ctx.summary.oracle_failure(
                        case,
                        &format!("find_winning_router({}) on block {} returns key#{} which is not on a path (or a path-less sender) of that block", hex::encode(h), prev.id, k),
                        &desc,
                    ),
                    Err(site) => ctx.summary.oracle_failure(case, &format!("find_winning_router({}) panicked (site {})", hex::encode(h), site), &desc),
                    _ => {}
                }
                sweep.push(format!("({}, {}, {})", u256_dec(&h), u256_dec(&hash(h.as_ref())), obs(r)));
                ctx.summary.count("payout.router_sweep", "points");
            }
        }
        // ---- model case
        let (ptxs, atr1) = abs_block_txs(prev, keys);
        let pp_str = match pp {
            Some(ppb) if !prev.has_golden_ticket => {
                let (pptxs, _) = abs_block_txs(ppb, keys);
                format!("Some ({}, {}, {}, {})", ppb.total_fees, gal::list(&pptxs), u256_dec(&r2), u256_dec(&r2b))
            }
            _ => "None".to_string(),
        };
        let atr2 = pp.map(|p| abs_block_txs(p, keys).1).unwrap_or(false);
        if atr1 || atr2 {
            ctx.summary.notes.push("payout scenario hit an ATR transaction; model case skipped".to_string());
            cases.push("(((0, None), []), ((0, 0, 0, 0), [], []))".to_string());
        } else {
            let outs: Vec<String> = outputs.iter().map(|o| format!("({}, {}, {})", o.0, o.1, o.2)).collect();
            cases.push(format!(
                "((({}, Some (({}, {}, {}), {}, {}, {}, {})), {}), (({}, {}, {}, {}), {}, {}))",
                keys.id(&gt_public_key),
                prev.total_fees,
                prev.avg_total_fees,
                gal::boolean(prev.has_golden_ticket),
                gal::list(&ptxs),
                u256_dec(&r1),
                u256_dec(&r1b),
                pp_str,
                gal::list(&outs),
                b.total_payout_mining,
                b.total_payout_routing,
                b.total_payout_treasury,
                b.total_payout_graveyard,
                gal::list(&variants),
                gal::list(&sweep)
            ));
        }
        if produced == 0 && first_case % 7 == 0 {
            ctx.summary.samples.push(desc.clone());
        }
        ctx.summary.case_descs.push(desc);
        produced += 1;
    }
    produced
}

/// chains longer than 2 * genesis_period + 1 blocks (block 1 purged): the fee transaction of a
/// golden-ticket block must still be checked — tampered re-signed clones must be rejected
async fn run_long_chain_scenario(ctx: &mut Ctx, rng: &mut Rng, keys: &Keys, gp: u64, case: usize) {
    let hb = 100u64;
    let params = Params { genesis_period: gp, heartbeat: hb, ..Params::default() };
    let mut node = Node::new(&params, 1);
    let creator = 0usize;
    let sender = 1usize;
    let g = make_genesis(&node, 9_000_000, &[(keys.v[sender].0, 900_000_000_000u64)]).await.unwrap();
    if node.add_block(g.clone()).await != AddClass::OnChain {
        ctx.summary.oracle_failure(case, "vacuity guard: long-chain scenario: genesis not accepted", "{\"part\":\"long-chain\"}");
        return;
    }
    let mut coin: Slip = outputs_of(&g, 0)[0].clone();
    let mut chain: Vec<Block> = vec![g.clone()];
    let total = 2 * gp + 2 + rng.below(3);
    for bi in 0..total {
        let parent = chain.last().unwrap().clone();
        let ts = parent.timestamp + 2 * hb + rng.range(0, 40);
        // one routed fee transaction per block, spending the change of the previous one
        let fee = rng.range(100_000, 2_000_000);
        let mut tx = make_tx(&[coin.clone()], &[(keys.v[sender].0, coin.amount - fee)], &keys.v[sender].1, ts);
        let mid = 2 + (bi % 2) as usize;
        tx.add_hop(&keys.v[sender].1, &keys.v[sender].0, &keys.v[mid].0);
        tx.add_hop(&keys.v[mid].1, &keys.v[mid].0, &keys.v[creator].0);
        let sig = tx.signature;
        let with_gt = bi % 2 == 1 || bi + 1 == total;
        let gt = if with_gt { Some((&keys.v[4].0, &keys.v[5].0, &keys.v[5].1, case as u64 * 64 + bi)) } else { None };
        let b = match make_block_gt(&node, parent.hash, ts, vec![tx], gt).await {
            Ok(b) => b,
            Err(e) => {
                ctx.summary.count("longchain.block_not_built", &e);
                break;
            }
        };
        let class = node.add_block(b.clone()).await;
        if class != AddClass::OnChain {
            ctx.summary.count("longchain.honest_block_rejected", &format!("gp{}:id{}:{:?}", gp, b.id, class));
            break;
        }
        match b.transactions.iter().find(|t| t.signature == sig) {
            Some(t) => coin = t.to[0].clone(),
            None => break,
        }
        chain.push(b.clone());
        if b.id > 2 * gp + 1 {
            ctx.summary.count("longchain.honest_blocks_beyond_2gp_plus_1", "accepted");
        }
        if !b.has_golden_ticket || b.id <= gp {
            continue;
        }
        let beyond = if b.id > 2 * gp + 1 { "beyond-2gp+1" } else { "within-2gp+1" };
        let (outputs, _) = fee_outputs(&b, keys);
        let gt_tx = b.transactions.iter().find(|t| t.transaction_type == TransactionType::GoldenTicket).unwrap();
        let gt_sender: SaitoPublicKey = gt_tx.from.first().map(|x| x.public_key).unwrap_or([0; 33]);
        let desc = format!(
            "{{\"part\":\"long-chain\",\"genesis_period\":{},\"block_id\":{},\"chain_length\":{},\"honest_fee_tx_outputs_key_amount_kind\":{:?}}}",
            gp, b.id, chain.len(), outputs.iter().map(|o| vec![o.0, o.1, o.2]).collect::<Vec<_>>()
        );
        oracle_ticket(ctx, case, &b, &parent, keys, &desc);
        for kind in 0..FEE_TAMPER.len() {
            let c = match tampered_clone(&b, kind, keys, &node.sk, &gt_sender) {
                Some(c) => c,
                None => continue,
            };
            let mut n2 = match replay_node(&params, &chain[..chain.len() - 1]).await {
                Some(n) => n,
                None => {
                    ctx.summary.oracle_failure(case, "vacuity guard: an accepted long chain could not be replayed on a fresh node", &desc);
                    return;
                }
            };
            let cl = add_block_caught(&mut n2, c.clone(), ctx, case, &format!("long chain, tampered, re-signed fee transaction: {}", FEE_TAMPER[kind]), &desc).await;
            let (couts, cn) = fee_outputs(&c, keys);
            ctx.summary.count("longchain.tampered", &format!("{}:{:?}", beyond, cl));
            if cl == AddClass::OnChain {
                ctx.summary.oracle_failure(
                    case,
                    &format!(
                        "block {} (chain longer than 2*genesis_period+1 = {}: {}) with a tampered, re-signed fee transaction ({}) was accepted: {} fee transaction(s) paying (key, amount, kind) {:?} instead of {:?}",
                        c.id, 2 * gp + 1, b.id > 2 * gp + 1, FEE_TAMPER[kind], cn, couts, outputs
                    ),
                    &desc,
                );
            }
        }
    }
}

async fn part3(ctx: &mut Ctx, rng: &mut Rng) {
    let thorough = ctx.args.tier == "thorough";
    let keys = Keys::new(8);
    // ---------------- gate
    let offset = ctx.next_case();
    let mut cases: Vec<String> = vec![];
    let mut scenarios: Vec<Scenario> = vec![];
    for &hb in &[100u64, 5000] {
        for &dt in &[1u64, 2, hb / 2, hb - 1, hb, hb + 1, 2 * hb - 1, 2 * hb, 2 * hb + 1] {
            for &variant in &[-1i64, 0, 1] {
                for &hops in &[1usize, 2, 3] {
                    if hb == 5000 && hops == 3 && !thorough {
                        continue;
                    }
                    scenarios.push(Scenario { hb, dt, misordered: false, hops, n_tx: 1, variant, path_defect: 0, with_gt: false, pre_dt: None, carrier: 0 });
                }
            }
        }
    }
    // elapsed times at which burn fee / elapsed has a fractional part >= .5 (and some < .5):
    // work = requirement - 1 must be rejected, work = requirement accepted
    for &hb in &[100u64, 5000] {
        let mut up = 0;
        let mut down = 0;
        for dt in 3..(2 * hb) {
            let rem2 = 2 * (50_000_000u64 % dt);
            if rem2 == dt || rem2 == 0 {
                continue;
            }
            let is_up = rem2 > dt;
            if (is_up && up >= 6) || (!is_up && down >= 2) {
                continue;
            }
            if (dt * 7 + hb) % 5 != 0 && dt > 20 {
                continue; // spread over the range
            }
            if is_up { up += 1 } else { down += 1 }
            for &variant in &[-1i64, 0] {
                scenarios.push(Scenario { hb, dt, misordered: false, hops: 1 + (dt % 2) as usize, n_tx: 1, variant, path_defect: 0, with_gt: false, pre_dt: None, carrier: 0 });
            }
        }
    }
    // the same with a parent whose burn fee is not the default (an extra block in between)
    for &(pd, dt) in &[(50u64, 7u64), (50, 33), (120, 13), (180, 101), (30, 3), (75, 57), (150, 19), (199, 171)] {
        for &variant in &[-1i64, 0] {
            scenarios.push(Scenario { hb: 100, dt, misordered: false, hops: 1, n_tx: 1, variant, path_defect: 0, with_gt: false, pre_dt: Some(pd), carrier: 0 });
        }
    }
    // the routing work comes from a NON-Normal fee-paying transaction (the golden-ticket transaction
    // itself, a BlockStake transaction): valid path = control (accepted), forged hop / self-hop rejected
    for &carrier in &[1u8, 2] {
        for &defect in &[0u8, 1, 2] {
            for &(dt, hops) in &[(50u64, 1usize), (100, 2), (150, 1), (10, 2)] {
                scenarios.push(Scenario { hb: 100, dt, misordered: false, hops, n_tx: 1, variant: 0, path_defect: defect, with_gt: false, pre_dt: None, carrier });
                scenarios.push(Scenario { hb: 100, dt, misordered: false, hops, n_tx: 2, variant: 7, path_defect: defect, with_gt: carrier == 2, pre_dt: None, carrier });
            }
        }
    }
    // equal / misordered timestamps: the sentinel
    scenarios.push(Scenario { hb: 100, dt: 0, misordered: false, hops: 1, n_tx: 1, variant: 0, path_defect: 0, with_gt: false, pre_dt: None, carrier: 0 });
    scenarios.push(Scenario { hb: 100, dt: 0, misordered: true, hops: 1, n_tx: 1, variant: 0, path_defect: 0, with_gt: false, pre_dt: None, carrier: 0 });
    // path defects: forged / self-hop count as work on this tree; misdirected / broken do not
    for &defect in &[1u8, 2, 3, 4] {
        for &dt in &[10u64, 100, 150] {
            for &hops in &[1usize, 2] {
                scenarios.push(Scenario { hb: 100, dt, misordered: false, hops, n_tx: 1, variant: 0, path_defect: defect, with_gt: false, pre_dt: None, carrier: 0 });
                scenarios.push(Scenario { hb: 100, dt, misordered: false, hops, n_tx: 2, variant: 5, path_defect: defect, with_gt: false, pre_dt: None, carrier: 0 });
            }
        }
    }
    let n_rand = if thorough { 600 } else { 80 };
    for _ in 0..n_rand {
        let hb = *rng.pick(&[100u64, 100, 1000, 5000]);
        let dt = rng.range(1, 2 * hb + 2);
        scenarios.push(Scenario {
            hb,
            dt,
            misordered: false,
            hops: rng.range(1, 4) as usize,
            n_tx: rng.range(1, 3) as usize,
            variant: *rng.pick(&[-1000i64, -1, -1, 0, 0, 1, 2, 1000]),
            path_defect: if rng.chance(1, 8) { rng.range(1, 4) as u8 } else { 0 },
            with_gt: rng.chance(1, 3),
            pre_dt: if rng.chance(1, 4) { Some(rng.range(20, 199)) } else { None },
            carrier: 0,
        });
    }
    for (i, sc) in scenarios.iter().enumerate() {
        let case = offset + i;
        let before = ctx.summary.case_descs.len();
        run_gate_scenario(ctx, rng, sc, &keys, &mut cases, case).await;
        assert_eq!(ctx.summary.case_descs.len(), before + 1);
    }
    require_min(ctx, offset, "gate.result", "OnChain", 60);
    require_min(ctx, offset, "gate.result", "Invalid", 60);
    require_min(ctx, offset, "gate.requirement_fraction", ">=.5", 30);
    require_min(ctx, offset, "gate.requirement_fraction", "<.5", 30);
    require_min(ctx, offset, "gate.variant", "-1", 40);
    require_min(ctx, offset, "gate.variant", "+0", 40);
    for c in ["GoldenTicket", "BlockStake"] {
        require_min(ctx, offset, "gate.non_normal_carrier", &format!("{}:valid-path:OnChain", c), 6);
        require_min(ctx, offset, "gate.non_normal_carrier", &format!("{}:invalid-path:Invalid", c), 12);
    }
    let header = format!(
        "From Saito Require Import Base BurnFee Routing.\nDefinition DBG : bool := {}.\nDefinition mk_tx (t : option N * N * list (N * N * bool)) : rtx :=\n  let '(f0, fees, p) := t in mkRtx f0 fees (map (fun h => mkHop (fst (fst h)) (snd (fst h)) (snd h)) p).\nDefinition check (c : (N * list (option N * N * list (N * N * bool)) * N * N * N * N) * (N * bool * bool)) : bool :=\n  let '((creator, txs, bf, ts, prev, hb), (tw, accepted, strict)) := c in\n  (block_total_work creator (map mk_tx txs) =? tw)\n  && match gate_passes DBG tw bf ts prev hb with\n     | Ok g => if strict then Bool.eqb g accepted else implb accepted g\n     | _ => negb accepted\n     end.",
        gal::boolean(ctx.dbg)
    );
    let dir = format!("{}/cases", ctx.args.out);
    let files = write_shards_off(
        &dir,
        "gate",
        &header,
        "(N * list (option N * N * list (N * N * bool)) * N * N * N * N) * (N * bool * bool)",
        &cases,
        ctx.args.shards,
        offset,
    );
    ctx.files.extend(files);

    // ---------------- payouts
    let offset = ctx.next_case();
    let mut cases: Vec<String> = vec![];
    let n_chains = if thorough { 500 } else { 70 };
    for _ in 0..n_chains {
        let first = offset + cases.len();
        let produced = run_payout_scenario(ctx, rng, &keys, &mut cases, first).await;
        assert_eq!(offset + cases.len(), first + produced);
        assert_eq!(ctx.summary.case_descs.len(), offset + cases.len());
    }
    require_min(ctx, offset, "payout.gt_sender", "relay", 20);
    require_min(ctx, offset, "payout.miner_paid_with_relay", "yes", 15);
    require_min(ctx, offset, "payout.paid_blocks", "2", 20);
    require_min(ctx, offset, "payout.router2_paid", "uncapped", 5);
    require_min(ctx, offset, "payout.router2_checked", "on-path-of-N-2", 15);
    require_min(ctx, offset, "payout.capped", "capped", 15);
    require_min(ctx, offset, "payout.capped", "uncapped", 15);
    require_min(ctx, offset, "payout.stray_fee_tx", "Invalid", 15);
    require_min(ctx, offset, "payout.router_sweep", "points", 500);
    for k in FEE_TAMPER.iter() {
        require_min(ctx, offset, "payout.tampered", &format!("{}:Invalid", k), 15);
    }
    let header = format!(
        "From Saito Require Import Base BurnFee Routing.\nDefinition DBG : bool := {}.\n{}",
        gal::boolean(ctx.dbg),
        r#"Definition T := (option N * N * list (N * N * bool))%type.
Definition mk_tx (t : T) : rtx :=
  let '(f0, fees, p) := t in mkRtx f0 fees (map (fun h => mkHop (fst (fst h)) (snd (fst h)) (snd h)) p).
Definition mk_btx (c : N * T) : btx := mkBtx (fst c) false None (mk_tx (snd c)).
Definition eqb_slip (a b : N * N * N) : bool :=
  (fst (fst a) =? fst (fst b)) && (snd (fst a) =? snd (fst b)) && (snd a =? snd b).
Definition PREV := ((N * N * bool) * list (N * T) * N * N * option (N * list (N * T) * N * N))%type.
(* the payout the model expects, None if the model's lottery panics *)
Definition model_payout (miner : N) (prev : option PREV) : option payout :=
  match prev with
  | None => Some (payout_with_gt miner None)
  | Some (hd, txs, x, xb, pp) =>
      let '(fees, avg, hasgt) := hd in
      match find_winning_router DBG fees (map mk_btx txs) x xb with
      | Ok r1 =>
          let ppr := match pp with
                     | None => Some None
                     | Some (ppfees, pptxs, y, yb) =>
                         match find_winning_router DBG ppfees (map mk_btx pptxs) y yb with
                         | Ok r2 => Some (Some (ppfees, r2))
                         | _ => None
                         end
                     end in
          match ppr with
          | Some pp' => Some (payout_with_gt miner (Some (mkPrev fees avg hasgt r1 pp')))
          | None => None
          end
      | _ => None
      end
  end.
Definition check (c : ((N * option PREV) * list (N * N * N)) * ((N * N * N * N) * list (list (N * N * N) * N * bool) * list (N * N * N))) : bool :=
  let '(((miner, prev), outs), (hdr, variants, sweep)) := c in
  match model_payout miner prev with
  | None => false
  | Some p =>
      let '(m, r, t, g) := hdr in
      (* the honest block's fee transaction and header payout fields *)
      eqb_list eqb_slip (po_slips p) outs
      && (po_mining p =? m) && (po_routing p =? r) && (po_treasury p =? t) && (po_graveyard p =? g)
      (* a block is accepted only with exactly one fee transaction equal to the expected one *)
      && forallb (fun v => let '(vouts, nfee, accepted) := v in
                           implb accepted ((nfee =? 1) && eqb_list eqb_slip (po_slips p) vouts)) variants
      (* block-level lottery at the boundaries *)
      && match prev with
         | None => true
         | Some (hd, txs, _, _, _) =>
             forallb (fun s => let '(x, x2, e) := s in
                               obs_res (find_winning_router DBG (fst (fst hd)) (map mk_btx txs) x x2) =? e) sweep
         end
  end."#
    );
    let files = write_shards_off(
        &dir,
        "pay",
        &header,
        "((N * option PREV) * list (N * N * N)) * ((N * N * N * N) * list (list (N * N * N) * N * bool) * list (N * N * N))",
        &cases,
        ctx.args.shards,
        offset,
    );
    ctx.files.extend(files);

    // ---------------- long chains: oracle only (cases are attached to the first payout case)
    let reps = if thorough { 5 } else { 1 };
    for _ in 0..reps {
        for gp in [3u64, 4, 5] {
            run_long_chain_scenario(ctx, rng, &keys, gp, offset).await;
        }
    }
    require_min(ctx, offset, "longchain.honest_blocks_beyond_2gp_plus_1", "accepted", 6);
    require_min(ctx, offset, "longchain.tampered", "beyond-2gp+1:Invalid", 15);
    require_min(ctx, offset, "longchain.tampered", "within-2gp+1:Invalid", 5);
}

// ------------------------------------------------------------------ part 4: whose golden ticket is it

/// leading zeros of the solution hash of (target, random, key) — what GoldenTicket::validate compares
fn solution_lz(target: &SaitoHash, random: &SaitoHash, pk: &SaitoPublicKey) -> u32 {
    let h = hash(&GoldenTicket::create(*target, *random, *pk).serialize_for_net());
    let mut lz = 0u32;
    for b in h.iter() {
        if *b == 0 {
            lz += 8;
        } else {
            lz += b.leading_zeros();
            break;
        }
    }
    lz
}

/// block on `parent_hash` carrying exactly the given (already built) golden-ticket transaction
async fn make_block_with_gttx(
    node: &Node,
    parent_hash: SaitoHash,
    timestamp: u64,
    txs: Vec<Transaction>,
    mut gttx: Transaction,
) -> Result<Block, String> {
    let mut map = fixed_tx_map();
    for mut tx in txs {
        tx.generate(&node.pk, 0, 0);
        map.insert(tx.signature, tx);
    }
    gttx.generate(&node.pk, 0, 0);
    let mut block = Block::create(&mut map, parent_hash, &node.blockchain, timestamp, &node.pk, &node.sk, Some(gttx), &node.cfg, &node.storage)
        .await
        .map_err(|e| format!("Block::create failed: {:?}", e))?;
    block.generate().map_err(|e| format!("generate failed: {:?}", e))?;
    block.sign(&node.sk);
    block.generate().map_err(|e| format!("generate failed: {:?}", e))?;
    Ok(block)
}

/// (target, random, key) of the golden ticket a block carries (layout of serialize_for_net)
fn ticket_of(b: &Block) -> Option<(SaitoHash, SaitoHash, SaitoPublicKey)> {
    let t = b.transactions.iter().find(|t| t.transaction_type == TransactionType::GoldenTicket)?;
    if t.data.len() != 97 {
        return None;
    }
    Some((t.data[0..32].try_into().unwrap(), t.data[32..64].try_into().unwrap(), t.data[64..97].try_into().unwrap()))
}

/// direct oracle for an ACCEPTED block with a golden ticket: the ticket must solve the PARENT's
/// hash at the parent's difficulty and the miner output must go to the ticket's key
fn oracle_ticket(ctx: &mut Ctx, case: usize, b: &Block, parent: &Block, keys: &Keys, desc: &str) {
    let (target, random, pk) = match ticket_of(b) {
        Some(x) => x,
        None => return,
    };
    let lz = solution_lz(&parent.hash, &random, &pk);
    if (lz as u64) < parent.difficulty {
        let miner_paid: u64 = b
            .transactions
            .iter()
            .filter(|t| t.transaction_type == TransactionType::Fee)
            .flat_map(|t| t.to.iter())
            .filter(|s| s.slip_type == SlipType::MinerOutput)
            .map(|s| s.amount)
            .sum();
        ctx.summary.oracle_failure(
            case,
            &format!(
                "accepted block {} carries a golden ticket that does not solve its parent's lottery (solution has {} leading zeros against the parent hash, parent difficulty {}; ticket target {} the parent hash); the miner output pays {} to key#{}",
                b.id, lz, parent.difficulty, if target == parent.hash { "is" } else { "is NOT" }, miner_paid, keys.id(&pk)
            ),
            desc,
        );
    }
    for t in b.transactions.iter().filter(|t| t.transaction_type == TransactionType::Fee) {
        for s in t.to.iter().filter(|s| s.slip_type == SlipType::MinerOutput) {
            if s.public_key != pk {
                ctx.summary.oracle_failure(
                    case,
                    &format!("miner output of block {} goes to key#{} but the golden ticket names key#{}", b.id, keys.id(&s.public_key), keys.id(&pk)),
                    desc,
                );
            }
        }
    }
}

const GT_KINDS: [&str; 10] = [
    "for-parent",
    "for-grandparent",
    "for-sibling-fork-block",
    "for-random-hash",
    "for-parent-below-difficulty",
    "foreign-target-field-but-solves-parent",
    "for-parent-exactly-at-difficulty",
    "for-parent-one-leading-zero-short",
    "zero-key-ticket",
    "unpaid-carry-over-with-ticket",
];
/// kinds whose candidate must be accepted
const GT_ACCEPT: [usize; 3] = [0, 5, 6];

async fn run_ticket_scenario(ctx: &mut Ctx, rng: &mut Rng, keys: &Keys, kind: usize, n_gt: usize, cases: &mut Vec<String>, case: usize) {
    let hb = 100u64;
    let params = Params { genesis_period: 100, heartbeat: hb, ..Params::default() };
    let mut node = Node::new(&params, 1);
    let creator = 0usize;
    let sender = 1usize;
    let fail = |ctx: &mut Ctx, cases: &mut Vec<String>, why: String| {
        ctx.summary.oracle_failure(
            case,
            &format!("vacuity guard: golden-ticket scenario {} (chain of {} ticket blocks) could not be built: {}", GT_KINDS[kind], n_gt, why),
            "{\"part\":\"ticket\",\"setup\":\"failed\"}",
        );
        cases.push("((0, 0), 1, 0, true, 0, [])".to_string());
        ctx.summary.case_descs.push("{\"part\":\"ticket\",\"setup\":\"failed\"}".to_string());
    };
    let iss: Vec<(SaitoPublicKey, u64)> = (0..4).map(|_| (keys.v[sender].0, 400_000_000_000u64)).collect();
    let g = make_genesis(&node, 2_000_000, &iss).await.unwrap();
    if node.add_block(g.clone()).await != AddClass::OnChain {
        return fail(ctx, cases, "genesis".to_string());
    }
    let mut purse = Purse { slips: (0..4).map(|i| outputs_of(&g, i)[0].clone()).collect(), next: 0 };
    // n_gt - 1 consecutive golden-ticket blocks: the difficulty climbs by one per block
    let mut tip = g.clone();
    for i in 0..n_gt - 1 {
        let ts = tip.timestamp + 2 * hb + 10 + rng.below(40);
        let b = match make_block(&node, tip.hash, ts, vec![], true, case as u64 * 64 + i as u64).await {
            Ok(b) => b,
            Err(e) => return fail(ctx, cases, e),
        };
        if node.add_block(b.clone()).await != AddClass::OnChain {
            return fail(ctx, cases, format!("chain block {} rejected", b.id));
        }
        oracle_block_meta(ctx, case, &b, &tip, "{\"part\":\"ticket\",\"check\":\"block bookkeeping\"}");
        tip = b;
    }
    let grandparent = tip.clone();
    // sibling fork block F (built, never offered) and the parent P (golden ticket + fees), both on the grandparent
    let sibling = match make_block(&node, grandparent.hash, grandparent.timestamp + 2 * hb + 77, vec![], true, case as u64 * 64 + 50).await {
        Ok(b) => b,
        Err(e) => return fail(ctx, cases, e),
    };
    let ts_p = grandparent.timestamp + 2 * hb + 20;
    let fee_tx = routed_tx(keys, &mut purse, sender, 10_000_000 + rng.below(1000), &[creator], ts_p);
    let parent = match make_block(&node, grandparent.hash, ts_p, vec![fee_tx], true, case as u64 * 64 + 51).await {
        Ok(b) => b,
        Err(e) => return fail(ctx, cases, e),
    };
    if node.add_block(parent.clone()).await != AddClass::OnChain {
        return fail(ctx, cases, "parent rejected".to_string());
    }
    let d = parent.difficulty;
    // the key the solution names, and the relay that sends the golden-ticket transaction
    let miner_pk: SaitoPublicKey = if kind == 8 { [0; 33] } else { keys.v[4].0 };
    let (relay_pk, relay_sk) = if kind == 8 || case % 2 == 1 { keys.v[5] } else { keys.v[4] };
    let random_target = hash(&rng.next().to_be_bytes());
    let target: SaitoHash = match kind {
        1 | 5 => grandparent.hash,
        2 => sibling.hash,
        3 => random_target,
        _ => parent.hash,
    };
    // search the ticket's random
    let mut random = hash(&(case as u64 ^ rng.next()).to_be_bytes());
    let mut found = false;
    for _ in 0..200_000 {
        let lz_target = solution_lz(&target, &random, &miner_pk) as u64;
        let lz_parent = solution_lz(&parent.hash, &random, &miner_pk) as u64;
        let ok = match kind {
            0 => lz_parent >= d,
            // internally consistent tickets (they solve *their* target at the parent's difficulty) that do not solve the parent
            1 | 2 | 3 => lz_target >= d && lz_parent < d,
            4 => lz_parent < d,
            6 => lz_parent == d,
            7 => lz_parent + 1 == d,
            _ => lz_parent >= d,
        };
        if ok {
            found = true;
            break;
        }
        random = hash(&random);
    }
    if !found {
        return fail(ctx, cases, format!("no ticket found for kind {} at difficulty {}", kind, d));
    }
    let ticket = GoldenTicket::create(target, random, miner_pk);
    let gttx = Wallet::create_golden_ticket_transaction(ticket, &relay_pk, &relay_sk).await;
    let ts_c = parent.timestamp + 2 * hb + 5 + rng.below(30);
    let mut cand = match make_block_with_gttx(&node, parent.hash, ts_c, vec![], gttx).await {
        Ok(b) => b,
        Err(e) => return fail(ctx, cases, e),
    };
    if kind == 9 {
        // a block with a golden ticket that still claims the parent's fees as unpaid (re-signed)
        cand.previous_block_unpaid = parent.total_fees;
        reseal(&mut cand, &node.sk);
    }
    let unpaid = cand.previous_block_unpaid;
    let class = node.add_block(cand.clone()).await;
    let accepted = class == AddClass::OnChain;
    let lz_parent = solution_lz(&parent.hash, &random, &miner_pk) as u64;
    let lz_target = solution_lz(&target, &random, &miner_pk) as u64;
    let miner_outputs: Vec<(u64, u64)> = cand
        .transactions
        .iter()
        .filter(|t| t.transaction_type == TransactionType::Fee)
        .flat_map(|t| t.to.iter())
        .filter(|s| s.slip_type == SlipType::MinerOutput)
        .map(|s| (keys.id(&s.public_key), s.amount))
        .collect();
    let desc = format!(
        "{{\"part\":\"ticket\",\"kind\":{},\"parent_id\":{},\"parent_difficulty\":{},\"parent_total_fees\":{},\"ticket_target_is_parent\":{},\"solution_leading_zeros_vs_ticket_target\":{},\"solution_leading_zeros_vs_parent_hash\":{},\"ticket_key\":{},\"gt_transaction_sender_key\":{},\"previous_block_unpaid\":{},\"miner_outputs_key_amount\":{:?},\"add_block\":{}}}",
        jstr(GT_KINDS[kind]), parent.id, d, parent.total_fees, target == parent.hash, lz_target, lz_parent, keys.id(&miner_pk), keys.id(&relay_pk), unpaid,
        miner_outputs.iter().map(|o| vec![o.0, o.1]).collect::<Vec<_>>(), jstr(&format!("{:?}", class))
    );
    if accepted {
        oracle_ticket(ctx, case, &cand, &parent, keys, &desc);
        if keys.id(&miner_pk) == 0 {
            ctx.summary.oracle_failure(case, "accepted block whose golden ticket names the all-zero key: the miner share of the parent's fees is paid to nobody", &desc);
        }
        if unpaid != 0 {
            ctx.summary.oracle_failure(case, &format!("accepted block with a golden ticket that still carries previous_block_unpaid = {}", unpaid), &desc);
        }
    } else if GT_ACCEPT.contains(&kind) && class != AddClass::Panicked {
        ctx.summary.oracle_failure(
            case,
            &format!("block whose golden ticket solves the parent's lottery ({} leading zeros, difficulty {}) was not accepted ({:?})", lz_parent, d, class),
            &desc,
        );
    }
    ctx.summary.count("ticket.kind", GT_KINDS[kind]);
    ctx.summary.count("ticket.difficulty", &format!("{}", d));
    ctx.summary.count("ticket.result", &format!("{}:{:?}", GT_KINDS[kind], class));
    ctx.nontrivial(format!("ticket/{}", desc));
    cases.push(format!(
        "(({}, {}), {}, {}, {}, {}, {})",
        lz_parent,
        d,
        keys.id(&miner_pk),
        unpaid,
        gal::boolean(accepted),
        keys.id(&miner_pk),
        gal::nlist(&miner_outputs.iter().map(|o| o.0).collect::<Vec<_>>())
    ));
    if kind <= 1 && n_gt == 8 {
        ctx.summary.samples.push(desc.clone());
    }
    ctx.summary.case_descs.push(desc);
}

async fn part4(ctx: &mut Ctx, rng: &mut Rng) {
    let thorough = ctx.args.tier == "thorough";
    let keys = Keys::new(6);
    let offset = ctx.next_case();
    let mut cases: Vec<String> = vec![];
    let reps = if thorough { 8 } else { 2 };
    for _ in 0..reps {
        for n_gt in [5usize, 6, 7, 8, 9] {
            for kind in 0..GT_KINDS.len() {
                let case = offset + cases.len();
                let before = ctx.summary.case_descs.len();
                run_ticket_scenario(ctx, rng, &keys, kind, n_gt, &mut cases, case).await;
                assert_eq!(ctx.summary.case_descs.len(), before + 1);
            }
        }
    }
    // vacuity guards: every kind reached add_block, with the verdict it must have on an honest tree,
    // at difficulties high enough to tell a solution from a non-solution
    for (k, name) in GT_KINDS.iter().enumerate() {
        let want = if GT_ACCEPT.contains(&k) { "OnChain" } else { "Invalid" };
        require_min(ctx, offset, "ticket.result", &format!("{}:{}", name, want), reps as u64 * 4);
    }
    for dd in [4u64, 6, 8] {
        require_min(ctx, offset, "ticket.difficulty", &format!("{}", dd), 4);
    }
    let header = "From Saito Require Import Base BurnFee Routing.\nDefinition check (c : (N * N) * N * N * bool * N * list N) : bool :=\n  let '((lz, d), key, unpaid, accepted, miner, miner_outs) := c in\n  Bool.eqb (golden_ticket_section_ok key unpaid lz d) accepted && forallb (fun k => k =? miner) miner_outs.".to_string();
    let dir = format!("{}/cases", ctx.args.out);
    let files = write_shards_off(&dir, "ticket", &header, "(N * N) * N * N * bool * N * list N", &cases, 4, offset);
    ctx.files.extend(files);
}

fn main() {
    let args = Args::parse();
    verif_harness::common::init_log();
    if std::env::var("C08_VERBOSE_PANICS").is_err() {
        std::panic::set_hook(Box::new(|_| {}));
    }
    let mut rng = Rng::new(args.seed);
    let dbg = overflow_checks_on();
    let mut ctx = Ctx { args, dbg, summary: Summary::new("C08"), files: vec![], distinct: BTreeSet::new() };
    ctx.summary.notes.push(format!("overflow checks compiled in: {}", dbg));
    let only = std::env::var("C08_ONLY").unwrap_or_default();
    if only.is_empty() || only.contains('1') {
        part1(&mut ctx, &mut rng.fork());
    }
    if only.is_empty() || only.contains('2') {
        part2(&mut ctx, &mut rng.fork());
    }
    if only.is_empty() || only.contains('5') {
        part2b(&mut ctx, &mut rng.fork());
    }
    if only.is_empty() || only.contains('3') {
        let rt = tokio::runtime::Builder::new_current_thread().enable_all().build().unwrap();
        let mut r3 = rng.fork();
        rt.block_on(part3(&mut ctx, &mut r3));
    }
    if only.is_empty() || only.contains('4') {
        let rt = tokio::runtime::Builder::new_current_thread().enable_all().build().unwrap();
        let mut r4 = rng.fork();
        rt.block_on(part4(&mut ctx, &mut r4));
    }
    ctx.summary.evaluations = ctx.summary.case_descs.len() as u64;
    ctx.summary.case_files = ctx.files.clone();
    let out = ctx.args.out.clone();
    ctx.summary.write(&out);
    println!(
        "C08: {} cases, {} non-trivial, {} oracle failures, {} known hits, {} case files",
        ctx.summary.evaluations,
        ctx.summary.nontrivial,
        ctx.summary.oracle_failures.len(),
        ctx.summary.known_hits.len(),
        ctx.files.len()
    );
}
