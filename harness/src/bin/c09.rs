//! C09 — wire and disk formats round-trip and preserve identity.
//! Generates structured values of every format, runs the real encoder /
//! decoder / size function (and hash + signature verification for
//! transactions and blocks, and the Storage disk trip for blocks), evaluates
//! the property directly on the implementation (oracle) and writes Coq cases
//! `(abstract value, real bytes)` checked against coq/model/Codec.v:
//! `encode_model v = bytes && decode_model bytes = Ok v && wf v`.
use std::collections::BTreeSet;
use std::collections::HashMap;
use std::panic::{catch_unwind, AssertUnwindSafe};
use std::sync::{Arc, Mutex};

use async_trait::async_trait;
use saito_core::core::consensus::block::{Block, BlockType};
use saito_core::core::consensus::golden_ticket::GoldenTicket;
use saito_core::core::consensus::hop::Hop;
use saito_core::core::consensus::peers::peer_service::PeerService;
use saito_core::core::consensus::slip::Slip;
use saito_core::core::consensus::transaction::{Transaction, TransactionType};
use saito_core::core::consensus::wallet::Wallet;
use saito_core::core::defs::{BlockId, PeerIndex, SaitoHash};
use saito_core::core::io::interface_io::{InterfaceEvent, InterfaceIO};
use saito_core::core::io::storage::Storage;
use saito_core::core::msg::api_message::ApiMessage;
use saito_core::core::msg::block_request::BlockchainRequest;
use saito_core::core::msg::ghost_chain_sync::GhostChainSync;
use saito_core::core::msg::handshake::{HandshakeChallenge, HandshakeResponse};
use saito_core::core::msg::message::Message;
use saito_core::core::process::version::Version;
use saito_core::core::util::crypto::{hash, verify_signature};
#[allow(unused_imports)]
use saito_core::core::defs::PrintForLog;
use saito_core::core::util::serialize::Serialize;
use verif_harness::common::{jstr, Args, Summary};
use verif_harness::gal;
use verif_harness::rng::Rng;

#[path = "../codec_gen.rs"]
mod codec_gen;
use codec_gen::*;

// ---------------------------------------------------------------- in-memory disk
#[derive(Debug, Clone, Default)]
struct MemIO {
    files: Arc<Mutex<HashMap<String, Vec<u8>>>>,
}
#[async_trait]
impl InterfaceIO for MemIO {
    async fn send_message(&self, _p: u64, _b: &[u8]) -> Result<(), std::io::Error> {
        Ok(())
    }
    async fn send_message_to_all(&self, _b: &[u8], _e: Vec<u64>) -> Result<(), std::io::Error> {
        Ok(())
    }
    async fn connect_to_peer(&mut self, _u: String, _p: PeerIndex) -> Result<(), std::io::Error> {
        Ok(())
    }
    async fn disconnect_from_peer(&self, _p: u64) -> Result<(), std::io::Error> {
        Ok(())
    }
    async fn fetch_block_from_peer(&self, _h: SaitoHash, _p: u64, _u: &str, _i: BlockId) -> Result<(), std::io::Error> {
        Ok(())
    }
    async fn write_value(&self, key: &str, value: &[u8]) -> Result<(), std::io::Error> {
        self.files.lock().unwrap().insert(key.to_string(), value.to_vec());
        Ok(())
    }
    async fn append_value(&mut self, key: &str, value: &[u8]) -> Result<(), std::io::Error> {
        self.files.lock().unwrap().entry(key.to_string()).or_default().extend_from_slice(value);
        Ok(())
    }
    async fn flush_data(&mut self, _k: &str) -> Result<(), std::io::Error> {
        Ok(())
    }
    async fn read_value(&self, key: &str) -> Result<Vec<u8>, std::io::Error> {
        self.files
            .lock()
            .unwrap()
            .get(key)
            .cloned()
            .ok_or(std::io::Error::from(std::io::ErrorKind::NotFound))
    }
    async fn load_block_file_list(&self) -> Result<Vec<String>, std::io::Error> {
        Ok(self.files.lock().unwrap().keys().cloned().collect())
    }
    async fn is_existing_file(&self, key: &str) -> bool {
        self.files.lock().unwrap().contains_key(key)
    }
    async fn remove_value(&self, key: &str) -> Result<(), std::io::Error> {
        self.files.lock().unwrap().remove(key);
        Ok(())
    }
    fn get_block_dir(&self) -> String {
        "mem/blocks/".to_string()
    }
    fn get_checkpoint_dir(&self) -> String {
        "mem/checkpoints/".to_string()
    }
    fn ensure_block_directory_exists(&self, _d: &str) -> Result<(), std::io::Error> {
        Ok(())
    }
    async fn process_api_call(&self, _b: Vec<u8>, _m: u32, _p: PeerIndex) {}
    async fn process_api_success(&self, _b: Vec<u8>, _m: u32, _p: PeerIndex) {}
    async fn process_api_error(&self, _b: Vec<u8>, _m: u32, _p: PeerIndex) {}
    fn send_interface_event(&self, _e: InterfaceEvent) {}
    async fn save_wallet(&self, _w: &mut Wallet) -> Result<(), std::io::Error> {
        Ok(())
    }
    async fn load_wallet(&self, _w: &mut Wallet) -> Result<(), std::io::Error> {
        Ok(())
    }
    fn get_my_services(&self) -> Vec<PeerService> {
        vec![]
    }
}

// ---------------------------------------------------------------- case collection
struct Ctx {
    summary: Summary,
    coq: Vec<String>,
    distinct: BTreeSet<Vec<u8>>,
    bytes_total: usize,
}
impl Ctx {
    /// one case: `kase` is the Gallina constructor application, `fails` the oracle failures
    fn push(&mut self, fmt: &str, kase: String, bytes: &[u8], detail: String, fails: Vec<String>) {
        let i = self.coq.len();
        self.summary.count("format", fmt);
        self.summary.count("len", &format!("{}", bucket(bytes.len())));
        let hexs = if bytes.len() <= 400 { hex::encode(bytes) } else { format!("{}..({} bytes)", hex::encode(&bytes[..200]), bytes.len()) };
        let desc = format!(
            "{{\"case\":{},\"format\":{},\"detail\":{},\"bytes\":{}}}",
            i,
            jstr(fmt),
            jstr(&detail),
            jstr(&hexs)
        );
        for f in fails {
            self.summary.oracle_failure(i, &format!("{}: {}", fmt, f), &desc);
        }
        // non-trivial: a value with at least one non-zero byte on the wire, distinct by bytes
        if bytes.iter().any(|b| *b != 0) {
            let mut key = fmt.as_bytes().to_vec();
            key.extend_from_slice(bytes);
            if self.distinct.insert(key) {
                self.summary.nontrivial += 1;
            }
        }
        if self.summary.samples.len() < 6 && bytes.len() < 200 && i % 7 == 0 {
            self.summary.samples.push(desc.clone());
        }
        self.bytes_total += kase.len();
        self.summary.case_descs.push(desc);
        self.coq.push(kase);
    }
}
fn bucket(n: usize) -> usize {
    match n {
        0..=99 => (n / 10) * 10,
        100..=999 => (n / 100) * 100,
        _ => (n / 1000) * 1000,
    }
}

fn guarded<T>(what: &str, fails: &mut Vec<String>, f: impl FnOnce() -> T) -> Option<T> {
    match catch_unwind(AssertUnwindSafe(f)) {
        Ok(v) => Some(v),
        Err(e) => {
            fails.push(format!("{} panicked: {}", what, panic_message(e)));
            None
        }
    }
}

// ---------------------------------------------------------------- per-format cases

fn case_slip(ctx: &mut Ctx, s: &Slip) {
    let mut fails = vec![];
    let bytes = guarded("Slip::serialize_for_net", &mut fails, || s.serialize_for_net()).unwrap_or_default();
    if bytes.len() != 59 {
        fails.push(format!("encoded length {} != SLIP_SIZE", bytes.len()));
    }
    match guarded("Slip::deserialize_from_net", &mut fails, || Slip::deserialize_from_net(&bytes)) {
        Some(Ok(d)) => {
            if !slip_eq(&d, s) {
                fails.push("decoded slip differs from the original".into());
            }
            if d.serialize_for_net() != bytes {
                fails.push("re-encoding differs".into());
            }
        }
        Some(Err(_)) => fails.push("decoder rejected the encoder's output".into()),
        None => {}
    }
    // UTXO-set key: get_utxoset_key / parse_slip_from_utxokey
    let key = s.get_utxoset_key();
    match guarded("Slip::parse_slip_from_utxokey", &mut fails, || Slip::parse_slip_from_utxokey(&key)) {
        Some(Ok(d)) => {
            if !slip_eq(&d, s) {
                fails.push("slip parsed back from its utxoset key differs".into());
            }
            if d.get_utxoset_key() != key || d.utxoset_key != key || !d.is_utxoset_key_set {
                fails.push("utxoset key differs after parse".into());
            }
        }
        Some(Err(_)) => fails.push("parse_slip_from_utxokey rejected a generated key".into()),
        None => {}
    }
    let sig_in = s.serialize_input_for_signature();
    let sig_out = s.serialize_output_for_signature();
    if sig_in != sig_out {
        fails.push("input and output signature serialisations differ".into());
    }
    ctx.push(
        "slip",
        format!("KSlip {} {} {} {}", g_slip(s), g_bytes(&bytes), g_bytes(&key), g_bytes(&sig_in)),
        &bytes,
        format!("type={:?} idx={}", s.slip_type, s.slip_index),
        fails,
    );
}

fn case_hop(ctx: &mut Ctx, h: &Hop) {
    let mut fails = vec![];
    let bytes = h.serialize_for_net();
    if bytes.len() != 130 {
        fails.push(format!("encoded length {} != HOP_SIZE", bytes.len()));
    }
    match guarded("Hop::deserialize_from_net", &mut fails, || Hop::deserialize_from_net(&bytes)) {
        Some(Ok(d)) => {
            if !hop_eq(&d, h) {
                fails.push("decoded hop differs".into());
            }
            if d.serialize_for_net() != bytes {
                fails.push("re-encoding differs".into());
            }
        }
        Some(Err(_)) => fails.push("decoder rejected the encoder's output".into()),
        None => {}
    }
    ctx.push("hop", format!("KHop {} {}", g_hop(h), g_bytes(&bytes)), &bytes, String::new(), fails);
}

/// `signer`: Some(pk) when the transaction was really signed
fn case_tx(ctx: &mut Ctx, t: &Transaction, signer: Option<[u8; 33]>, kind: &str) {
    let mut fails = vec![];
    let bytes = guarded("Transaction::serialize_for_net", &mut fails, || t.serialize_for_net()).unwrap_or_default();
    let size = t.get_serialized_size();
    if bytes.len() != size {
        fails.push(format!("get_serialized_size {} != encoded length {}", size, bytes.len()));
    }
    let mut before = t.clone();
    // the hash must depend on wire fields only: junk in every cached field of the original
    before.total_in = 0x1111_2222_3333_4444;
    before.total_out = 0x2222_3333_4444_5555;
    before.total_fees = 0x3333_4444_5555_6666;
    before.total_work_for_me = 0x4444_5555_6666_7777;
    before.cumulative_fees = 0x5555_6666_7777_8888;
    before.hash_for_signature = Some([0xEE; 32]);
    for sl in before.from.iter_mut().chain(before.to.iter_mut()) {
        sl.utxoset_key = [0xDD; 59];
        sl.is_utxoset_key_set = true;
    }
    let sig_bytes = before.serialize_for_signature();
    before.generate_hash_for_signature();
    let h0 = before.hash_for_signature.unwrap();
    if t.transaction_type != TransactionType::SPV && h0 != hash(&sig_bytes) {
        fails.push("hash_for_signature is not the hash of serialize_for_signature".into());
    }
    let ok0 = signer.map(|pk| verify_signature(&h0, &t.signature, &pk));
    if ok0 == Some(false) && t.transaction_type != TransactionType::SPV {
        // (an SPV transaction's hash is a slice of its signature, it never verifies)
        fails.push("freshly signed transaction does not verify".into());
    }
    match guarded("Transaction::deserialize_from_net", &mut fails, || Transaction::deserialize_from_net(&bytes)) {
        Some(Ok(mut d)) => {
            if !tx_eq(&d, t) {
                fails.push("decoded transaction differs from the original".into());
            }
            if d.serialize_for_net() != bytes {
                fails.push("re-encoding differs".into());
            }
            if d.get_serialized_size() != size {
                fails.push("size differs after the wire".into());
            }
            if d.serialize_for_signature() != t.serialize_for_signature() {
                fails.push("signed bytes differ after the wire".into());
            }
            d.generate_hash_for_signature();
            if d.hash_for_signature.unwrap() != h0 {
                fails.push("hash differs after the wire".into());
            }
            if let Some(pk) = signer {
                let ok1 = verify_signature(&d.hash_for_signature.unwrap(), &d.signature, &pk);
                if Some(ok1) != ok0 {
                    fails.push("signature verdict differs after the wire".into());
                }
                if d.validate_routing_path() != t.validate_routing_path() {
                    fails.push("routing path verdict differs after the wire".into());
                }
            }
        }
        Some(Err(_)) => fails.push("decoder rejected the encoder's output".into()),
        None => {}
    }
    // the signed bytes (hence hash_for_signature and the signature) must cover every field the
    // model says they cover: an edit of such a field changes serialize_for_signature
    {
        let base = t.serialize_for_signature();
        let mut edits: Vec<(&str, Transaction)> = vec![];
        let mut e = t.clone();
        e.timestamp = e.timestamp.wrapping_add(1);
        edits.push(("timestamp", e));
        let mut e = t.clone();
        e.txs_replacements ^= 1;
        edits.push(("txs_replacements", e));
        let mut e = t.clone();
        e.transaction_type = if t.transaction_type == TransactionType::Normal { TransactionType::Fee } else { TransactionType::Normal };
        edits.push(("transaction_type", e));
        let mut e = t.clone();
        e.data.push(7);
        edits.push(("data (appended byte)", e));
        if !t.data.is_empty() {
            let mut e = t.clone();
            let k = e.data.len() - 1;
            e.data[k] ^= 0x40;
            edits.push(("data (last byte)", e));
        }
        for (which, is_from) in [("input", true), ("output", false)] {
            let n = if is_from { t.from.len() } else { t.to.len() };
            for idx in [0usize, n.saturating_sub(1)] {
                if idx >= n {
                    continue;
                }
                for field in 0..4 {
                    let mut e = t.clone();
                    let sl = if is_from { &mut e.from[idx] } else { &mut e.to[idx] };
                    let name = match field {
                        0 => {
                            sl.public_key[32] ^= 1;
                            "public key"
                        }
                        1 => {
                            sl.amount ^= 1;
                            "amount"
                        }
                        2 => {
                            sl.slip_index ^= 1;
                            "slip index"
                        }
                        _ => {
                            sl.slip_type = if sl.slip_type == SLIP_TYPES[0] { SLIP_TYPES[1] } else { SLIP_TYPES[0] };
                            "slip type"
                        }
                    };
                    if e.serialize_for_signature() == base {
                        fails.push(format!("the signed bytes do not cover the {} of {} {}", name, which, idx));
                    }
                }
            }
        }
        for (name, e) in edits {
            if e.serialize_for_signature() == base {
                fails.push(format!("the signed bytes do not cover {}", name));
            }
        }
    }
    ctx.summary.count("tx_kind", kind);
    ctx.summary.count("tx_type", &format!("{:?}", t.transaction_type));
    ctx.summary.count("tx_from", &format!("{}", bucket(t.from.len())));
    ctx.summary.count("tx_hops", &format!("{}", t.path.len()));
    ctx.push(
        "transaction",
        format!("KTx {} {} {} {}", g_tx(t), g_bytes(&bytes), size, g_bytes(&sig_bytes)),
        &bytes,
        format!("{} type={:?} from={} to={} data={} hops={}", kind, t.transaction_type, t.from.len(), t.to.len(), t.data.len(), t.path.len()),
        fails,
    );
}

/// more than 255 slips: serialize_for_net returns an empty vector
fn case_tx_oversize(ctx: &mut Ctx, t: &Transaction) {
    let mut fails = vec![];
    let bytes = guarded("Transaction::serialize_for_net", &mut fails, || t.serialize_for_net()).unwrap_or_default();
    if !bytes.is_empty() {
        // not an error of the round-trip property by itself; the model comparison decides
    }
    ctx.summary.count("tx_kind", "oversize");
    ctx.push(
        "transaction-oversize",
        format!("KTxRaw {} {}", g_tx(t), g_bytes(&bytes)),
        &bytes,
        format!("from={} to={}", t.from.len(), t.to.len()),
        fails,
    );
}

/// a GoldenTicket-type transaction whose payload is not a 97-byte ticket: it
/// encodes, and the decoder must reject it (it is outside wf_tx)
fn case_tx_rejected(ctx: &mut Ctx, t: &Transaction) {
    let mut fails = vec![];
    let bytes = guarded("Transaction::serialize_for_net", &mut fails, || t.serialize_for_net()).unwrap_or_default();
    match guarded("Transaction::deserialize_from_net", &mut fails, || Transaction::deserialize_from_net(&bytes)) {
        Some(Ok(_)) => fails.push("a golden ticket transaction with a payload of the wrong length was decoded".into()),
        _ => {}
    }
    ctx.summary.count("tx_kind", "golden-ticket-bad-payload");
    ctx.push(
        "transaction-rejected",
        format!("KTxRej {} {}", g_tx(t), g_bytes(&bytes)),
        &bytes,
        format!("type={:?} data={}", t.transaction_type, t.data.len()),
        fails,
    );
}

fn case_block(ctx: &mut Ctx, rt: &tokio::runtime::Runtime, b: &Block, bt: BlockType, signer: Option<[u8; 33]>, kind: &str) {
    let mut fails = vec![];
    let bytes = guarded("Block::serialize_for_net", &mut fails, || b.serialize_for_net(bt)).unwrap_or_default();
    let expect_txs: Vec<Transaction> = if bt == BlockType::Header { vec![] } else { b.transactions.clone() };
    let predicted: usize = 389 + expect_txs.iter().map(|t| t.get_serialized_size()).sum::<usize>();
    if bytes.len() != predicted {
        fails.push(format!("predicted size {} != encoded length {}", predicted, bytes.len()));
    }
    let mut before = b.clone();
    // pre_hash / hash must depend on wire fields only
    before.total_work = 0x1212_3434_5656_7878;
    before.in_longest_chain = true;
    before.has_golden_ticket = true;
    before.has_fee_transaction = true;
    before.has_issuance_transaction = true;
    before.golden_ticket_index = 77;
    before.fee_transaction_index = 78;
    before.issuance_transaction_index = 79;
    before.total_rebroadcast_slips = 80;
    before.total_rebroadcast_nolan = 81;
    before.rebroadcast_hash = [0xAB; 32];
    before.pre_hash = [0xCD; 32];
    before.hash = [0xEF; 32];
    before.safe_to_prune_transactions = true;
    before.force_loaded = true;
    let sig_bytes = before.serialize_for_signature();
    before.generate_pre_hash();
    before.generate_hash();
    if before.pre_hash != hash(&sig_bytes) || before.hash != hash(&[before.previous_block_hash.as_slice(), before.pre_hash.as_slice()].concat()) {
        fails.push("pre_hash / hash are not the documented hashes of the signed header bytes".into());
    }
    let ok0 = signer.map(|pk| verify_signature(&before.pre_hash, &b.signature, &pk));
    if ok0 == Some(false) {
        fails.push("freshly signed block does not verify".into());
    }
    let mut dty = 99u8;
    let mut dntx = 0usize;
    match guarded("Block::deserialize_from_net", &mut fails, || Block::deserialize_from_net(&bytes)) {
        Some(Ok(mut d)) => {
            dty = d.block_type as u8;
            dntx = d.transactions.len();
            if !block_header_eq(&d, b) {
                fails.push("decoded block header differs from the original".into());
            }
            if d.transactions.len() != expect_txs.len() || !d.transactions.iter().zip(expect_txs.iter()).all(|(x, y)| tx_eq(x, y)) {
                fails.push("decoded transactions differ".into());
            }
            if d.serialize_for_net(bt) != bytes {
                fails.push("re-encoding differs".into());
            }
            d.generate_pre_hash();
            d.generate_hash();
            if d.pre_hash != before.pre_hash || d.hash != before.hash {
                fails.push("block hash differs after the wire".into());
            }
            if let Some(pk) = signer {
                if Some(verify_signature(&d.pre_hash, &d.signature, &pk)) != ok0 {
                    fails.push("block signature verdict differs after the wire".into());
                }
            }
            if bt != BlockType::Header && signer.is_some() && d.transactions.iter().all(|t| t.txs_replacements <= 1) {
                // merkle root over the transaction hashes (replacements are 1 in signed blocks)
                let mut o = b.clone();
                for t in o.transactions.iter_mut().chain(d.transactions.iter_mut()) {
                    t.generate_hash_for_signature();
                }
                if d.generate_merkle_root(false, false) != o.generate_merkle_root(false, false) {
                    fails.push("merkle root of the transactions differs after the wire".into());
                }
            }
        }
        Some(Err(_)) => fails.push("decoder rejected the encoder's output".into()),
        None => {}
    }
    // disk trip (Storage writes serialize_for_net(Full))
    let mut file_case: Option<(String, Vec<u8>)> = None;
    if bt == BlockType::Full {
        let io = MemIO::default();
        let mut storage = Storage::new(Box::new(io.clone()));
        let mut named = b.clone();
        named.generate_pre_hash();
        named.generate_hash();
        let r = guarded("Storage::write/load_block", &mut fails, || {
            rt.block_on(async {
                let name = storage.write_block_to_disk(&named).await;
                (name.clone(), storage.load_block_from_disk(&name).await)
            })
        });
        let r = r.map(|(name, res)| {
            // the file is <block dir><timestamp>-<hex(hash)>.sai and holds serialize_for_net(Full)
            let expected_name = format!("mem/blocks/{}-{}.sai", named.timestamp, hex::encode(named.hash));
            if name != expected_name {
                fails.push(format!("block file name {} is not {}", name, expected_name));
            }
            let short = name.strip_prefix("mem/blocks/").unwrap_or(&name).to_string();
            file_case = Some((
                format!("KFileName {} {} {}", named.timestamp, g_bytes(&named.hash), g_bytes(short.as_bytes())),
                short.into_bytes(),
            ));
            match io.files.lock().unwrap().get(&name) {
                Some(content) if *content == bytes => {}
                Some(_) => fails.push("block file content is not serialize_for_net(Full)".into()),
                None => fails.push("block file was not written under the returned name".into()),
            }
            if io.files.lock().unwrap().len() != 1 {
                fails.push("write_block_to_disk wrote more than one file".into());
            }
            res
        });
        match r {
            Some(Ok(mut d)) => {
                if !block_header_eq(&d, b) || d.transactions.len() != b.transactions.len() || !d.transactions.iter().zip(b.transactions.iter()).all(|(x, y)| tx_eq(x, y)) {
                    fails.push("block differs after the disk trip".into());
                }
                d.generate_pre_hash();
                d.generate_hash();
                if d.hash != named.hash {
                    fails.push("block hash differs after the disk trip".into());
                }
            }
            Some(Err(_)) => fails.push("block written to disk does not load".into()),
            None => {}
        }
    }
    ctx.summary.count("block_kind", kind);
    ctx.summary.count("block_type", &format!("{:?}", bt));
    ctx.summary.count("block_txs", &format!("{}", b.transactions.len()));
    ctx.push(
        "block",
        format!("KBlock {} {} {} {} {} {}", bt as u8, g_block(b), g_bytes(&bytes), dty, dntx, g_bytes(&sig_bytes)),
        &bytes,
        format!("{} bt={:?} txs={} id={}", kind, bt, b.transactions.len(), b.id),
        fails,
    );
    if let Some((kase, name_bytes)) = file_case {
        ctx.push("block-file-name", kase, &name_bytes, format!("ts={}", b.timestamp), vec![]);
    }
}

fn case_message(ctx: &mut Ctx, m: &Message, gallina: String) {
    let mut fails = vec![];
    let tag = message_tag_name(m);
    let bytes = guarded("Message::serialize", &mut fails, || m.serialize()).unwrap_or_default();
    if bytes.first().copied() != Some(m.get_type_value()) {
        fails.push("first byte is not the type value".into());
    }
    match guarded("Message::deserialize", &mut fails, || Message::deserialize(bytes.clone())) {
        Some(Ok(d)) => {
            if message_tag_name(&d) != tag {
                fails.push(format!("decoded as {} instead of {}", message_tag_name(&d), tag));
            }
            let re = d.serialize();
            if re != bytes {
                fails.push("re-encoding differs".into());
            }
            // payload equality, variant by variant
            let same = match (m, &d) {
                (Message::HandshakeChallenge(a), Message::HandshakeChallenge(b)) => a.challenge == b.challenge,
                (Message::HandshakeResponse(a), Message::HandshakeResponse(b)) => hs_eq(a, b),
                (Message::Block(a), Message::Block(b)) => {
                    block_header_eq(a, b) && a.transactions.len() == b.transactions.len() && a.transactions.iter().zip(b.transactions.iter()).all(|(x, y)| tx_eq(x, y))
                }
                (Message::Transaction(a), Message::Transaction(b)) => tx_eq(a, b),
                (Message::BlockchainRequest(a), Message::BlockchainRequest(b)) => format!("{:?}", a) == format!("{:?}", b),
                (Message::BlockHeaderHash(h, i), Message::BlockHeaderHash(h2, i2)) => h == h2 && i == i2,
                (Message::Ping(), Message::Ping()) => true,
                (Message::SPVChain(), Message::SPVChain()) => true,
                (Message::Services(a), Message::Services(b)) => services_eq(a, b),
                (Message::GhostChain(a), Message::GhostChain(b)) => ghost_eq(a, b),
                (Message::GhostChainRequest(i, h, f), Message::GhostChainRequest(i2, h2, f2)) => i == i2 && h == h2 && f == f2,
                (Message::ApplicationMessage(a), Message::ApplicationMessage(b)) => a.msg_index == b.msg_index && a.data == b.data,
                (Message::Result(a), Message::Result(b)) => a.msg_index == b.msg_index && a.data == b.data,
                (Message::Error(a), Message::Error(b)) => a.msg_index == b.msg_index && a.data == b.data,
                (Message::KeyListUpdate(a), Message::KeyListUpdate(b)) => a == b,
                _ => false,
            };
            if !same {
                fails.push("decoded message payload differs from the original".into());
            }
        }
        Some(Err(_)) => fails.push("decoder rejected the encoder's output".into()),
        None => {}
    }
    ctx.summary.count("message_tag", tag);
    ctx.push("message", format!("KMsg {} {}", gallina, g_bytes(&bytes)), &bytes, tag.to_string(), fails);
}

fn hs_eq(a: &HandshakeResponse, b: &HandshakeResponse) -> bool {
    a.public_key == b.public_key
        && a.signature == b.signature
        && a.is_lite == b.is_lite
        && a.block_fetch_url == b.block_fetch_url
        && a.challenge == b.challenge
        && services_eq(&a.services, &b.services)
        && version_eq(&a.wallet_version, &b.wallet_version)
        && version_eq(&a.core_version, &b.core_version)
}
fn ghost_eq(a: &GhostChainSync, b: &GhostChainSync) -> bool {
    a.start == b.start
        && a.prehashes == b.prehashes
        && a.previous_block_hashes == b.previous_block_hashes
        && a.block_ids == b.block_ids
        && a.block_ts == b.block_ts
        && a.txs == b.txs
        && a.gts == b.gts
}

fn case_hs_response(ctx: &mut Ctx, r: &HandshakeResponse) {
    let mut fails = vec![];
    let bytes = r.serialize();
    match guarded("HandshakeResponse::deserialize", &mut fails, || HandshakeResponse::deserialize(&bytes)) {
        Some(Ok(d)) => {
            if !hs_eq(&d, r) {
                fails.push("decoded handshake response differs".into());
            }
            if d.serialize() != bytes {
                fails.push("re-encoding differs".into());
            }
        }
        Some(Err(_)) => fails.push("decoder rejected the encoder's output".into()),
        None => {}
    }
    ctx.push(
        "handshake-response",
        format!("KResp {} {}", g_hs_response(r), g_bytes(&bytes)),
        &bytes,
        format!("url={} services={}", r.block_fetch_url.len(), r.services.len()),
        fails,
    );
}

fn case_challenge(ctx: &mut Ctx, c: [u8; 32]) {
    let mut fails = vec![];
    let ch = HandshakeChallenge { challenge: c };
    let bytes = ch.serialize();
    match guarded("HandshakeChallenge::deserialize", &mut fails, || HandshakeChallenge::deserialize(&bytes)) {
        Some(Ok(d)) => {
            if d.challenge != c {
                fails.push("decoded challenge differs".into());
            }
        }
        Some(Err(_)) => fails.push("decoder rejected the encoder's output".into()),
        None => {}
    }
    ctx.push("handshake-challenge", format!("KChal {} {}", g_bytes(&c), g_bytes(&bytes)), &bytes, String::new(), fails);
}

/// BlockchainRequest has pub(crate) fields: it is built by the real decoder from
/// bytes assembled here and its fields are read back from the derived Debug text.
fn make_bc_request(id: u64, h: &[u8; 32], f: &[u8; 32]) -> (Option<BlockchainRequest>, Vec<u8>) {
    let bytes = [id.to_be_bytes().as_slice(), h.as_slice(), f.as_slice()].concat();
    (BlockchainRequest::deserialize(&bytes).ok(), bytes)
}
fn case_bc_request(ctx: &mut Ctx, id: u64, h: [u8; 32], f: [u8; 32]) {
    let mut fails = vec![];
    let (req, layout) = make_bc_request(id, &h, &f);
    let mut bytes = layout.clone();
    match req {
        Some(r) => {
            let text = format!("{:?}", r);
            if parse_debug_u64(&text, "latest_block_id") != Some(id)
                || parse_debug_bytes(&text, "latest_block_hash") != Some(h.to_vec())
                || parse_debug_bytes(&text, "fork_id") != Some(f.to_vec())
            {
                fails.push(format!("decoded fields differ from the documented layout: {}", text));
            }
            bytes = r.serialize();
            if bytes != layout {
                fails.push("re-encoding differs".into());
            }
        }
        None => fails.push("decoder rejected a 72-byte request".into()),
    }
    ctx.push("blockchain-request", format!("KReq {} {}", g_bc_request(id, &h, &f), g_bytes(&bytes)), &bytes, format!("id={}", id), fails);
}

fn case_ghost(ctx: &mut Ctx, g: &GhostChainSync) {
    let mut fails = vec![];
    let bytes = g.serialize();
    if bytes.len() != 36 + 82 * g.prehashes.len() {
        fails.push("encoded length is not 36 + 82*count".into());
    }
    match guarded("GhostChainSync::deserialize_checked", &mut fails, || GhostChainSync::deserialize_checked(bytes.clone())) {
        Some(Ok(d)) => {
            if !ghost_eq(&d, g) {
                fails.push("decoded ghost chain differs".into());
            }
            if d.serialize() != bytes {
                fails.push("re-encoding differs".into());
            }
        }
        Some(Err(_)) => fails.push("decoder rejected the encoder's output".into()),
        None => {}
    }
    ctx.push("ghost-chain-sync", format!("KGhost {} {}", g_ghost(g), g_bytes(&bytes)), &bytes, format!("count={}", g.prehashes.len()), fails);
}

fn case_api(ctx: &mut Ctx, a: &ApiMessage) {
    let mut fails = vec![];
    let bytes = a.serialize();
    match guarded("ApiMessage::deserialize", &mut fails, || ApiMessage::deserialize(&bytes)) {
        Some(Ok(d)) => {
            if d.msg_index != a.msg_index || d.data != a.data {
                fails.push("decoded api message differs".into());
            }
        }
        Some(Err(_)) => fails.push("decoder rejected the encoder's output".into()),
        None => {}
    }
    ctx.push("api-message", format!("KApi {} {}", g_api(a), g_bytes(&bytes)), &bytes, format!("data={}", a.data.len()), fails);
}

fn case_services(ctx: &mut Ctx, v: &Vec<PeerService>) {
    let mut fails = vec![];
    let bytes = PeerService::serialize_services(v);
    match guarded("PeerService::deserialize_services", &mut fails, || PeerService::deserialize_services(bytes.clone())) {
        Some(Ok(d)) => {
            if !services_eq(&d, v) {
                fails.push("decoded services differ".into());
            }
            if PeerService::serialize_services(&d) != bytes {
                fails.push("re-encoding differs".into());
            }
        }
        Some(Err(_)) => fails.push("decoder rejected the encoder's output".into()),
        None => {}
    }
    ctx.push("services", format!("KSvc {} {}", g_services(v), g_bytes(&bytes)), &bytes, format!("n={}", v.len()), fails);
}

fn case_version(ctx: &mut Ctx, v: &Version) {
    let mut fails = vec![];
    let bytes = v.serialize();
    match guarded("Version::deserialize", &mut fails, || Version::deserialize(&bytes)) {
        Some(Ok(d)) => {
            if !version_eq(&d, v) {
                fails.push("decoded version differs".into());
            }
        }
        Some(Err(_)) => fails.push("decoder rejected the encoder's output".into()),
        None => {}
    }
    ctx.push("version", format!("KVer {} {}", g_version(v), g_bytes(&bytes)), &bytes, String::new(), fails);
}

fn case_gt(ctx: &mut Ctx, target: [u8; 32], random: [u8; 32], pk: [u8; 33]) {
    let mut fails = vec![];
    let gt = GoldenTicket::new(target, random, pk);
    let bytes = gt.serialize_for_net();
    if bytes.len() != 97 {
        fails.push("golden ticket is not 97 bytes".into());
    }
    match guarded("GoldenTicket::deserialize_from_net", &mut fails, || GoldenTicket::deserialize_from_net(&bytes)) {
        Some(d) => {
            let (t, r, p) = golden_ticket_fields(&d);
            if t != target || r != random.to_vec() || p != pk.to_vec() {
                fails.push("decoded golden ticket differs".into());
            }
            if d.serialize_for_net() != bytes {
                fails.push("re-encoding differs".into());
            }
            if hash(&d.serialize_for_net()) != hash(&bytes) {
                fails.push("solution hash differs".into());
            }
        }
        None => {}
    }
    ctx.push("golden-ticket", format!("KGt {} {}", g_gt(&target, &random, &pk), g_bytes(&bytes)), &bytes, String::new(), fails);
}

fn case_wallet(ctx: &mut Ctx, sk: [u8; 32], pk: [u8; 33]) {
    let mut fails = vec![];
    let w = Wallet::new(sk, pk);
    let bytes = w.serialize_for_disk();
    if bytes.len() != 65 {
        fails.push("wallet is not 65 bytes".into());
    }
    let mut w2 = Wallet::new([0; 32], [0; 33]);
    if guarded("Wallet::deserialize_from_disk", &mut fails, || w2.deserialize_from_disk(&bytes)).is_some() {
        if w2.private_key != sk || w2.public_key != pk {
            fails.push("wallet keys differ after the disk".into());
        }
    }
    ctx.push("wallet", format!("KWallet {} {}", g_wallet(&sk, &pk), g_bytes(&bytes)), &bytes, String::new(), fails);
}

// ---------------------------------------------------------------- identity of every block form the node puts on the wire

fn junk_free_header_eq(a: &Block, b: &Block, with_merkle: bool) -> bool {
    block_header_nums(a) == block_header_nums(b)
        && a.previous_block_hash == b.previous_block_hash
        && a.creator == b.creator
        && a.signature == b.signature
        && (!with_merkle || a.merkle_root == b.merkle_root)
}

/// `orig` has been through generate() (hash, pre_hash, merkle root, transaction hashes set).
/// Every form the node serves -- Full, Header, Pruned and the lite block of
/// generate_lite_block(keys) sent as serialize_for_net(Full) -- must, after
/// deserialize_from_net + generate(), carry the original's signed header fields and,
/// when the merkle root is the original's, its pre_hash / hash / signature verdict.
fn case_wire_identity(ctx: &mut Ctx, orig: &Block, keylists: &[(&str, Vec<[u8; 33]>)], kind: &str) {
    let creator_ok = verify_signature(&orig.pre_hash, &orig.signature, &orig.creator);
    let mut check = |fails: &mut Vec<String>, what: &str, bytes: &[u8], sent_merkle: &[u8; 32]| {
        match catch_unwind(AssertUnwindSafe(|| Block::deserialize_from_net(bytes))) {
            Ok(Ok(mut d)) => {
                let g = catch_unwind(AssertUnwindSafe(|| d.generate()));
                match g {
                    Ok(Ok(())) => {}
                    Ok(Err(_)) => fails.push(format!("{}: generate() fails on the received block", what)),
                    Err(e) => fails.push(format!("{}: generate() panicked: {}", what, panic_message(e))),
                }
                if !junk_free_header_eq(&d, orig, false) {
                    let (x, y) = (block_header_nums(&d), block_header_nums(orig));
                    let idx: Vec<usize> = (0..x.len()).filter(|i| x[*i] != y[*i]).collect();
                    fails.push(format!("{}: header fields of the received block differ from the original (numeric fields {:?})", what, idx));
                }
                if d.merkle_root != *sent_merkle {
                    fails.push(format!("{}: merkle root changed on the wire", what));
                }
                if *sent_merkle == orig.merkle_root {
                    if d.pre_hash != orig.pre_hash || d.hash != orig.hash {
                        fails.push(format!("{}: the received block does not have the hash of the original", what));
                    }
                    if verify_signature(&d.pre_hash, &d.signature, &d.creator) != creator_ok {
                        fails.push(format!("{}: creator signature verdict differs", what));
                    }
                }
            }
            Ok(Err(_)) => fails.push(format!("{}: decoder rejected the encoder's output", what)),
            Err(e) => fails.push(format!("{}: decoder panicked: {}", what, panic_message(e))),
        }
    };
    // Full / Header / Pruned
    for bt in [BlockType::Full, BlockType::Header, BlockType::Pruned] {
        let mut fails = vec![];
        let bytes = orig.serialize_for_net(bt);
        check(&mut fails, &format!("{:?}", bt), &bytes, &orig.merkle_root);
        ctx.summary.count("wire_identity", &format!("{}:{:?}", kind, bt));
        let sig_bytes = orig.serialize_for_signature();
        let mut shown = orig.clone();
        shown.block_type = BlockType::Full;
        let after = Block::deserialize_from_net(&bytes).map(|d| (d.block_type as u8, d.transactions.len())).unwrap_or((99, 0));
        ctx.push(
            "block-wire-identity",
            format!("KBlock {} {} {} {} {} {}", bt as u8, g_block(&shown), g_bytes(&bytes), after.0, after.1, g_bytes(&sig_bytes)),
            &bytes,
            format!("{} bt={:?} txs={} id={} atr_avg={} atr_total={}", kind, bt, orig.transactions.len(), orig.id, orig.avg_total_fees_atr, orig.total_fees_atr),
            fails,
        );
    }
    // lite blocks
    for (kl_name, keys) in keylists {
        let mut fails = vec![];
        let lite = match catch_unwind(AssertUnwindSafe(|| orig.generate_lite_block(keys.clone()))) {
            Ok(l) => l,
            Err(e) => {
                fails.push(format!("generate_lite_block panicked: {}", panic_message(e)));
                Block::new()
            }
        };
        if lite.hash != orig.hash {
            fails.push("the lite block is announced under another hash than the full block".into());
        }
        if !junk_free_header_eq(&lite, orig, false) {
            fails.push("lite block header differs from the full block in memory".into());
        }
        let bytes = lite.serialize_for_net(BlockType::Full);
        check(&mut fails, &format!("lite[{}]", kl_name), &bytes, &lite.merkle_root);
        let same_root = lite.merkle_root == orig.merkle_root;
        ctx.summary.count("wire_identity", &format!("{}:lite:{}:{}", kind, kl_name, if same_root { "same-root" } else { "other-root(C18)" }));
        let mut shown = orig.clone();
        shown.block_type = BlockType::Full;
        ctx.push(
            "lite-block-wire-identity",
            format!(
                "KLite {} {} {} {}",
                g_block(&shown),
                gal::list(&lite.transactions.iter().map(g_tx).collect::<Vec<_>>()),
                g_bytes(&lite.merkle_root),
                g_bytes(&bytes)
            ),
            &bytes,
            format!("{} keylist={} txs={} lite_txs={} same_merkle_root={}", kind, kl_name, orig.transactions.len(), lite.transactions.len(), same_root),
            fails,
        );
    }
}

/// a hand-built block: all 27 numeric header fields distinct and non-zero, signed
/// transactions (replacements 1), merkle root and hashes through generate(), creator signature
fn built_block(rng: &mut Rng, ntx: usize) -> (Block, Vec<[u8; 33]>) {
    let (cpk, csk) = keypair(rng);
    let mut txs = vec![];
    let mut keys = vec![];
    for j in 0..ntx {
        let (mut t, pk) = gen_signed_tx(rng, 1 + j % 2, 1 + j % 3, if j % 4 == 2 { 97 } else { 10 * j }, j % 2, if j % 4 == 2 { 2 } else { 0 });
        t.txs_replacements = 1;
        // amounts that generate() can add up
        for (i, sl) in t.from.iter_mut().enumerate() {
            sl.amount = 1_000_000 + (j * 10 + i) as u64;
        }
        for (i, sl) in t.to.iter_mut().enumerate() {
            sl.amount = 1_000 + (j * 10 + i) as u64;
        }
        keys.push(pk);
        txs.push(t);
    }
    let mut b = gen_block_distinct(rng, txs);
    b.creator = cpk;
    b.merkle_root = [0; 32];
    let _ = b.generate();
    b.sign(&csk);
    let _ = b.generate();
    (b, keys)
}

fn keylists_for(b: &Block, signer_keys: &[[u8; 33]]) -> Vec<(&'static str, Vec<[u8; 33]>)> {
    let all: Vec<[u8; 33]> = b.transactions.iter().flat_map(|t| t.from.iter().chain(t.to.iter()).map(|s| s.public_key)).collect();
    let mut v = vec![("all-keys", all), ("no-keys", vec![])];
    if signer_keys.len() >= 3 {
        // keep the first and the last transaction, omit what is in between
        v.push(("first-and-last", vec![signer_keys[0], signer_keys[signer_keys.len() - 1]]));
        v.push(("second-only", vec![signer_keys[1]]));
    } else if let Some(k) = signer_keys.first() {
        v.push(("first-only", vec![*k]));
    }
    v
}

// ---------------------------------------------------------------- real chain: blocks, verdicts, issuance file

/// Blocks of a real chain that has wrapped its window (ATR rebroadcasts, golden
/// tickets, fee transactions).  Node A receives the producer's blocks, node B the
/// same blocks after serialize_for_net(Full) -> deserialize_from_net -> generate():
/// both must reach the same verdict for every transaction and every block and the
/// same ledger.
fn chain_cases(ctx: &mut Ctx, rt: &tokio::runtime::Runtime, rng: &mut Rng, k: usize) {
    use verif_harness::chainsim::{build_tree, long_family, params};
    use verif_harness::world::Node;
    let spec = long_family(rng, k);
    let gp = spec.gp;
    let tree = rt.block_on(build_tree(spec));
    let pr = params(gp, false);
    let mut a = Node::new(&pr, 7);
    let mut b = Node::new(&pr, 8);
    let mut fails_chain: Vec<String> = vec![];
    let n = tree.blocks.len();
    for (i, blk) in tree.blocks.iter().enumerate() {
        // every block form on the wire keeps the identity of the block
        let signer_keys: Vec<[u8; 33]> = blk.transactions.iter().filter(|t| !t.from.is_empty()).map(|t| t.from[0].public_key).collect();
        let kls = keylists_for(blk, &signer_keys);
        case_wire_identity(ctx, blk, &kls, "chain");
        ctx.summary.count("chain_block_atr", if blk.avg_total_fees_atr != blk.total_fees_atr { "avg!=total" } else { "avg==total" });

        // validity verdicts before and after the wire
        let bytes = blk.serialize_for_net(BlockType::Full);
        let wired = Block::deserialize_from_net(&bytes).ok().and_then(|mut d| d.generate().ok().map(|_| d));
        let Some(wired) = wired else {
            fails_chain.push(format!("block {} of the chain does not survive the wire", i));
            continue;
        };
        for (j, (t0, t1)) in blk.transactions.iter().zip(wired.transactions.iter()).enumerate() {
            let v0 = catch_unwind(AssertUnwindSafe(|| t0.validate(&a.blockchain.utxoset, &a.blockchain, true))).ok();
            let v1 = catch_unwind(AssertUnwindSafe(|| t1.validate(&a.blockchain.utxoset, &a.blockchain, true))).ok();
            ctx.summary.count("tx_verdict", &format!("{:?}->{:?}", v0, v1));
            if v0 != v1 {
                fails_chain.push(format!("Transaction::validate verdict of tx {} of block {} changes across the wire: {:?} -> {:?}", j, i, v0, v1));
            }
            if t0.hash_for_signature != t1.hash_for_signature || t0.total_fees != t1.total_fees || t0.total_in != t1.total_in || t0.total_out != t1.total_out {
                fails_chain.push(format!("generated figures of tx {} of block {} differ after the wire", j, i));
            }
        }
        let ra = rt.block_on(a.add_block(blk.clone()));
        let rb = rt.block_on(b.add_block(wired));
        ctx.summary.count("block_verdict", &format!("{:?}", ra));
        if ra != rb {
            fails_chain.push(format!("block {} ({} of {}): verdict {:?} for the producer's block, {:?} for the block received over the wire", blk.id, i, n, ra, rb));
        }
    }
    let (sa, sb) = (a.snapshot(), b.snapshot());
    if sa != sb {
        fails_chain.push("the node fed with wire copies ends with a different chain / ledger".into());
    }
    // the issuance ("snapshot") file: written from the ledger, read back by Storage
    {
        let path = "mem/issuance/test.issuance";
        rt.block_on(a.blockchain.write_issuance_file(0, path, &mut a.storage));
        let slips = rt.block_on(a.storage.get_token_supply_slips_from_disk_path(path));
        let mut written: Vec<([u8; 33], u64)> = a.blockchain.get_utxoset_data().into_iter().collect();
        written.sort();
        let mut small = 0u64;
        let mut expect: Vec<([u8; 33], u64)> = vec![];
        for (k, v) in written {
            // the reader books every line below 25000 nolan on the project key
            if v < 25000 {
                small += v;
            } else {
                expect.push((k, v));
            }
        }
        let mut got: Vec<([u8; 33], u64)> = slips.iter().filter(|s| s.amount >= 25000).map(|s| (s.public_key, s.amount)).collect();
        got.sort();
        let got_small: u64 = slips.iter().filter(|s| s.amount < 25000).map(|s| s.amount).sum();
        ctx.summary.count("issuance_file_lines", &format!("{}", slips.len()));
        if got != expect || got_small != small {
            fails_chain.push(format!("issuance file does not read back as written: {} balances written, {} read", expect.len(), got.len()));
        }
        if slips.iter().any(|s| !s.is_utxoset_key_set || s.utxoset_key != s.get_utxoset_key()) {
            fails_chain.push("issuance slips read back without their utxoset key".into());
        }
    }
    ctx.push("chain-verdicts", "KNone".to_string(), &[k as u8 + 1], format!("long_family k={} gp={} blocks={}", k, gp, n), fails_chain);
}

// ---------------------------------------------------------------- balance snapshot (text format)

fn case_snapshot(ctx: &mut Ctx, rng: &mut Rng, nslips: usize) {
    use saito_core::core::defs::PrintForLog;
    use saito_core::core::util::balance_snapshot::BalanceSnapshot;
    let mut fails = vec![];
    let mut snap = BalanceSnapshot {
        latest_block_id: extreme_u64(rng),
        latest_block_hash: rbytes::<32>(rng),
        timestamp: extreme_u64(rng),
        slips: vec![],
    };
    for i in 0..nslips {
        let mut s = gen_slip(rng, 0);
        // a real compressed public key (base58 of arbitrary 33 bytes also round-trips)
        if i % 2 == 0 {
            s.public_key = keypair(rng).0;
        }
        s.generate_utxoset_key();
        snap.slips.push(s);
    }
    let name = snap.get_file_name();
    let rows = snap.get_rows();
    // documented format: <timestamp>-<latest_block_id>-<latest_block_hash>.snap
    let expect_name = format!("{}-{}-{}.snap", snap.timestamp, snap.latest_block_id, hex::encode(snap.latest_block_hash));
    if name != expect_name {
        fails.push(format!("snapshot file name {} is not {}", name, expect_name));
    }
    // | Public Key | Block Id | Transaction Id | Slip Id | Amount |
    if rows.len() != snap.slips.len() {
        fails.push("one row per slip expected".into());
    }
    for (row, s) in rows.iter().zip(snap.slips.iter()) {
        let cols: Vec<&str> = row.split(' ').collect();
        let ok = cols.len() == 5
            && <[u8; 33]>::from_base58(cols[0]).map(|k| k == s.public_key).unwrap_or(false)
            && cols[1] == format!("{}", s.block_id)
            && cols[2] == format!("{}", s.tx_ordinal)
            && cols[3] == format!("{}", s.slip_index)
            && cols[4] == format!("{}", s.amount);
        if !ok {
            fails.push(format!("row {:?} is not <key> <block id> <tx ordinal> <slip index> <amount> of its slip", row));
            break;
        }
    }
    match guarded("BalanceSnapshot::new", &mut fails, || BalanceSnapshot::new(name.clone(), rows.clone())) {
        Some(Ok(back)) => {
            if back.latest_block_id != snap.latest_block_id || back.latest_block_hash != snap.latest_block_hash || back.timestamp != snap.timestamp {
                fails.push("snapshot header (file name) does not round-trip".into());
            }
            let same = back.slips.len() == snap.slips.len()
                && back.slips.iter().zip(snap.slips.iter()).all(|(x, y)| {
                    x.public_key == y.public_key && x.block_id == y.block_id && x.tx_ordinal == y.tx_ordinal && x.slip_index == y.slip_index && x.amount == y.amount
                });
            if !same {
                fails.push("snapshot rows do not round-trip".into());
            }
            if back.get_rows() != rows || back.get_file_name() != name {
                fails.push("re-encoding of the snapshot differs".into());
            }
            if back.slips.iter().any(|x| !x.is_utxoset_key_set || x.utxoset_key != x.get_utxoset_key()) {
                fails.push("snapshot slips come back without their utxoset key".into());
            }
        }
        Some(Err(e)) => fails.push(format!("BalanceSnapshot::new rejected its own output: {}", e)),
        None => {}
    }
    // the whole-file form (Display / TryFrom<String>)
    let text = format!("{}", snap);
    match guarded("BalanceSnapshot::try_from", &mut fails, || BalanceSnapshot::try_from(text.clone())) {
        Some(Ok(back)) => {
            if back.get_rows() != rows || back.get_file_name() != name {
                fails.push("snapshot text file does not round-trip".into());
            }
        }
        Some(Err(e)) => fails.push(format!("snapshot text file rejected: {}", e)),
        None => {}
    }
    let bytes = text.as_bytes().to_vec();
    let rows_g: Vec<String> = snap
        .slips
        .iter()
        .map(|x| format!("(mkSnapRow {} {} {} {} {})", g_bytes(x.public_key.to_base58().as_bytes()), x.block_id, x.tx_ordinal, x.slip_index, x.amount))
        .collect();
    let kase = format!(
        "KSnap {} {} {} {} {} {}",
        snap.timestamp,
        snap.latest_block_id,
        g_bytes(&snap.latest_block_hash),
        gal::list(&rows_g),
        g_bytes(name.as_bytes()),
        gal::list(&rows.iter().map(|r| g_bytes(r.as_bytes())).collect::<Vec<_>>())
    );
    ctx.push("balance-snapshot", kase, &bytes, format!("slips={}", nslips), fails);
}

const HEADER: &str = "From Saito Require Import Base Bytes Codec TextCodec.
From Coq Require Import String.
Inductive kase :=
| KSlip (v : slip) (bs key sigbs : list N)
| KHop (v : hop) (bs : list N)
| KTx (v : tx) (bs : list N) (size : N) (sigbs : list N)
| KTxRaw (v : tx) (bs : list N)
| KTxRej (v : tx) (bs : list N)
| KBlock (bt : N) (v : block) (bs : list N) (dty dntx : N) (sigbs : list N)
| KLite (orig : block) (txs : list tx) (merkle : list N) (bs : list N)
| KMsg (v : message) (bs : list N)
| KChal (v : list N) (bs : list N)
| KResp (v : hs_response) (bs : list N)
| KReq (v : bc_request) (bs : list N)
| KGhost (v : ghost_sync) (bs : list N)
| KApi (v : api_message) (bs : list N)
| KSvc (v : list service) (bs : list N)
| KVer (v : version) (bs : list N)
| KGt (v : golden_ticket) (bs : list N)
| KWallet (v : wallet_keys) (bs : list N)
| KSnap (ts id : N) (hash : list N) (rows : list snap_row) (name : list N) (texts : list (list N))
| KFileName (ts : N) (hash : list N) (name : list N)
| KNone.
Definition rt {A} (enc : A -> list N) (dec : list N -> res A) (eqb : A -> A -> bool) (wf : A -> bool)
  (v : A) (bs : list N) : bool :=
  beq (enc v) bs && eqb_res eqb (dec bs) (Ok v) && wf v.
Definition check (c : kase) : bool :=
  match c with
  | KSlip v h key sg =>
      rt encode_slip decode_slip eqb_slip wf_slip v h
      && beq (encode_utxokey v) key && eqb_res eqb_slip (decode_utxokey key) (Ok v)
      && beq (sig_bytes_slip v) sg
  | KHop v h => rt encode_hop decode_hop eqb_hop wf_hop v h
  | KTx v h sz sg =>
      rt encode_tx decode_tx eqb_tx wf_tx v h && (size_tx v =? sz) && (Nlen h =? sz)
      && beq (sig_bytes_tx v) sg
  | KTxRaw v h => beq (encode_tx v) h
  | KTxRej v h => beq (encode_tx v) h && (class_of (decode_tx h) =? 1) && negb (wf_tx v)
  | KLite orig txs mr h =>
      (* the lite block on the wire is the full block's header (merkle root over the
         placeholders) followed by the lite transactions; its signed header bytes are
         the original's whenever the merkle roots agree *)
      let l := lite_block_of orig txs mr in
      beq (encode_block BT_FULL l) h
      && eqb_res eqb_block (decode_block h) (Ok (block_after_wire BT_FULL l))
      && eqb_lN (block_nums l) (block_nums orig)
      && (negb (beq mr (b_merkle orig)) || beq (sig_bytes_block l) (sig_bytes_block orig))
  | KBlock bt v h dty dntx sg =>
      let bs := h in let w := block_after_wire bt v in
      beq (encode_block bt v) bs && eqb_res eqb_block (decode_block bs) (Ok w) && wf_block v
      && (b_type w =? dty) && (Nlen (b_txs w) =? dntx) && (size_block bt v =? Nlen bs)
      && beq (sig_bytes_block v) sg
  | KMsg v h =>
      let bs := h in
      beq (encode_message v) bs && eqb_res eqb_message (decode_message bs) (Ok (message_after_wire v)) && wf_message v
  | KChal v h => rt encode_hs_challenge decode_hs_challenge beq (arr_ok 32) v h
  | KResp v h => rt encode_hs_response decode_hs_response eqb_hs_response wf_hs_response v h
  | KReq v h => rt encode_bc_request decode_bc_request eqb_bc_request wf_bc_request v h
  | KGhost v h => rt encode_ghost decode_ghost_checked eqb_ghost wf_ghost v h
  | KApi v h => rt encode_api decode_api eqb_api wf_api v h
  | KSvc v h => rt encode_services decode_services (eqb_list eqb_service) wf_services v h
  | KVer v h => rt encode_version decode_version eqb_version wf_version v h
  | KGt v h => rt encode_gt decode_gt eqb_gt wf_gt v h
  | KWallet v h => rt encode_wallet decode_wallet eqb_wallet wf_wallet v h
  | KSnap ts id hash rows name texts =>
      beq (print_snap_name ts id hash) name
      && match parse_snap_name name with
         | Some (a, b, h) => (a =? ts) && (b =? id) && beq h hash
         | None => false
         end
      && eqb_llN (map print_row rows) texts
      && forallb wf_snap_row rows
      && forallb (fun p => match parse_row (snd p) with
                           | Some r => eqb_snap_row r (fst p)
                           | None => false
                           end) (combine rows texts)
  | KFileName ts hash name => beq (print_block_file_name ts hash) name
  | KNone => true      (* direct oracle only (chain verdicts, issuance file) *)
  end.";

fn main() {
    let args = Args::parse();
    let mut rng = Rng::new(args.seed);
    let thorough = args.tier == "thorough";
    if std::env::var("VERIF_PANIC").is_err() {
        std::panic::set_hook(Box::new(|_| {}));
    }
    let rt = tokio::runtime::Builder::new_current_thread().build().unwrap();
    let mut ctx = Ctx {
        summary: Summary::new("C09"),
        coq: vec![],
        distinct: BTreeSet::new(),
        bytes_total: 0,
    };
    let mul = if thorough { 6 } else { 1 };

    // ---- slips: every type x extreme integers
    for k in 0..(60 * mul) {
        let s = gen_slip(&mut rng, k);
        case_slip(&mut ctx, &s);
    }
    // distinct recognisable fields (catches swaps of equal-width fields)
    {
        let mut s = Slip::default();
        for (i, b) in s.public_key.iter_mut().enumerate() {
            *b = i as u8 + 1;
        }
        s.amount = 0x1112131415161718;
        s.block_id = 0x2122232425262728;
        s.tx_ordinal = 0x3132333435363738;
        s.slip_index = 0x41;
        s.slip_type = SLIP_TYPES[9];
        case_slip(&mut ctx, &s);
    }
    // ---- hops
    for _ in 0..(12 * mul) {
        let h = gen_hop(&mut rng);
        case_hop(&mut ctx, &h);
    }
    // ---- transactions: every type, slip counts 0..255, payload sizes, hops
    let slip_counts: Vec<(usize, usize)> = vec![(0, 0), (1, 1), (1, 0), (0, 1), (2, 3), (7, 1), (16, 16), (255, 0), (0, 255), (255, 255), (254, 2)];
    for (k, (nf, nt)) in slip_counts.iter().enumerate() {
        let nd = [0usize, 1, 97, 300, 0, 5, 1024, 0, 3, 70000, 64][k];
        let nh = [0usize, 1, 0, 2, 3, 0, 1, 0, 5, 2, 1][k];
        let t = gen_tx(&mut rng, *nf, *nt, nd, nh, k);
        case_tx(&mut ctx, &t, None, "random-fields");
    }
    for ty in 0..9 {
        for rep in 0..(2 * mul) {
            let nf = rng.range(0, 4) as usize;
            let nt = rng.range(0, 4) as usize;
            let nd = *rng.pick(&[0usize, 1, 32, 97, 200, 1000]);
            let nh = rng.range(0, 3) as usize;
            let t = gen_tx(&mut rng, nf, nt, nd, nh, ty + 9 * rep);
            case_tx(&mut ctx, &t, None, "random-fields");
        }
    }
    for ty in 0..9 {
        for _ in 0..(2 * mul) {
            let nf = rng.range(1, 3) as usize;
            let nt = rng.range(0, 3) as usize;
            let nd = *rng.pick(&[0usize, 1, 97, 500]);
            let nh = rng.range(0, 3) as usize;
            let (t, pk) = gen_signed_tx(&mut rng, nf, nt, nd, nh, ty);
            case_tx(&mut ctx, &t, Some(pk), "signed");
        }
    }
    if thorough {
        let t = gen_tx(&mut rng, 3, 3, 1_000_000, 40, 0);
        case_tx(&mut ctx, &t, None, "large");
    }
    // more than 255 slips: encoder gives up
    {
        let t = gen_tx(&mut rng, 256, 1, 3, 0, 0);
        case_tx_oversize(&mut ctx, &t);
        let t = gen_tx(&mut rng, 1, 256, 3, 0, 0);
        case_tx_oversize(&mut ctx, &t);
    }
    // golden ticket transactions: the payload must be a 97-byte ticket
    for n in [0usize, 1, 96, 98, 200] {
        let mut t = gen_tx(&mut rng, 1, 1, 0, 1, 2);
        t.data = rvec(&mut rng, n);
        case_tx_rejected(&mut ctx, &t);
    }
    // ---- blocks: all block types, 0..k transactions, genesis-like header
    for k in 0..(10 * mul) {
        let ntx = [0usize, 1, 2, 5, 0, 3, 12, 1, 0, 4][k % 10];
        let mut txs = vec![];
        for j in 0..ntx {
            let nf = rng.range(0, 3) as usize;
            let nt = rng.range(0, 3) as usize;
            let nd = *rng.pick(&[0usize, 1, 97, 300]);
            let nh = rng.range(0, 2) as usize;
            txs.push(gen_tx(&mut rng, nf, nt, nd, nh, j + k));
        }
        let mut b = if k % 2 == 0 { gen_block_distinct(&mut rng, txs) } else { gen_block(&mut rng, txs) };
        if k % 5 == 4 {
            // the genesis exception of the decoder: id == 1 and zero previous hash
            b.id = 1;
            b.previous_block_hash = [0; 32];
        }
        if k % 5 == 3 {
            b.id = 1;
        }
        for bt in BLOCK_TYPES.iter() {
            case_block(&mut ctx, &rt, &b, *bt, None, "random-fields");
        }
    }
    // signed blocks with signed transactions
    for k in 0..(4 * mul) {
        let (cpk, csk) = keypair(&mut rng);
        let mut txs = vec![];
        for j in 0..(k % 4) {
            let (mut t, _) = gen_signed_tx(&mut rng, 1 + j % 2, 2, 10 * j, j % 3, j);
            t.txs_replacements = 1;
            t.generate_hash_for_signature();
            txs.push(t);
        }
        let mut b = gen_block(&mut rng, txs);
        b.creator = cpk;
        b.merkle_root = b.generate_merkle_root(false, false);
        b.sign(&csk);
        case_block(&mut ctx, &rt, &b, BlockType::Full, Some(cpk), "signed");
        case_block(&mut ctx, &rt, &b, BlockType::Header, Some(cpk), "signed");
    }
    // ---- identity of every block form on the wire (Full, Header, Pruned, lite): hand-built
    // headers with 27 distinct non-zero figures, and real blocks of a chain past its window
    for k in 0..(3 * mul) {
        let (b, keys) = built_block(&mut rng, [3usize, 0, 5, 1, 4, 2][k % 6]);
        let kls = keylists_for(&b, &keys);
        case_wire_identity(&mut ctx, &b, &kls, "built");
    }
    for k in 0..(if thorough { 3 } else { 1 }) {
        // family members 13.. build the whole main chain (2gp+2.. blocks, ATR rebroadcasts) plus a fork
        chain_cases(&mut ctx, &rt, &mut rng, 13 + k);
    }
    // ---- balance snapshot text format
    for n in [0usize, 1, 2, 7] {
        case_snapshot(&mut ctx, &mut rng, n);
    }
    // ---- small formats
    for _ in 0..(6 * mul) {
        let c = rbytes::<32>(&mut rng);
        case_challenge(&mut ctx, c);
        let v = gen_version(&mut rng);
        case_version(&mut ctx, &v);
        let (t, r, p) = (rbytes::<32>(&mut rng), rbytes::<32>(&mut rng), rbytes::<33>(&mut rng));
        case_gt(&mut ctx, t, r, p);
        let (sk, pk) = (rbytes::<32>(&mut rng), rbytes::<33>(&mut rng));
        case_wallet(&mut ctx, sk, pk);
        let (id, h, f) = (extreme_u64(&mut rng), rbytes::<32>(&mut rng), rbytes::<32>(&mut rng));
        case_bc_request(&mut ctx, id, h, f);
    }
    for n in [0usize, 1, 2, 3, 7, 20] {
        let g = gen_ghost(&mut rng, n);
        case_ghost(&mut ctx, &g);
        let a = gen_api(&mut rng, [0usize, 1, 4, 100, 1000, 3][n % 6]);
        case_api(&mut ctx, &a);
        let s = gen_services(&mut rng, n.min(8));
        case_services(&mut ctx, &s);
    }
    let urls = ["", "h", "http://saito.io:12101/block/", "https://r\u{e9}seau.example/\u{4e2d}/"];
    for (k, url) in urls.iter().enumerate() {
        for nsvc in [0usize, 1, 3] {
            let r = gen_hs_response(&mut rng, url, nsvc + k % 2);
            case_hs_response(&mut ctx, &r);
        }
    }
    {
        let long_url = "u".repeat(300);
        let r = gen_hs_response(&mut rng, &long_url, 2);
        case_hs_response(&mut ctx, &r);
    }
    // ---- messages: every tag
    for rep in 0..(2 * mul) {
        let c = rbytes::<32>(&mut rng);
        case_message(&mut ctx, &Message::HandshakeChallenge(HandshakeChallenge { challenge: c }), format!("(MHandshakeChallenge {})", g_bytes(&c)));
        let r = gen_hs_response(&mut rng, urls[rep % 4], rep % 3);
        let g = format!("(MHandshakeResponse {})", g_hs_response(&r));
        case_message(&mut ctx, &Message::HandshakeResponse(r), g);
        let mut txs = vec![];
        for j in 0..(rep % 3) {
            txs.push(gen_tx(&mut rng, j, 2, 17 * j, j % 2, j));
        }
        let b = gen_block(&mut rng, txs);
        let g = format!("(MBlock {})", g_block(&b));
        case_message(&mut ctx, &Message::Block(b), g);
        let t = gen_tx(&mut rng, 2, 2, 50, 1, rep);
        let g = format!("(MTransaction {})", g_tx(&t));
        case_message(&mut ctx, &Message::Transaction(t), g);
        let (id, h, f) = (extreme_u64(&mut rng), rbytes::<32>(&mut rng), rbytes::<32>(&mut rng));
        if let (Some(req), _) = make_bc_request(id, &h, &f) {
            case_message(&mut ctx, &Message::BlockchainRequest(req), format!("(MBlockchainRequest {})", g_bc_request(id, &h, &f)));
        }
        case_message(&mut ctx, &Message::BlockHeaderHash(h, id), format!("(MBlockHeaderHash {} {})", g_bytes(&h), id));
        case_message(&mut ctx, &Message::Ping(), "MPing".to_string());
        case_message(&mut ctx, &Message::SPVChain(), "MSPVChain".to_string());
        let s = gen_services(&mut rng, rep % 4);
        let g = format!("(MServices {})", g_services(&s));
        case_message(&mut ctx, &Message::Services(s), g);
        let gh = gen_ghost(&mut rng, rep % 5);
        let g = format!("(MGhostChain {})", g_ghost(&gh));
        case_message(&mut ctx, &Message::GhostChain(gh), g);
        case_message(&mut ctx, &Message::GhostChainRequest(id, h, f), format!("(MGhostChainRequest {} {} {})", id, g_bytes(&h), g_bytes(&f)));
        let a = gen_api(&mut rng, 10 * rep);
        let g = g_api(&a);
        case_message(&mut ctx, &Message::ApplicationMessage(a.clone()), format!("(MApplicationMessage {})", g));
        case_message(&mut ctx, &Message::Result(a.clone()), format!("(MResult {})", g));
        case_message(&mut ctx, &Message::Error(a), format!("(MError {})", g));
        let keys: Vec<[u8; 33]> = (0..(rep * 3 % 7)).map(|_| rbytes::<33>(&mut rng)).collect();
        let g = format!("(MKeyListUpdate {})", gal::list(&keys.iter().map(|k| g_bytes(k)).collect::<Vec<_>>()));
        case_message(&mut ctx, &Message::KeyListUpdate(keys), g);
    }
    // a transaction type that must stay the type after the wire (SPV hash rule)
    {
        let mut t = gen_tx(&mut rng, 1, 1, 0, 0, 5);
        t.transaction_type = TransactionType::SPV;
        case_tx(&mut ctx, &t, None, "spv");
    }

    ctx.summary.evaluations = ctx.coq.len() as u64;
    ctx.summary.notes.push(format!("case text: {} bytes", ctx.bytes_total));
    let files = gal::write_shards(&format!("{}/cases", args.out), "C09", HEADER, "kase", &ctx.coq, args.shards).unwrap();
    ctx.summary.case_files = files;
    ctx.summary.write(&args.out);
}
