//! C10 — decoders are total.  Every truncation and length/count/tag corruption
//! of valid encodings of every format and message tag, byte flips, and random
//! strings are fed to the real decoders under catch_unwind with a counting
//! allocator.  Outcome class (0 ok / 1 err / 2 panic) and, when ok, the
//! re-encoding are compared with coq/model/Codec.v on the same bytes.
//! Oracle: a panic outside the listed known classes, or an allocation above
//! ALLOC_C * len + ALLOC_D, is a failure; panics inside a known class are
//! known hits.
use std::alloc::{GlobalAlloc, Layout, System};
use std::collections::BTreeSet;
use std::panic::{catch_unwind, AssertUnwindSafe};
use std::sync::atomic::{AtomicUsize, Ordering};

use saito_core::core::consensus::block::{Block, BlockType};
use saito_core::core::consensus::golden_ticket::GoldenTicket;
use saito_core::core::consensus::hop::Hop;
use saito_core::core::consensus::peers::peer_service::PeerService;
use saito_core::core::consensus::slip::Slip;
use saito_core::core::consensus::transaction::{Transaction, TransactionType};
use saito_core::core::consensus::wallet::Wallet;
use saito_core::core::msg::api_message::ApiMessage;
use saito_core::core::msg::block_request::BlockchainRequest;
use saito_core::core::msg::ghost_chain_sync::GhostChainSync;
use saito_core::core::msg::handshake::{HandshakeChallenge, HandshakeResponse};
use saito_core::core::msg::message::Message;
use saito_core::core::process::version::Version;
use saito_core::core::util::serialize::Serialize;
use verif_harness::common::{jstr, Args, Summary};
use verif_harness::gal;
use verif_harness::rng::Rng;

#[path = "../codec_gen.rs"]
mod codec_gen;
use codec_gen::*;

// ---------------------------------------------------------------- counting allocator
// Every request is counted.  A request of HUGE bytes or more (e.g. a
// Vec::with_capacity(count) on a count read from the wire: 2^32-1 transactions are
// 1 TB) is served by an untouched, unreserved anonymous mapping instead of malloc,
// so that it neither aborts the process (handle_alloc_error) nor costs memory: the
// decoder call returns normally and the allocation oracle reports the input.
struct Counting;
static ALLOCATED: AtomicUsize = AtomicUsize::new(0);
const HUGE: usize = 1 << 28;
extern "C" {
    fn mmap(addr: *mut u8, len: usize, prot: i32, flags: i32, fd: i32, off: i64) -> *mut u8;
    fn munmap(addr: *mut u8, len: usize) -> i32;
}
const PROT_READ_WRITE: i32 = 1 | 2;
const MAP_PRIVATE_ANON_NORESERVE: i32 = 0x02 | 0x20 | 0x4000;
/// where the kernel refuses even an unreserved mapping of that size (vm.overcommit_memory = 2) the
/// request is served from one fixed 1 GiB scratch mapping: the decoders only ever write what they
/// read from the (kilobyte-sized) input, the request is still counted and reported by the oracle
static SCRATCH: AtomicUsize = AtomicUsize::new(0);
const SCRATCH_LEN: usize = 1 << 30;
unsafe fn huge_alloc(size: usize) -> *mut u8 {
    let p = mmap(std::ptr::null_mut(), size, PROT_READ_WRITE, MAP_PRIVATE_ANON_NORESERVE, -1, 0);
    if p as isize != -1 {
        return p;
    }
    let mut s = SCRATCH.load(Ordering::Relaxed);
    if s == 0 {
        let q = mmap(std::ptr::null_mut(), SCRATCH_LEN, PROT_READ_WRITE, MAP_PRIVATE_ANON_NORESERVE, -1, 0);
        if q as isize == -1 {
            return std::ptr::null_mut();
        }
        s = q as usize;
        SCRATCH.store(s, Ordering::Relaxed);
    }
    s as *mut u8
}
unsafe impl GlobalAlloc for Counting {
    unsafe fn alloc(&self, l: Layout) -> *mut u8 {
        ALLOCATED.fetch_add(l.size(), Ordering::Relaxed);
        if l.size() >= HUGE && l.align() <= 4096 {
            return huge_alloc(l.size());
        }
        System.alloc(l)
    }
    unsafe fn dealloc(&self, p: *mut u8, l: Layout) {
        if l.size() >= HUGE && l.align() <= 4096 {
            if p as usize != SCRATCH.load(Ordering::Relaxed) {
                munmap(p, l.size());
            }
            return;
        }
        System.dealloc(p, l)
    }
    unsafe fn realloc(&self, p: *mut u8, l: Layout, new_size: usize) -> *mut u8 {
        if new_size > l.size() {
            ALLOCATED.fetch_add(new_size - l.size(), Ordering::Relaxed);
        }
        if l.size() >= HUGE || new_size >= HUGE {
            // move between the two regimes by hand
            let nl = Layout::from_size_align_unchecked(new_size, l.align());
            let q = if new_size >= HUGE && l.align() <= 4096 { huge_alloc(new_size) } else { System.alloc(nl) };
            if !q.is_null() && q != p {
                std::ptr::copy_nonoverlapping(p, q, l.size().min(new_size));
                self.dealloc(p, l);
            }
            return q;
        }
        System.realloc(p, l, new_size)
    }
}
#[global_allocator]
static GLOBAL: Counting = Counting;

/// total bytes requested from the allocator during one decoder call must stay
/// below ALLOC_C * input length + ALLOC_D
const ALLOC_C: usize = 16;
const ALLOC_D: usize = 2048;

// ---------------------------------------------------------------- formats
const F_SLIP: u64 = 1;
const F_HOP: u64 = 2;
const F_TX: u64 = 3;
const F_BLOCK: u64 = 4;
const F_MESSAGE: u64 = 5;
const F_HS_CHALLENGE: u64 = 6;
const F_HS_RESPONSE: u64 = 7;
const F_BC_REQUEST: u64 = 8;
const F_GHOST: u64 = 9;
const F_API: u64 = 10;
const F_SERVICES: u64 = 11;
const F_VERSION: u64 = 12;
const F_GT: u64 = 13;
const F_WALLET: u64 = 14;

fn fmt_name(f: u64) -> &'static str {
    match f {
        1 => "slip",
        2 => "hop",
        3 => "transaction",
        4 => "block",
        5 => "message",
        6 => "handshake-challenge",
        7 => "handshake-response",
        8 => "blockchain-request",
        9 => "ghost-chain-sync",
        10 => "api-message",
        11 => "services",
        12 => "version",
        13 => "golden-ticket",
        14 => "wallet-disk",
        _ => "?",
    }
}

/// what the mempool and block validation do with a decoded GoldenTicket-type
/// transaction: its payload goes to GoldenTicket::deserialize_from_net (assert len == 97)
fn ticket_of(t: &Transaction) {
    if let TransactionType::GoldenTicket = t.transaction_type {
        let gt = GoldenTicket::deserialize_from_net(&t.data);
        assert_eq!(gt.serialize_for_net(), t.data, "golden ticket payload does not re-encode");
    }
}

/// the real decoder followed by the real encoder on the decoded value
fn real_decode(fmt: u64, bytes: &[u8]) -> Result<Vec<u8>, ()> {
    let v = bytes.to_vec();
    match fmt {
        F_SLIP => Slip::deserialize_from_net(&v).map(|s| s.serialize_for_net()).map_err(|_| ()),
        F_HOP => Hop::deserialize_from_net(&v).map(|s| s.serialize_for_net()).map_err(|_| ()),
        F_TX => Transaction::deserialize_from_net(&v)
            .map(|s| {
                ticket_of(&s);
                s.serialize_for_net()
            })
            .map_err(|_| ()),
        F_BLOCK => Block::deserialize_from_net(&v)
            .map(|s| {
                s.transactions.iter().for_each(ticket_of);
                s.serialize_for_net(BlockType::Full)
            })
            .map_err(|_| ()),
        F_MESSAGE => Message::deserialize(v)
            .map(|s| {
                match &s {
                    Message::Transaction(t) => ticket_of(t),
                    Message::Block(b) => b.transactions.iter().for_each(ticket_of),
                    _ => {}
                }
                s.serialize()
            })
            .map_err(|_| ()),
        F_HS_CHALLENGE => HandshakeChallenge::deserialize(&v).map(|s| s.serialize()).map_err(|_| ()),
        F_HS_RESPONSE => HandshakeResponse::deserialize(&v).map(|s| s.serialize()).map_err(|_| ()),
        F_BC_REQUEST => BlockchainRequest::deserialize(&v).map(|s| s.serialize()).map_err(|_| ()),
        F_GHOST => GhostChainSync::deserialize_checked(v).map(|s| s.serialize()).map_err(|_| ()),
        F_API => ApiMessage::deserialize(&v).map(|s| s.serialize()).map_err(|_| ()),
        F_SERVICES => PeerService::deserialize_services(v).map(|s| PeerService::serialize_services(&s)).map_err(|_| ()),
        F_VERSION => Version::deserialize(&v).map(|s| s.serialize()).map_err(|_| ()),
        F_GT => Ok(GoldenTicket::deserialize_from_net(&v).serialize_for_net()),
        F_WALLET => {
            let mut w = Wallet::new([0; 32], [0; 33]);
            w.deserialize_from_disk(&v);
            Ok(w.serialize_for_disk())
        }
        _ => Err(()),
    }
}

struct Outcome {
    class: u64,
    reenc: Vec<u8>,
    panic_msg: String,
    alloc: usize,
}

fn run_real(fmt: u64, bytes: &[u8]) -> Outcome {
    let before = ALLOCATED.load(Ordering::Relaxed);
    let r = catch_unwind(AssertUnwindSafe(|| real_decode(fmt, bytes)));
    let alloc = ALLOCATED.load(Ordering::Relaxed) - before;
    match r {
        Ok(Ok(re)) => Outcome { class: 0, reenc: re, panic_msg: String::new(), alloc },
        Ok(Err(())) => Outcome { class: 1, reenc: vec![], panic_msg: String::new(), alloc },
        Err(e) => Outcome { class: 2, reenc: vec![], panic_msg: panic_message(e), alloc },
    }
}

fn be32(b: &[u8], off: usize) -> Option<u64> {
    if b.len() >= off + 4 {
        Some(u32::from_be_bytes(b[off..off + 4].try_into().unwrap()) as u64)
    } else {
        None
    }
}

/// the listed known classes (must agree with known_c10_wallet of coq/model/Codec.v).
/// The transaction / ghost chain / api message / golden ticket classes were repaired in
/// /repo (34b1724, 8fc45ed, 144e342, eeb4ec7): a panic there is an oracle failure again.
fn known_class(fmt: u64, b: &[u8]) -> Option<&'static str> {
    match fmt {
        F_WALLET if b.len() < 65 => Some("wallet-disk-short"),
        _ => None,
    }
}

struct Ctx {
    summary: Summary,
    coq: Vec<String>,
    distinct: BTreeSet<(u64, Vec<u8>)>,
    calls: u64,
    /// max over all calls of (bytes allocated - ALLOC_C * input length)
    max_excess: usize,
    panics_seen: BTreeSet<String>,
    hits_per_id: std::collections::BTreeMap<&'static str, u64>,
}

impl Ctx {
    /// runs the real decoder on one input, applies the oracle, returns the outcome
    fn eval(&mut self, case: usize, fmt: u64, bytes: &[u8], desc: &str) -> Outcome {
        let o = run_real(fmt, bytes);
        self.calls += 1;
        self.summary.count("class", ["ok", "err", "panic"][o.class as usize]);
        self.summary.count(&format!("class:{}", fmt_name(fmt)), ["ok", "err", "panic"][o.class as usize]);
        if !bytes.is_empty() && self.distinct.insert((fmt, bytes.to_vec())) {
            self.summary.nontrivial += 1;
        }
        if o.class == 2 {
            let short: String = o.panic_msg.chars().take(90).collect();
            match known_class(fmt, bytes) {
                Some(id) => {
                    // the summary keeps at most 2000 hits: record a few per finding, count all
                    let n = self.hits_per_id.entry(id).or_insert(0);
                    *n += 1;
                    if *n <= 20 {
                        self.summary.known_hit(id, case, &format!("{} decoder panicked on {} bytes: {}", fmt_name(fmt), bytes.len(), short));
                    }
                    self.summary.count("known_hit", id);
                    self.panics_seen.insert(format!("{}: {}", id, generalise(&short)));
                }
                None => self.summary.oracle_failure(
                    case,
                    &format!("{} decoder panicked on {} bytes (outside the known classes): {}", fmt_name(fmt), bytes.len(), short),
                    desc,
                ),
            }
        }
        self.max_excess = self.max_excess.max(o.alloc.saturating_sub(ALLOC_C * bytes.len()));
        let bound = ALLOC_C * bytes.len() + ALLOC_D;
        if o.alloc > bound {
            self.summary.oracle_failure(
                case,
                &format!("{} decoder allocated {} bytes for an input of {} bytes (bound {})", fmt_name(fmt), o.alloc, bytes.len(), bound),
                desc,
            );
        }
        o
    }

    fn desc(&self, kind: &str, fmt: u64, bytes: &[u8], what: &str) -> String {
        let hexs = if bytes.len() <= 600 { hex::encode(bytes) } else { format!("{}..({} bytes)", hex::encode(&bytes[..300]), bytes.len()) };
        format!(
            "{{\"case\":{},\"kind\":{},\"format\":{},\"what\":{},\"len\":{},\"bytes\":{}}}",
            self.coq.len(),
            jstr(kind),
            jstr(fmt_name(fmt)),
            jstr(what),
            bytes.len(),
            jstr(&hexs)
        )
    }

    /// every prefix of `bytes` (lengths 0..=len)
    fn truncations(&mut self, fmt: u64, bytes: &[u8], what: &str) {
        let case = self.coq.len();
        let desc = self.desc("truncations", fmt, bytes, what);
        let mut classes = vec![];
        for k in 0..=bytes.len() {
            let o = self.eval(case, fmt, &bytes[..k], &desc);
            classes.push(o.class);
        }
        self.summary.count("kind", "truncations");
        self.summary.count("format", fmt_name(fmt));
        if self.summary.samples.len() < 4 && bytes.len() < 150 {
            self.summary.samples.push(desc.clone());
        }
        self.summary.case_descs.push(desc);
        self.coq.push(format!("KTrunc {} {} {}", fmt, g_bytes(bytes), gal::nlist(&classes)));
    }

    fn one(&mut self, kind: &str, fmt: u64, bytes: &[u8], what: &str) {
        let case = self.coq.len();
        let desc = self.desc(kind, fmt, bytes, what);
        let o = self.eval(case, fmt, bytes, &desc);
        self.summary.count("kind", kind);
        self.summary.count("format", fmt_name(fmt));
        if self.summary.samples.len() < 8 && o.class == 2 && bytes.len() < 150 {
            self.summary.samples.push(desc.clone());
        }
        self.summary.case_descs.push(desc);
        self.coq.push(format!("KOne {} {} {} {}", fmt, g_bytes(bytes), o.class, g_bytes(&o.reenc)));
    }
}

fn generalise(msg: &str) -> String {
    // numbers out of panic messages so that they can be listed as a set
    let mut out = String::new();
    let mut in_num = false;
    for c in msg.chars() {
        if c.is_ascii_digit() {
            if !in_num {
                out.push('N');
            }
            in_num = true;
        } else {
            in_num = false;
            out.push(c);
        }
    }
    out
}

/// (offset, width) of the length / count / tag fields of a valid encoding
fn tx_fields(base: usize, b: &[u8]) -> Vec<(usize, usize)> {
    let mut v = vec![(base, 4), (base + 4, 4), (base + 8, 4), (base + 12, 4), (base + 92, 1)];
    let nin = be32(b, base).unwrap_or(0) as usize;
    let nout = be32(b, base + 4).unwrap_or(0) as usize;
    for i in 0..(nin + nout).min(4) {
        v.push((base + 93 + 59 * i + 58, 1)); // slip type
    }
    v
}
fn tx_len_at(b: &[u8], off: usize) -> usize {
    93 + (be32(b, off).unwrap() + be32(b, off + 4).unwrap()) as usize * 59 + be32(b, off + 8).unwrap() as usize + be32(b, off + 12).unwrap() as usize * 130
}
fn block_fields(base: usize, b: &[u8]) -> Vec<(usize, usize)> {
    let mut v = vec![(base, 4), (base + 4, 8)];
    let n = be32(b, base).unwrap_or(0) as usize;
    let mut off = base + 389;
    for _ in 0..n.min(3) {
        if off + 16 > b.len() {
            break;
        }
        v.extend(tx_fields(off, b));
        off += tx_len_at(b, off);
    }
    v
}
fn fields_of(fmt: u64, b: &[u8]) -> Vec<(usize, usize)> {
    match fmt {
        F_SLIP => vec![(57, 1), (58, 1)],
        F_TX => tx_fields(0, b),
        F_BLOCK => block_fields(0, b),
        F_HS_RESPONSE => vec![(137, 1), (138, 4), (0, 1), (2, 2)],
        F_GHOST => vec![(32, 4)],
        F_API => vec![(0, 4)],
        F_MESSAGE => {
            let mut v = vec![(0, 1)];
            let inner: Vec<(usize, usize)> = match b.first() {
                Some(2) => vec![(138, 1), (139, 4)],
                Some(3) => block_fields(1, b),
                Some(4) => tx_fields(1, b),
                Some(10) => vec![(33, 4)],
                _ => vec![],
            };
            v.extend(inner);
            v
        }
        _ => vec![],
    }
}
/// start offsets of the sections (fields, slips, hops, payloads, embedded transactions) of a valid encoding
fn tx_bounds(base: usize, b: &[u8]) -> Vec<usize> {
    let mut v: Vec<usize> = [0usize, 4, 8, 12, 16, 80, 88, 92, 93].iter().map(|x| base + x).collect();
    if b.len() < base + 16 {
        return v;
    }
    let (nin, nout, ml, pl) = (be32(b, base).unwrap() as usize, be32(b, base + 4).unwrap() as usize, be32(b, base + 8).unwrap() as usize, be32(b, base + 12).unwrap() as usize);
    let mut off = base + 93;
    for _ in 0..(nin + nout).min(600) {
        v.extend([off, off + 33, off + 41, off + 49, off + 57, off + 58]);
        off += 59;
    }
    v.push(off);
    off += ml;
    for _ in 0..pl.min(50) {
        v.extend([off, off + 33, off + 66]);
        off += 130;
    }
    v.push(off);
    v
}
fn block_bounds(base: usize, b: &[u8]) -> Vec<usize> {
    let mut v: Vec<usize> = [0usize, 4, 12, 20, 52, 85, 117].iter().map(|x| base + x).collect();
    v.extend((0..=26).map(|i| base + 181 + 8 * i));
    let n = be32(b, base).unwrap_or(0) as usize;
    let mut off = base + 389;
    for _ in 0..n.min(8) {
        if off + 16 > b.len() {
            break;
        }
        v.extend(tx_bounds(off, b));
        off += tx_len_at(b, off);
    }
    v
}
fn section_bounds(fmt: u64, b: &[u8]) -> Vec<usize> {
    let mut v = match fmt {
        F_SLIP => vec![0, 33, 41, 49, 57, 58],
        F_HOP => vec![0, 33, 66],
        F_TX => tx_bounds(0, b),
        F_BLOCK => block_bounds(0, b),
        F_HS_CHALLENGE => vec![0],
        F_HS_RESPONSE => {
            let mut v = vec![0, 1, 2, 4, 5, 6, 8, 41, 105, 137, 138, 142];
            if let Some(u) = be32(b, 138) {
                v.push(142 + u as usize);
            }
            v
        }
        F_BC_REQUEST => vec![0, 8, 40],
        F_GHOST => {
            let mut v = vec![0, 32, 36];
            let c = be32(b, 32).unwrap_or(0) as usize;
            for m in [32usize, 64, 72, 80, 81, 82] {
                v.push(36 + c * m);
            }
            v
        }
        F_API => vec![0, 4],
        F_VERSION => vec![0, 1, 2],
        F_GT => vec![0, 32, 64],
        F_WALLET => vec![0, 32],
        F_MESSAGE => {
            let mut v = vec![0, 1];
            match b.first() {
                Some(3) => v.extend(block_bounds(1, b)),
                Some(4) => v.extend(tx_bounds(1, b)),
                Some(2) => v.extend([9usize, 42, 106, 138, 139, 143]),
                Some(6) => v.extend([33usize]),
                Some(11) => v.extend([9usize, 41]),
                Some(15) => v.extend((0..b.len() / 33).map(|i| 1 + 33 * i)),
                _ => {}
            }
            v
        }
        _ => vec![0],
    };
    v.push(b.len());
    v.sort();
    v.dedup();
    v
}

fn corruption_values(len: usize, width: usize, orig: u64) -> Vec<u64> {
    let l = len as u64;
    let mut v = vec![0, 1, l.saturating_sub(1), l, l + 1, 255, 256, 65535, 1u64 << 31, u32::MAX as u64, 9, 10, 16, 128,
                     orig.wrapping_sub(1), orig.wrapping_add(1), orig.wrapping_add(2), orig / 2, orig.wrapping_mul(2)];
    let max = if width >= 8 { u64::MAX } else { (1u64 << (8 * width)) - 1 };
    for x in v.iter_mut() {
        *x &= max;
    }
    v.sort();
    v.dedup();
    v
}
fn put(b: &mut [u8], off: usize, width: usize, val: u64) {
    let be = val.to_be_bytes();
    b[off..off + width].copy_from_slice(&be[8 - width..]);
}

/// valid encodings of every format: (format id, bytes, description)
fn bases(rng: &mut Rng, thorough: bool) -> Vec<(u64, Vec<u8>, String)> {
    let mut v: Vec<(u64, Vec<u8>, String)> = vec![];
    v.push((F_SLIP, gen_slip(rng, 3).serialize_for_net(), "slip".into()));
    v.push((F_HOP, gen_hop(rng).serialize_for_net(), "hop".into()));
    let shapes: Vec<(usize, usize, usize, usize)> = if thorough {
        vec![(0, 0, 0, 0), (1, 1, 0, 0), (2, 1, 33, 1), (0, 2, 7, 2), (3, 3, 120, 0), (1, 0, 0, 3), (5, 4, 300, 2)]
    } else {
        vec![(0, 0, 0, 0), (1, 1, 5, 0), (2, 1, 33, 1), (0, 2, 7, 2), (3, 2, 64, 0), (1, 0, 0, 3)]
    };
    for (k, (nf, nt, nd, nh)) in shapes.iter().enumerate() {
        let t = gen_tx(rng, *nf, *nt, *nd, *nh, k);
        v.push((F_TX, t.serialize_for_net(), format!("tx from={} to={} data={} hops={}", nf, nt, nd, nh)));
    }
    for ntx in [0usize, 1, 3] {
        let txs: Vec<Transaction> = (0..ntx).map(|j| gen_tx(rng, j % 2 + 1, 1, 11 * j, j % 2, j)).collect();
        let b = gen_block(rng, txs);
        v.push((F_BLOCK, b.serialize_for_net(BlockType::Full), format!("block txs={}", ntx)));
        if ntx == 1 {
            v.push((F_BLOCK, b.serialize_for_net(BlockType::Header), "block header-only".into()));
        }
    }
    v.push((F_HS_CHALLENGE, HandshakeChallenge { challenge: rbytes::<32>(rng) }.serialize(), "challenge".into()));
    v.push((F_HS_RESPONSE, gen_hs_response(rng, "", 0).serialize(), "response no url no services".into()));
    v.push((F_HS_RESPONSE, gen_hs_response(rng, "http://saito.io/b/", 2).serialize(), "response url services".into()));
    v.push((F_HS_RESPONSE, gen_hs_response(rng, "", 1).serialize(), "response services only".into()));
    {
        let (id, h, f) = (extreme_u64(rng), rbytes::<32>(rng), rbytes::<32>(rng));
        v.push((F_BC_REQUEST, [id.to_be_bytes().as_slice(), h.as_slice(), f.as_slice()].concat(), "request".into()));
    }
    for n in [0usize, 1, 3] {
        v.push((F_GHOST, gen_ghost(rng, n).serialize(), format!("ghost count={}", n)));
    }
    v.push((F_API, gen_api(rng, 9).serialize(), "api".into()));
    v.push((F_SERVICES, PeerService::serialize_services(&gen_services(rng, 3)), "services".into()));
    v.push((F_SERVICES, b"a|b|c;;d|e|f;".to_vec(), "services with empty segments".into()));
    v.push((F_VERSION, gen_version(rng).serialize(), "version".into()));
    v.push((F_GT, GoldenTicket::new(rbytes::<32>(rng), rbytes::<32>(rng), rbytes::<33>(rng)).serialize_for_net(), "golden ticket".into()));
    v.push((F_WALLET, Wallet::new(rbytes::<32>(rng), rbytes::<33>(rng)).serialize_for_disk(), "wallet".into()));
    // one message per tag
    let mut msgs: Vec<Message> = vec![];
    msgs.push(Message::HandshakeChallenge(HandshakeChallenge { challenge: rbytes::<32>(rng) }));
    msgs.push(Message::HandshakeResponse(gen_hs_response(rng, "ws://x/", 1)));
    {
        let txs = vec![gen_tx(rng, 1, 1, 4, 0, 0), gen_tx(rng, 0, 1, 0, 1, 2)];
        msgs.push(Message::Block(gen_block(rng, txs)));
    }
    msgs.push(Message::Transaction(gen_tx(rng, 1, 2, 9, 1, 1)));
    {
        let (id, h, f) = (extreme_u64(rng), rbytes::<32>(rng), rbytes::<32>(rng));
        let bytes = [id.to_be_bytes().as_slice(), h.as_slice(), f.as_slice()].concat();
        if let Ok(r) = BlockchainRequest::deserialize(&bytes) {
            msgs.push(Message::BlockchainRequest(r));
        }
        msgs.push(Message::BlockHeaderHash(h, id));
        msgs.push(Message::GhostChainRequest(id, h, f));
    }
    msgs.push(Message::Ping());
    msgs.push(Message::SPVChain());
    msgs.push(Message::Services(gen_services(rng, 2)));
    msgs.push(Message::GhostChain(gen_ghost(rng, 2)));
    msgs.push(Message::ApplicationMessage(gen_api(rng, 6)));
    msgs.push(Message::Result(gen_api(rng, 0)));
    msgs.push(Message::Error(gen_api(rng, 3)));
    msgs.push(Message::KeyListUpdate(vec![rbytes::<33>(rng), rbytes::<33>(rng)]));
    for m in msgs {
        v.push((F_MESSAGE, m.serialize(), format!("message {}", message_tag_name(&m))));
    }
    v
}

const HEADER: &str = "From Saito Require Import Base Bytes Codec.
From Coq Require Import String.
Inductive kase :=
| KTrunc (fmt : N) (bs : list N) (classes : list N)
| KOne (fmt : N) (bs : list N) (class : N) (reenc : list N).
Fixpoint trunc_ok (fmt : N) (bs : list N) (k : N) (cls : list N) : bool :=
  match cls with
  | [] => true
  | c :: r => (decoder_class fmt (firstn (N.to_nat k) bs) =? c) && trunc_ok fmt bs (k + 1) r
  end.
Definition check (c : kase) : bool :=
  match c with
  | KTrunc f bs cls => trunc_ok f bs 0 cls && (Nlen cls =? Nlen bs + 1)
  | KOne f bs c re => let r := run_decoder f bs in (fst r =? c) && beq (snd r) re
  end.";

fn main() {
    let args = Args::parse();
    let mut rng = Rng::new(args.seed);
    let thorough = args.tier == "thorough";
    if std::env::var("VERIF_PANIC").is_err() {
        std::panic::set_hook(Box::new(|_| {}));
    }
    let mut ctx = Ctx {
        summary: Summary::new("C10"),
        coq: vec![],
        distinct: BTreeSet::new(),
        calls: 0,
        max_excess: 0,
        panics_seen: BTreeSet::new(),
        hits_per_id: Default::default(),
    };
    let all = bases(&mut rng, thorough);

    // 1. every truncation of every valid encoding
    // (GoldenTicket::deserialize_from_net is no wire decoder any more: it keeps its
    // assert as an internal invariant and is exercised with 97-byte inputs only, and
    // through the transaction / block / message decoders on every payload)
    for (fmt, bytes, what) in all.iter() {
        if *fmt == F_GT {
            ctx.one("precondition-input", F_GT, bytes, what);
            continue;
        }
        ctx.truncations(*fmt, bytes, what);
    }
    // 2. every length / count / tag field set to boundary values
    for (fmt, bytes, what) in all.iter() {
        for (off, width) in fields_of(*fmt, bytes) {
            if off + width > bytes.len() {
                continue;
            }
            let mut be = [0u8; 8];
            be[8 - width..].copy_from_slice(&bytes[off..off + width]);
            for val in corruption_values(bytes.len(), width, u64::from_be_bytes(be)) {
                let mut m = bytes.clone();
                put(&mut m, off, width, val);
                if m == *bytes {
                    continue;
                }
                ctx.one("field-corruption", *fmt, &m, &format!("{}: field at {} (width {}) := {}", what, off, width, val));
            }
        }
    }
    // 2b. first and last byte of every section (field, slip, hop, payload, embedded transaction) inverted
    for (fmt, bytes, what) in all.iter() {
        let mut done: BTreeSet<usize> = BTreeSet::new();
        for start in section_bounds(*fmt, bytes) {
            for pos in [start as i64, start as i64 - 1] {
                if pos < 0 || pos as usize >= bytes.len() || !done.insert(pos as usize) {
                    continue;
                }
                let mut m = bytes.clone();
                m[pos as usize] ^= 0xFF;
                ctx.one("section-edge", *fmt, &m, &format!("{}: byte {} (edge of a section) inverted", what, pos));
            }
        }
    }
    // 3. appended garbage and single byte flips
    for (fmt, bytes, what) in all.iter() {
        if *fmt != F_GT {
            let mut m = bytes.clone();
            let extra = 1 + rng.below(40) as usize;
            m.extend(rvec(&mut rng, extra));
            ctx.one("trailing-bytes", *fmt, &m, what);
        }
        let flips = if thorough { 200 } else { 16 };
        for _ in 0..flips {
            if bytes.is_empty() {
                break;
            }
            let mut m = bytes.clone();
            let i = rng.below(m.len() as u64) as usize;
            m[i] ^= 1 << rng.below(8);
            ctx.one("bit-flip", *fmt, &m, &format!("{}: bit flipped in byte {}", what, i));
        }
    }
    // 4. random strings for every decoder, with every message tag in front
    let nrand = if thorough { 1800 } else { 160 };
    for fmt in 1..=14u64 {
        for k in 0..nrand {
            if fmt == F_GT {
                // precondition of the function: exactly 97 bytes
                let b = rvec(&mut rng, 97);
                ctx.one("random", fmt, &b, "random 97 bytes");
                if k >= 10 {
                    break;
                }
                continue;
            }
            let len = match k % 4 {
                0 => rng.below(8),
                1 => rng.below(100),
                2 => 30 + rng.below(200),
                _ => 380 + rng.below(60),
            } as usize;
            let mut b = rvec(&mut rng, len);
            if fmt == F_MESSAGE && !b.is_empty() {
                b[0] = (k % 17) as u8;
            }
            if (fmt == F_TX || fmt == F_BLOCK) && b.len() >= 16 && k % 2 == 0 {
                // small counts so that the loops are entered
                for off in [0usize, 4, 8, 12] {
                    b[off] = 0;
                    b[off + 1] = 0;
                    b[off + 2] = 0;
                    b[off + 3] = rng.below(3) as u8;
                }
            }
            if fmt == F_SERVICES {
                for x in b.iter_mut() {
                    *x = *rng.pick(&[b'a', b'|', b';', b'z', 0xc3, 0xa9, 0xff, b'0']);
                }
            }
            ctx.one("random", fmt, &b, "random bytes");
        }
    }
    // 5. the specific inputs named in the property text
    {
        let t = gen_tx(&mut rng, 1, 1, 5, 0, 0).serialize_for_net();
        ctx.one("named", F_TX, &t[..93], "transaction buffer cut right after its 93-byte header");
        let mut m = vec![4u8];
        m.extend_from_slice(&t[..93]);
        ctx.one("named", F_MESSAGE, &m, "Transaction message cut right after the 93-byte header");
        let g = gen_ghost(&mut rng, 2).serialize();
        ctx.one("named", F_GHOST, &g[..35], "chain-sync message shorter than 36 bytes");
        ctx.one("named", F_MESSAGE, &[10u8, 1, 2, 3], "GhostChain message with a 3-byte payload");
        let mut big = g.clone();
        put(&mut big, 32, 4, u32::MAX as u64);
        ctx.one("named", F_GHOST, &big, "chain-sync message with count 2^32-1");
        // golden tickets reach GoldenTicket::deserialize_from_net only as payload of a decoded transaction
        for n in [0usize, 96, 97, 98] {
            let mut gt_tx = gen_tx(&mut rng, 1, 1, 0, 0, 2);
            gt_tx.data = rvec(&mut rng, n);
            let b = gt_tx.serialize_for_net();
            ctx.one("named", F_TX, &b, &format!("GoldenTicket-type transaction with a {}-byte payload", n));
            let mut m = vec![4u8];
            m.extend_from_slice(&b);
            ctx.one("named", F_MESSAGE, &m, &format!("Transaction message, GoldenTicket type, {}-byte payload", n));
            let blk = gen_block(&mut rng, vec![gt_tx]).serialize_for_net(BlockType::Full);
            ctx.one("named", F_BLOCK, &blk, &format!("block carrying a GoldenTicket-type transaction with a {}-byte payload", n));
        }
        ctx.one("named", F_WALLET, &[1u8; 64], "wallet file of 64 bytes");
        ctx.one("named", F_API, &[1u8; 3], "api message of 3 bytes");
    }

    ctx.summary.evaluations = ctx.calls;
    ctx.summary.notes.push(format!(
        "{} decoder calls in {} cases; allocation bound {}*len+{} never exceeded: max observed (bytes requested during one decoder call) - {}*len = {}",
        ctx.calls,
        ctx.coq.len(),
        ALLOC_C,
        ALLOC_D,
        ALLOC_C,
        ctx.max_excess
    ));
    let seen: Vec<String> = ctx.panics_seen.iter().cloned().collect();
    ctx.summary.notes.push(format!("panic messages seen inside the known classes: {}", seen.join(" || ")));
    let files = gal::write_shards(&format!("{}/cases", args.out), "C10", HEADER, "kase", &ctx.coq, args.shards).unwrap();
    ctx.summary.case_files = files;
    ctx.summary.write(&args.out);
}
