//! C11 — no sequence of peer inputs crashes or stalls the node.
//!
//! Two REAL saito-core nodes live in this process: N (key 1, the node under
//! test, no static peers) and B (key 2, honest remote node, N is its static
//! peer).  Each is the real `RoutingThread` + `VerificationThread` +
//! `ConsensusThread` wired exactly as saito-rust/src/main.rs and NodeTester do
//! (shared blockchain / mempool / wallet / configuration / peer locks, mpsc
//! channels, `Network` and `Storage` over an in-memory `InterfaceIO`), driven
//! single-threaded: an event is handed to a handler, then every channel and the
//! in-memory "wire" between N and B is drained until nothing moves (`pump`).
//!
//! The environment is (i) honest traffic produced by B (real handshake, real
//! chain sync, announced and fetched blocks, transactions) and (ii) an attacker
//! who owns connections 2, 3, 4 (and speaks on the never-connected index 9) and
//! keys 3 and 4, and delivers decodable but hostile messages of every tag,
//! answers N's block fetches with hostile buffers, connects / disconnects at
//! will.  Every handler call runs under `catch_unwind`; the cases run in a child
//! process that a supervisor watches (a case step that does not finish within
//! the budget is a stall; the child is killed and restarted after the case).
//!
//! Direct oracle: no panic, no stall, and after an input that must be rejected
//! the state honest peers rely on (other peers' entries, address map, chain,
//! ledger, pool, wallet) is unchanged (digest before / after).
//! Model tie: the message-level decisions (unknown peer, rate limiters,
//! undecodable buffer, dispatch per tag, missing key, golden-ticket payload
//! length) are compared step by step with coq/model/Handlers.v.
use std::collections::{BTreeMap, BTreeSet, HashMap};
use std::io::{BufRead, BufReader, Write};
use std::panic::AssertUnwindSafe;
use std::sync::atomic::{AtomicU64, Ordering};
use std::sync::{Arc, Mutex};
use std::time::Duration;

use saito_core::core::consensus::block::{Block, BlockType, BLOCK_HEADER_SIZE};
use saito_core::core::consensus::blockchain::Blockchain;
use saito_core::core::consensus::blockchain_sync_state::BlockchainSyncState;
use saito_core::core::consensus::golden_ticket::GoldenTicket;
use saito_core::core::consensus::mempool::Mempool;
use saito_core::core::consensus::peers::peer::PeerStatus;
use saito_core::core::consensus::peers::peer_collection::PeerCollection;
use saito_core::core::consensus::peers::peer_service::PeerService;
use saito_core::core::consensus::slip::{Slip, SlipType};
use saito_core::core::consensus::transaction::{Transaction, TransactionType};
use saito_core::core::consensus::wallet::Wallet;
use saito_core::core::consensus_thread::{ConsensusEvent, ConsensusStats, ConsensusThread};
use saito_core::core::defs::{
    SaitoHash, SaitoPrivateKey, SaitoPublicKey, StatVariable, STAT_BIN_COUNT,
};
use saito_core::core::io::network::{Network, PeerDisconnectType};
use saito_core::core::io::network_event::NetworkEvent;
use saito_core::core::io::storage::Storage;
use saito_core::core::mining_thread::MiningEvent;
use saito_core::core::msg::api_message::ApiMessage;
use saito_core::core::msg::block_request::BlockchainRequest;
use saito_core::core::msg::ghost_chain_sync::GhostChainSync;
use saito_core::core::msg::handshake::{HandshakeChallenge, HandshakeResponse};
use saito_core::core::msg::message::Message;
use saito_core::core::process::keep_time::{KeepTime, Timer};
use saito_core::core::process::process_event::ProcessEvent;
use saito_core::core::process::version::Version;
use saito_core::core::routing_thread::{RoutingEvent, RoutingStats, RoutingThread};
use saito_core::core::util::configuration::{Configuration, PeerConfig};
use saito_core::core::util::crypto::{hash, sign};
use saito_core::core::util::serialize::Serialize;
use saito_core::core::verification_thread::{VerificationThread, VerifyRequest};
use tokio::sync::mpsc::Receiver;
use tokio::sync::RwLock;
use verif_harness::chainsim::futures_catch;
use verif_harness::common::{jstr, Args, Summary};
use verif_harness::gal;
use verif_harness::rng::Rng;
use verif_harness::world::{
    keypair, make_block, make_genesis, make_tx, mine_golden_ticket, Disk, MemIo, Node, Params,
};

const CVER: (u8, u8, u16) = (1, 2, 3);
const WVER: (u8, u8, u16) = (1, 2, 5);
const T0: u64 = 1_000_000; // genesis timestamp
const HEARTBEAT: u64 = 100;
const CHANNEL: usize = 1_000_000;
/// index of B at N, and of N at B
const IDX_B: u64 = 1;
/// attacker connections at N
const ATT_CONNS: [u64; 3] = [2, 3, 4];
const IDX_NEVER: u64 = 9;

// ------------------------------------------------------------------ clock, log, panic capture

struct Clock(AtomicU64);
impl KeepTime for Clock {
    fn get_timestamp_in_ms(&self) -> u64 {
        self.0.load(Ordering::SeqCst)
    }
}

/// a logger that formats every record of saito-core (as a node running with RUST_LOG=trace does)
/// and throws the text away: the arguments of `debug!`/`trace!` are evaluated, nothing is printed
struct EvalLogger;
static EVAL_ON: AtomicU64 = AtomicU64::new(0);
impl log::Log for EvalLogger {
    fn enabled(&self, _m: &log::Metadata) -> bool {
        EVAL_ON.load(Ordering::Relaxed) != 0
    }
    fn log(&self, r: &log::Record) {
        if EVAL_ON.load(Ordering::Relaxed) != 0 && r.target().starts_with("saito") {
            let s = format!("{}", r.args());
            if EVAL_ON.load(Ordering::Relaxed) == 2 {
                eprintln!("[{}] {}", r.level(), s);
            }
            std::hint::black_box(&s);
        }
    }
    fn flush(&self) {}
}
static LOGGER: EvalLogger = EvalLogger;

static LAST_PANIC: Mutex<Option<(String, String)>> = Mutex::new(None);

fn install_panic_hook(verbose: bool) {
    std::panic::set_hook(Box::new(move |info| {
        let loc = info
            .location()
            .map(|l| format!("{}:{}", l.file(), l.line()))
            .unwrap_or_else(|| "?".to_string());
        let msg = if let Some(s) = info.payload().downcast_ref::<String>() {
            s.clone()
        } else if let Some(s) = info.payload().downcast_ref::<&str>() {
            s.to_string()
        } else {
            "?".to_string()
        };
        if verbose {
            eprintln!("PANIC at {}: {}", loc, msg);
        }
        if let Ok(mut g) = LAST_PANIC.lock() {
            *g = Some((loc, msg));
        }
    }));
}

#[derive(Clone, Debug)]
struct PanicRec {
    /// "N" or "B"
    node: String,
    /// handler that was running
    handler: String,
    /// source file (path inside the repository) and line
    loc: String,
    msg: String,
}

// ------------------------------------------------------------------ one real node

struct Sut {
    name: &'static str,
    pk: SaitoPublicKey,
    sk: SaitoPrivateKey,
    routing: RoutingThread,
    verification: VerificationThread,
    consensus: ConsensusThread,
    rx_verif: Receiver<VerifyRequest>,
    rx_cons: Receiver<ConsensusEvent>,
    rx_router: Receiver<RoutingEvent>,
    rx_miner: Receiver<MiningEvent>,
    rx_stat: Receiver<String>,
    blockchain: Arc<RwLock<Blockchain>>,
    mempool: Arc<RwLock<Mempool>>,
    wallet: Arc<RwLock<Wallet>>,
    peers: Arc<RwLock<PeerCollection>>,
    disk: Arc<Mutex<Disk>>,
    clock: Arc<Clock>,
    /// last (hash, difficulty, id) told to the miner
    miner_target: Option<(SaitoHash, u64, u64)>,
    /// block files already indexed (file name -> hash)
    seen_files: BTreeSet<String>,
    calls: u64,
}

fn mkver(v: (u8, u8, u16)) -> Version {
    Version::new(v.0, v.1, v.2)
}

fn new_sut(name: &'static str, key: u8, params: &Params, static_peer: bool, spv: bool) -> Sut {
    let (pk, sk) = keypair(key);
    let mut w = Wallet::new(sk, pk);
    w.core_version = mkver(CVER);
    w.wallet_version = mkver(WVER);
    let wallet = Arc::new(RwLock::new(w));
    let mut c = params.cfg();
    c.spv = spv;
    c.fetch_url = format!("http://{}:12101", name);
    if static_peer {
        c.peers.push(PeerConfig {
            host: "nodeN".to_string(),
            port: 12101,
            protocol: "http".to_string(),
            synctype: "full".to_string(),
        });
    }
    let cfg: Arc<RwLock<dyn Configuration + Send + Sync>> = Arc::new(RwLock::new(c));
    let peers = Arc::new(RwLock::new(PeerCollection::default()));
    let disk = Arc::new(Mutex::new(Disk::default()));
    let clock = Arc::new(Clock(AtomicU64::new(T0)));
    let timer = Timer { time_reader: clock.clone(), hasten_multiplier: 1, start_time: 0 };
    let blockchain = Arc::new(RwLock::new(Blockchain::new(
        wallet.clone(),
        params.genesis_period,
        params.social_stake,
        params.social_stake_period,
    )));
    let mempool = Arc::new(RwLock::new(Mempool::new(wallet.clone())));
    let (tx_cons, rx_cons) = tokio::sync::mpsc::channel(CHANNEL);
    let (tx_router, rx_router) = tokio::sync::mpsc::channel(CHANNEL);
    let (tx_miner, rx_miner) = tokio::sync::mpsc::channel(CHANNEL);
    let (tx_stat, rx_stat) = tokio::sync::mpsc::channel(CHANNEL);
    let (tx_verif, rx_verif) = tokio::sync::mpsc::channel(CHANNEL);
    let io = || Box::new(MemIo::new(disk.clone()));
    let net = || Network::new(io(), peers.clone(), wallet.clone(), cfg.clone(), timer.clone());
    let sv = |n: &str| StatVariable::new(n.to_string(), STAT_BIN_COUNT, tx_stat.clone());
    let routing = RoutingThread {
        blockchain_lock: blockchain.clone(),
        mempool_lock: mempool.clone(),
        sender_to_consensus: tx_cons.clone(),
        sender_to_miner: tx_miner.clone(),
        config_lock: cfg.clone(),
        timer: timer.clone(),
        wallet_lock: wallet.clone(),
        network: net(),
        storage: Storage::new(io()),
        reconnection_timer: 0,
        peer_removal_timer: 0,
        peer_file_write_timer: 0,
        last_emitted_block_fetch_count: 0,
        stats: RoutingStats::new(tx_stat.clone()),
        senders_to_verification: vec![tx_verif.clone()],
        last_verification_thread_index: 0,
        stat_sender: tx_stat.clone(),
        blockchain_sync_state: BlockchainSyncState::new(10),
    };
    let consensus = ConsensusThread {
        mempool_lock: mempool.clone(),
        blockchain_lock: blockchain.clone(),
        wallet_lock: wallet.clone(),
        generate_genesis_block: false,
        sender_to_router: tx_router.clone(),
        sender_to_miner: tx_miner.clone(),
        block_producing_timer: 0,
        timer: timer.clone(),
        network: net(),
        storage: Storage::new(io()),
        stats: ConsensusStats::new(tx_stat.clone()),
        txs_for_mempool: vec![],
        stat_sender: tx_stat.clone(),
        config_lock: cfg.clone(),
        produce_blocks_by_timer: true,
        delete_old_blocks: true,
    };
    let verification = VerificationThread {
        sender_to_consensus: tx_cons.clone(),
        blockchain_lock: blockchain.clone(),
        peer_lock: peers.clone(),
        wallet_lock: wallet.clone(),
        processed_txs: sv("verification::processed_txs"),
        processed_blocks: sv("verification::processed_blocks"),
        processed_msgs: sv("verification::processed_msgs"),
        invalid_txs: sv("verification::invalid_txs"),
        stat_sender: tx_stat.clone(),
    };
    Sut {
        name,
        pk,
        sk,
        routing,
        verification,
        consensus,
        rx_verif,
        rx_cons,
        rx_router,
        rx_miner,
        rx_stat,
        blockchain,
        mempool,
        wallet,
        peers,
        disk,
        clock,
        miner_target: None,
        seen_files: BTreeSet::new(),
        calls: 0,
    }
}

fn take_panic(node: &str, handler: &str, fallback: String) -> PanicRec {
    let (loc, msg) = LAST_PANIC.lock().unwrap().take().unwrap_or(("?".to_string(), fallback));
    // keep the path inside the repository only
    let loc = match loc.find("saito-core/") {
        Some(p) => loc[p..].to_string(),
        None => loc,
    };
    PanicRec { node: node.to_string(), handler: handler.to_string(), loc, msg }
}

impl Sut {
    async fn on_init(&mut self) -> Result<(), PanicRec> {
        let n = self.name;
        futures_catch(AssertUnwindSafe(self.consensus.on_init())).await.map_err(|m| take_panic(n, "consensus::on_init", m))?;
        futures_catch(AssertUnwindSafe(self.routing.on_init())).await.map_err(|m| take_panic(n, "routing::on_init", m))?;
        Ok(())
    }
    async fn net_event(&mut self, ev: NetworkEvent) -> Result<Option<()>, PanicRec> {
        self.calls += 1;
        let n = self.name;
        let h = match &ev {
            NetworkEvent::IncomingNetworkMessage { .. } => "routing::process_network_event(IncomingNetworkMessage)",
            NetworkEvent::PeerConnectionResult { .. } => "routing::process_network_event(PeerConnectionResult)",
            NetworkEvent::PeerDisconnected { .. } => "routing::process_network_event(PeerDisconnected)",
            NetworkEvent::BlockFetched { .. } => "routing::process_network_event(BlockFetched)",
            NetworkEvent::BlockFetchFailed { .. } => "routing::process_network_event(BlockFetchFailed)",
            _ => "routing::process_network_event(other)",
        };
        futures_catch(AssertUnwindSafe(self.routing.process_network_event(ev))).await.map_err(|m| take_panic(n, h, m))
    }
    async fn timer(&mut self, ms: u64) -> Result<(), PanicRec> {
        let n = self.name;
        let d = Duration::from_millis(ms);
        self.calls += 2;
        futures_catch(AssertUnwindSafe(self.routing.process_timer_event(d))).await.map_err(|m| take_panic(n, "routing::process_timer_event", m))?;
        futures_catch(AssertUnwindSafe(self.consensus.process_timer_event(d))).await.map_err(|m| take_panic(n, "consensus::process_timer_event", m))?;
        Ok(())
    }
    /// drains the internal channels once; returns whether anything was handled
    async fn drain_internal(&mut self) -> Result<bool, PanicRec> {
        let n = self.name;
        let mut any = false;
        while let Ok(req) = self.rx_verif.try_recv() {
            any = true;
            self.calls += 1;
            let h = match &req {
                VerifyRequest::Transaction(_) => "verification::process_event(Transaction)",
                VerifyRequest::Transactions(_) => "verification::process_event(Transactions)",
                VerifyRequest::Block(..) => "verification::process_event(Block)",
            };
            futures_catch(AssertUnwindSafe(self.verification.process_event(req))).await.map_err(|m| take_panic(n, h, m))?;
        }
        while let Ok(ev) = self.rx_cons.try_recv() {
            any = true;
            self.calls += 1;
            let h = match &ev {
                ConsensusEvent::NewGoldenTicket { .. } => "consensus::process_event(NewGoldenTicket)",
                ConsensusEvent::BlockFetched { .. } => "consensus::process_event(BlockFetched)",
                ConsensusEvent::NewTransaction { .. } => "consensus::process_event(NewTransaction)",
                ConsensusEvent::NewTransactions { .. } => "consensus::process_event(NewTransactions)",
            };
            futures_catch(AssertUnwindSafe(self.consensus.process_event(ev))).await.map_err(|m| take_panic(n, h, m))?;
        }
        while let Ok(ev) = self.rx_router.try_recv() {
            any = true;
            self.calls += 1;
            let h = match &ev {
                RoutingEvent::BlockchainUpdated(_) => "routing::process_event(BlockchainUpdated)",
                RoutingEvent::BlockFetchRequest(..) => "routing::process_event(BlockFetchRequest)",
                RoutingEvent::BlockchainRequest(_) => "routing::process_event(BlockchainRequest)",
            };
            futures_catch(AssertUnwindSafe(self.routing.process_event(ev))).await.map_err(|m| take_panic(n, h, m))?;
        }
        while let Ok(ev) = self.rx_miner.try_recv() {
            let MiningEvent::LongestChainBlockAdded { hash, difficulty, block_id } = ev;
            self.miner_target = Some((hash, difficulty, block_id));
        }
        while self.rx_stat.try_recv().is_ok() {}
        Ok(any)
    }
    /// block files this node has written since the last call: (hash, wire bytes)
    fn new_block_files(&mut self) -> Vec<(SaitoHash, Vec<u8>)> {
        let d = self.disk.lock().unwrap();
        let mut out = vec![];
        for (k, v) in d.files.iter() {
            if k.ends_with(".sai") && !self.seen_files.contains(k) {
                self.seen_files.insert(k.clone());
                if let Ok(mut b) = Block::deserialize_from_net(v) {
                    if b.generate().is_ok() {
                        out.push((b.hash, v.clone()));
                    }
                }
            }
        }
        out
    }
}


// ------------------------------------------------------------------ the world: N, B, the attacker, the wire

#[derive(Clone, Debug, Default)]
struct AttConn {
    connected: bool,
    /// last challenge N put on the wire for this connection
    challenge: Option<[u8; 32]>,
    /// key the attacker completed a handshake with on this connection
    key: Option<u8>,
}

#[derive(Clone, Debug)]
struct Fetch {
    hash: SaitoHash,
    idx: u64,
    id: u64,
}

struct World {
    n: Sut,
    b: Sut,
    /// follows the chain N and B agree on; builds B's honest blocks (key 2)
    builder: Node,
    /// the attacker's copy of the chain (key 3) for building hostile blocks
    abuilder: Node,
    buffers: HashMap<SaitoHash, Vec<u8>>,
    /// (hash, id, timestamp) of honest chain blocks in order
    chain: Vec<(SaitoHash, u64, u64)>,
    now: u64,
    link: bool,
    /// B may (re)connect when its reconnect timer fires
    b_may_connect: bool,
    att: BTreeMap<u64, AttConn>,
    pending_fetches: Vec<Fetch>,
    b_slips: Vec<Slip>,
    a_slips: Vec<Slip>,
    gt_seed: u64,
    /// messages N sent towards attacker connections (tag counts)
    to_attacker: BTreeMap<u8, u64>,
    /// disconnect requests N issued during the current step
    n_disconnects: Vec<u64>,
    handler_calls_in_step: u64,
    /// events N received from the attacker, and N's routing timer events, for the Coq model
    trace: Vec<MEv>,
    /// a panic of B outside the pump (while it adds the block it just produced)
    b_panic: Option<PanicRec>,
    /// an attacker block with an unknown parent reached a node that treats it as an orphan
    /// (initial_loading_completed = false, the setting of every real node): C05's finding orphan-branch
    orphan_delivered: bool,
}

const MAX_CALLS_PER_STEP: u64 = 400_000;

#[derive(Debug)]
enum Stop {
    Panic(PanicRec),
    Livelock(String),
}
impl From<PanicRec> for Stop {
    fn from(p: PanicRec) -> Stop {
        Stop::Panic(p)
    }
}

impl World {
    async fn new(params: &Params, n_blocks: usize, spv_n: bool) -> Result<World, String> {
        let n = new_sut("N", 1, params, false, spv_n);
        let b = new_sut("B", 2, params, true, false);
        let mut bp = params.clone();
        bp.initial_loading_completed = false;
        let builder = Node::new(&bp, 2);
        let abuilder = Node::new(&bp, 3);
        let (pk_n, _) = keypair(1);
        let (pk_b, _) = keypair(2);
        let (pk_a, _) = keypair(3);
        let mut issuance = vec![];
        for k in 0..6u64 {
            issuance.push((pk_b, 1_000_000 + 1000 * k));
        }
        for k in 0..6u64 {
            issuance.push((pk_a, 2_000_000 + 1000 * k));
        }
        issuance.push((pk_n, 3_000_000));
        let g = make_genesis(&builder, T0, &issuance).await?;
        let mut w = World {
            n,
            b,
            builder,
            abuilder,
            buffers: HashMap::new(),
            chain: vec![],
            now: T0,
            link: false,
            b_may_connect: false,
            att: BTreeMap::new(),
            pending_fetches: vec![],
            b_slips: (0..6).map(|i| g.transactions[i].to[0].clone()).collect(),
            a_slips: (6..12).map(|i| g.transactions[i].to[0].clone()).collect(),
            gt_seed: 1,
            to_attacker: BTreeMap::new(),
            n_disconnects: vec![],
            handler_calls_in_step: 0,
            trace: vec![],
            b_panic: None,
            orphan_delivered: false,
        };
        for c in ATT_CONNS {
            w.att.insert(c, AttConn::default());
        }
        w.n.on_init().await.map_err(|p| format!("{:?}", p))?;
        w.b.on_init().await.map_err(|p| format!("{:?}", p))?;
        // a node without configured peers and without blocks on disk would mint its own genesis block on
        // the first timer tick; N joins an existing network instead
        w.n.consensus.generate_genesis_block = false;
        w.b.consensus.generate_genesis_block = false;
        w.adopt_block(g, true).await?;
        for _ in 0..n_blocks {
            w.advance(3 * HEARTBEAT);
            let blk = w.honest_block(vec![]).await?;
            w.adopt_block(blk, true).await?;
        }
        Ok(w)
    }

    /// N's timer handlers (routing, then consensus); the routing tick is an input of the model (it resets
    /// limiter windows when it writes the peer state file and purges long-disconnected entries)
    async fn n_timer(&mut self, ms: u64, routing_only: bool) -> Result<(), PanicRec> {
        self.trace.push(MEv { now: self.now, idx: 0, term: format!("ETick {}", gal::n(ms)), outcome: 0, finding: String::new(), repeat: 1 });
        if routing_only {
            let d = Duration::from_millis(ms);
            self.n.calls += 1;
            futures_catch(AssertUnwindSafe(self.n.routing.process_timer_event(d))).await.map_err(|m| take_panic("N", "routing::process_timer_event", m))?;
            Ok(())
        } else {
            self.n.timer(ms).await
        }
    }

    fn advance(&mut self, ms: u64) {
        self.now += ms;
        self.n.clock.0.store(self.now, Ordering::SeqCst);
        self.b.clock.0.store(self.now, Ordering::SeqCst);
    }

    /// next honest block on the builder's tip at time `now`
    async fn honest_block(&mut self, txs: Vec<Transaction>) -> Result<Block, String> {
        let tip = self.builder.blockchain.get_latest_block_hash();
        self.gt_seed += 1;
        if std::env::var("C11_DEBUG").is_ok() {
            eprintln!("honest_block: builder tip {} id {} has {} blocks {}", hex::encode(&tip[..4]), self.builder.blockchain.get_latest_block_id(), self.builder.blockchain.get_block(&tip).is_some(), self.builder.blockchain.blocks.len());
        }
        make_block(&self.builder, tip, self.now, txs, true, self.gt_seed).await
    }

    /// a block becomes part of the world: remembered as wire bytes, added to both builders and
    /// (if `to_b`) handed to B's consensus thread as a locally produced / loaded block
    async fn adopt_block(&mut self, block: Block, to_b: bool) -> Result<(), String> {
        let bytes = block.serialize_for_net(BlockType::Full);
        self.buffers.insert(block.hash, bytes.clone());
        self.chain.push((block.hash, block.id, block.timestamp));
        for nd in [&mut self.builder, &mut self.abuilder] {
            let fresh = Block::deserialize_from_net(&bytes).map_err(|e| format!("{:?}", e))?;
            let r = futures_catch(AssertUnwindSafe(nd.add_block(fresh))).await;
            if r.is_err() {
                return Err(format!("builder panicked adding an honest block: {:?}", r));
            }
        }
        if to_b {
            let fresh = Block::deserialize_from_net(&bytes).map_err(|e| format!("{:?}", e))?;
            let mut fresh = fresh;
            fresh.generate().map_err(|e| format!("{:?}", e))?;
            let r = futures_catch(AssertUnwindSafe(self.b.consensus.process_event(ConsensusEvent::BlockFetched { peer_index: 0, block: fresh }))).await;
            if let Err(m) = r {
                self.b_panic = Some(take_panic("B", "consensus::process_event(BlockFetched)", m));
                return Err("the honest node B panicked while adding its own next block".to_string());
            }
        }
        Ok(())
    }

    /// moves everything that is in flight until nothing moves: internal channels of both nodes,
    /// messages between N and B, honest block fetches, disconnect requests, B's reconnect attempts
    async fn pump(&mut self) -> Result<(), Stop> {
        let mut rounds = 0u64;
        loop {
            rounds += 1;
            let mut any = false;
            any |= self.n.drain_internal().await?;
            any |= self.b.drain_internal().await?;
            for (h, bytes) in self.n.new_block_files() {
                self.buffers.entry(h).or_insert(bytes);
            }
            for (h, bytes) in self.b.new_block_files() {
                self.buffers.entry(h).or_insert(bytes);
            }
            // ---- N's IO
            let (sent, bcast, fetches, disc) = {
                let mut d = self.n.disk.lock().unwrap();
                (
                    std::mem::take(&mut d.sent),
                    std::mem::take(&mut d.broadcasts),
                    std::mem::take(&mut d.fetches),
                    std::mem::take(&mut d.disconnects),
                )
            };
            let mut to_b: Vec<Vec<u8>> = vec![];
            for (idx, buf) in sent {
                any = true;
                if idx == IDX_B {
                    if self.link {
                        to_b.push(buf);
                    }
                } else {
                    self.attacker_receives(idx, &buf);
                }
            }
            for (buf, excl) in bcast {
                any = true;
                if self.link && !excl.contains(&IDX_B) {
                    to_b.push(buf.clone());
                }
                for c in ATT_CONNS {
                    if !excl.contains(&c) && self.att[&c].connected {
                        self.attacker_receives(c, &buf);
                    }
                }
            }
            for buf in to_b {
                self.b.net_event(NetworkEvent::IncomingNetworkMessage { peer_index: IDX_B, buffer: buf }).await?;
            }
            for (hash, idx, _url, id) in fetches {
                any = true;
                if idx == IDX_B {
                    let ev = self.honest_serve(hash, id, idx, true).await;
                    self.n.net_event(ev).await?;
                } else {
                    self.pending_fetches.push(Fetch { hash, idx, id });
                }
            }
            for idx in disc {
                any = true;
                self.n_disconnects.push(idx);
                self.n
                    .net_event(NetworkEvent::PeerDisconnected {
                        peer_index: idx,
                        disconnect_type: PeerDisconnectType::InternalDisconnect,
                    })
                    .await?;
                if idx == IDX_B && self.link {
                    self.link = false;
                    self.b
                        .net_event(NetworkEvent::PeerDisconnected {
                            peer_index: IDX_B,
                            disconnect_type: PeerDisconnectType::InternalDisconnect,
                        })
                        .await?;
                } else if let Some(a) = self.att.get_mut(&idx) {
                    a.connected = false;
                }
            }
            // ---- B's IO
            let (sent, bcast, fetches, disc, connects) = {
                let mut d = self.b.disk.lock().unwrap();
                (
                    std::mem::take(&mut d.sent),
                    std::mem::take(&mut d.broadcasts),
                    std::mem::take(&mut d.fetches),
                    std::mem::take(&mut d.disconnects),
                    std::mem::take(&mut d.connects),
                )
            };
            let mut to_n: Vec<Vec<u8>> = vec![];
            for (idx, buf) in sent {
                any = true;
                if idx == IDX_B && self.link {
                    to_n.push(buf);
                }
            }
            for (buf, excl) in bcast {
                any = true;
                if self.link && !excl.contains(&IDX_B) {
                    to_n.push(buf);
                }
            }
            for buf in to_n {
                self.n.net_event(NetworkEvent::IncomingNetworkMessage { peer_index: IDX_B, buffer: buf }).await?;
            }
            for (hash, idx, _url, id) in fetches {
                any = true;
                let ev = self.honest_serve(hash, id, idx, false).await;
                self.b.net_event(ev).await?;
            }
            for idx in disc {
                any = true;
                self.b
                    .net_event(NetworkEvent::PeerDisconnected {
                        peer_index: idx,
                        disconnect_type: PeerDisconnectType::InternalDisconnect,
                    })
                    .await?;
                if idx == IDX_B && self.link {
                    self.link = false;
                    self.n
                        .net_event(NetworkEvent::PeerDisconnected {
                            peer_index: IDX_B,
                            disconnect_type: PeerDisconnectType::InternalDisconnect,
                        })
                        .await?;
                }
            }
            for (_url, idx) in connects {
                any = true;
                if idx == IDX_B && !self.link && self.b_may_connect {
                    self.link = true;
                    self.b
                        .net_event(NetworkEvent::PeerConnectionResult { result: Ok((IDX_B, Some("10.0.0.1".to_string()))) })
                        .await?;
                    self.n
                        .net_event(NetworkEvent::PeerConnectionResult { result: Ok((IDX_B, Some("10.0.0.2".to_string()))) })
                        .await?;
                }
            }
            self.handler_calls_in_step = self.n.calls + self.b.calls;
            if !any {
                return Ok(());
            }
            if rounds > 20_000 {
                return Err(Stop::Livelock(format!("pump did not quiesce after {} rounds", rounds)));
            }
        }
    }

    /// lets honest work that is already under way (chain sync from B) finish, without moving the clock:
    /// the routing threads' periodic `fetch_next_blocks` is run until nothing changes any more
    async fn settle(&mut self) -> Result<(), Stop> {
        let mut last = String::new();
        for _ in 0..8 {
            self.pump().await?;
            let d = format!("{:?}", self.digest(None).await);
            if d == last {
                break;
            }
            last = d;
            self.n_timer(2000, true).await?;
            futures_catch(AssertUnwindSafe(self.b.routing.process_timer_event(Duration::from_millis(2000))))
                .await
                .map_err(|m| Stop::Panic(take_panic("B", "routing::process_timer_event", m)))?;
        }
        Ok(())
    }

    /// what the honest side answers to a block fetch: the block if that side has it, else a failure
    async fn honest_serve(&mut self, hash: SaitoHash, id: u64, idx: u64, from_b: bool) -> NetworkEvent {
        let has = {
            let sut = if from_b { &self.b } else { &self.n };
            let bc = sut.blockchain.read().await;
            bc.is_block_indexed(hash)
        };
        match (has, self.buffers.get(&hash)) {
            (true, Some(buf)) => NetworkEvent::BlockFetched { block_hash: hash, block_id: id, peer_index: idx, buffer: buf.clone() },
            _ => NetworkEvent::BlockFetchFailed { block_hash: hash, peer_index: idx, block_id: id },
        }
    }

    fn attacker_receives(&mut self, idx: u64, buf: &[u8]) {
        if buf.is_empty() {
            return;
        }
        *self.to_attacker.entry(buf[0]).or_insert(0) += 1;
        if buf[0] == 1 && buf.len() == 33 {
            if let Some(a) = self.att.get_mut(&idx) {
                a.challenge = Some(buf[1..33].try_into().unwrap());
            }
        } else if buf[0] == 2 {
            // N answered a challenge of the attacker: it also stored a fresh challenge for the connection
            if let Ok(Message::HandshakeResponse(r)) = Message::deserialize(buf.to_vec()) {
                if r.challenge != [0; 32] {
                    if let Some(a) = self.att.get_mut(&idx) {
                        a.challenge = Some(r.challenge);
                    }
                }
            }
        }
    }
}


// ------------------------------------------------------------------ actions

#[derive(Clone, Debug, PartialEq)]
enum IdK {
    Zero,
    One,
    Tip,
    TipPlus1,
    Max,
    Far,
}
#[derive(Clone, Debug, PartialEq)]
enum HashK {
    Zero,
    Tip,
    Genesis,
    Random,
    ForkId,
}
#[derive(Clone, Debug, PartialEq)]
enum TxK {
    /// funded transfer signed by the attacker, routed attacker -> N
    Valid,
    BadSig,
    /// spends an output that does not exist
    Unfunded,
    /// GoldenTicket-typed, validly signed, payload of n bytes
    GtLen(usize),
    /// transaction of the given type number without inputs
    TypedNoInputs(u8),
    /// transaction of the given type number spending a real output, validly signed
    TypedFunded(u8),
    SelfHop,
    BadHopSig,
    /// outputs that sum above 2^64
    HugeOut,
    /// Bound-typed (NFT transfer shape: inputs Bound, Normal, Bound owned by the signer) with only n outputs
    BoundShort(usize),
    /// Bound-typed with a single Normal input (NFT creation shape) and only n outputs
    BoundNewShort(usize),
}
#[derive(Clone, Debug, PartialEq)]
enum GcK {
    Empty,
    /// n entries with random prehashes on the tip, ids following the tip
    Extend(usize, bool),
    /// entries with hostile ids (0, u64::MAX) and random parents
    HostileIds,
    /// two entries on the tip, the last one with id u64::MAX
    MaxLast,
}
#[derive(Clone, Debug, PartialEq)]
enum RespK {
    /// valid signature by `key` over the challenge N issued last on this connection
    Valid(u8),
    BadSig(u8),
    UnsetVersion(u8),
    OtherMinor(u8),
}
#[derive(Clone, Debug, PartialEq)]
enum Msg {
    Challenge,
    Response(RespK),
    BlockTag,
    Tx(TxK),
    ChainReq(IdK, HashK, HashK),
    HeaderHash(HashK, IdK),
    Ping,
    Spv,
    Services(usize),
    GhostChain(GcK),
    GhostReq(IdK, HashK, HashK),
    App(u32, usize),
    ResultMsg(u32, usize),
    ErrorMsg(u32, usize),
    KeyList(usize),
    /// buffers that do not decode
    Undecodable(u8),
}
#[derive(Clone, Debug, PartialEq)]
enum BlockK {
    Valid,
    /// golden-ticket transaction payload replaced by n bytes (transaction and block re-signed)
    GtLen(usize),
    TwoGt,
    /// an extra fee-typed transaction
    ExtraFee,
    /// timestamp far ahead of every clock
    FutureTs,
    BadMerkle,
    BadCreatorSig,
    /// id field changed (re-signed)
    WrongId,
    /// id field set to 0 (re-signed)
    IdZero,
    /// parent hash unknown, id near the tip / far away
    UnknownParent(bool),
    IssuanceTx,
    HostileHop,
    /// transaction of a privileged type inside
    TypedTx(u8),
    /// burn fee + 1 (re-signed)
    BadBurnfee,
    /// timestamp not after the parent's
    OldTs,
    /// first transaction names the same funded input twice
    DupInput,
}
#[derive(Clone, Debug, PartialEq)]
enum ServeK {
    /// the block that was announced under this hash (crafted or honest)
    AsAnnounced,
    Truncated,
    /// cut at a random position (per mille of the length)
    CutAt(u16),
    /// transaction count in the header raised by one, 1..15 stray bytes appended
    CountPatched(u8),
    /// the header alone, claiming one transaction, plus 1..15 stray bytes
    HeaderOnly(u8),
    Empty,
    Garbage,
    /// a different, valid block
    OtherBlock,
    Fail,
}
#[derive(Clone, Debug, PartialEq)]
enum Act {
    HConnect,
    HBlock(bool),
    HTx,
    HDisconnect,
    Tick(u64),
    NMine,
    /// local IO events that no peer controls but that the handlers must survive: a STUN peer (index 5) is
    /// added / removed, a connection attempt fails
    LStun(bool),
    LConnErr,
    /// a batch of transactions handed to the verification thread (VerifyRequest::Transactions): one valid, two not
    HTxBatch,
    AConnect(u64),
    ADisconnect(u64, bool),
    AMsg(u64, Msg),
    AFlood(u64, Msg, u32),
    /// announce a crafted block (BlockHeaderHash) from a connection
    AAnnounce(u64, BlockK),
    /// announce a hash nobody has, with the given id
    AAnnounceUnknown(u64, IdK),
    AServe(ServeK),
}

impl Act {
    fn label(&self) -> String {
        format!("{:?}", self)
    }
    fn is_attacker(&self) -> bool {
        matches!(self, Act::AConnect(_) | Act::ADisconnect(..) | Act::AMsg(..) | Act::AFlood(..) | Act::AAnnounce(..) | Act::AAnnounceUnknown(..) | Act::AServe(_))
    }
}

// ------------------------------------------------------------------ building hostile inputs

fn rnd32(rng: &mut Rng) -> [u8; 32] {
    let mut h = [0u8; 32];
    for c in h.chunks_mut(8) {
        c.copy_from_slice(&rng.next().to_be_bytes());
    }
    h
}
fn rnd_bytes(rng: &mut Rng, n: usize) -> Vec<u8> {
    (0..n).map(|_| rng.next() as u8).collect()
}
/// the attacker uses a primary (0) and a secondary (1) key per connection, never the same key on two
/// connections (merging entries of one key is C17's subject)
fn conn_key(conn: u64, which: u8) -> u8 {
    (conn as u8) + 1 + 10 * which
}
fn tx_type(n: u8) -> TransactionType {
    match n {
        0 => TransactionType::Normal,
        1 => TransactionType::Fee,
        2 => TransactionType::GoldenTicket,
        3 => TransactionType::ATR,
        4 => TransactionType::Vip,
        5 => TransactionType::SPV,
        6 => TransactionType::Issuance,
        7 => TransactionType::BlockStake,
        _ => TransactionType::Bound,
    }
}

impl World {
    async fn tip(&self) -> (SaitoHash, u64) {
        let bc = self.n.blockchain.read().await;
        (bc.get_latest_block_hash(), bc.get_latest_block_id())
    }
    async fn id_of(&self, k: &IdK) -> u64 {
        let (_, tip) = self.tip().await;
        match k {
            IdK::Zero => 0,
            IdK::One => 1,
            IdK::Tip => tip,
            IdK::TipPlus1 => tip.wrapping_add(1),
            IdK::Max => u64::MAX,
            IdK::Far => tip.wrapping_add(1000),
        }
    }
    async fn hash_of(&self, k: &HashK, rng: &mut Rng) -> SaitoHash {
        match k {
            HashK::Zero => [0; 32],
            HashK::Tip => self.tip().await.0,
            HashK::Genesis => self.chain[0].0,
            HashK::Random => rnd32(rng),
            HashK::ForkId => {
                let bc = self.n.blockchain.read().await;
                bc.generate_fork_id(bc.get_latest_block_id()).unwrap_or([0; 32])
            }
        }
    }

    fn attacker_tx(&mut self, k: &TxK, rng: &mut Rng) -> Transaction {
        let (pk_a, sk_a) = keypair(3);
        let (pk_n, _) = keypair(1);
        let ts = self.now;
        let slip = if self.a_slips.is_empty() { None } else { Some(self.a_slips[(rng.next() as usize) % self.a_slips.len()].clone()) };
        let funded = |slip: &Option<Slip>| -> Transaction {
            match slip {
                Some(s) => make_tx(&[s.clone()], &[(pk_a, s.amount)], &sk_a, ts),
                None => make_tx(&[], &[(pk_a, 0)], &sk_a, ts),
            }
        };
        let mut tx = match k {
            TxK::Valid => {
                let t = funded(&slip);
                if let Some(s) = &slip {
                    self.a_slips.retain(|x| x.utxoset_key != s.utxoset_key);
                }
                t
            }
            TxK::BadSig => {
                let mut t = funded(&slip);
                t.signature[5] ^= 0x40;
                t
            }
            TxK::Unfunded => {
                let mut s = Slip::default();
                s.public_key = pk_a;
                s.amount = 777_000;
                s.block_id = 1;
                s.tx_ordinal = 99;
                make_tx(&[s], &[(pk_a, 777_000)], &sk_a, ts)
            }
            TxK::GtLen(n) => {
                let mut t = Transaction::default();
                t.transaction_type = TransactionType::GoldenTicket;
                t.timestamp = ts;
                t.data = if *n == 97 {
                    let tip = self.chain.last().map(|c| c.0).unwrap_or([0; 32]);
                    GoldenTicket::create(tip, rnd32(rng), pk_a).serialize_for_net()
                } else {
                    rnd_bytes(rng, *n)
                };
                let mut i = Slip::default();
                i.public_key = pk_a;
                t.add_from_slip(i);
                let mut o = Slip::default();
                o.public_key = pk_a;
                t.add_to_slip(o);
                t.sign(&sk_a);
                t
            }
            TxK::TypedNoInputs(n) => {
                let mut t = Transaction::default();
                t.transaction_type = tx_type(*n);
                t.timestamp = ts;
                let mut o = Slip::default();
                o.public_key = pk_a;
                o.amount = 5_000;
                t.add_to_slip(o);
                t.data = rnd_bytes(rng, 8);
                t.sign(&sk_a);
                t
            }
            TxK::TypedFunded(n) => {
                let mut t = funded(&slip);
                t.transaction_type = tx_type(*n);
                t.sign(&sk_a);
                t
            }
            TxK::SelfHop | TxK::BadHopSig => funded(&slip),
            TxK::BoundShort(n_out) | TxK::BoundNewShort(n_out) => {
                let mut t = Transaction::default();
                t.transaction_type = TransactionType::Bound;
                t.timestamp = ts;
                let base = slip.clone().unwrap_or_else(|| {
                    let mut d = Slip::default();
                    d.public_key = pk_a;
                    d.amount = 1000;
                    d.block_id = 1;
                    d
                });
                let shapes: Vec<SlipType> = if let TxK::BoundShort(_) = k { vec![SlipType::Bound, SlipType::Normal, SlipType::Bound] } else { vec![SlipType::Normal] };
                for (j, ty) in shapes.iter().enumerate() {
                    let mut i = base.clone();
                    i.slip_type = *ty;
                    i.slip_index = base.slip_index.wrapping_add(j as u8);
                    if *ty == SlipType::Bound {
                        i.amount = 0;
                    }
                    i.generate_utxoset_key();
                    t.add_from_slip(i);
                }
                for _ in 0..*n_out {
                    let mut o = Slip::default();
                    o.public_key = pk_a;
                    o.amount = base.amount / 4;
                    t.add_to_slip(o);
                }
                t.sign(&sk_a);
                t
            }
            TxK::HugeOut => {
                let mut t = match &slip {
                    Some(s) => make_tx(&[s.clone()], &[(pk_a, u64::MAX - 5), (pk_a, s.amount + 6)], &sk_a, ts),
                    None => make_tx(&[], &[(pk_a, u64::MAX), (pk_a, 7)], &sk_a, ts),
                };
                t.sign(&sk_a);
                t
            }
        };
        match k {
            TxK::SelfHop => {
                // a hop whose sender and receiver are the same key cannot be built through add_hop (it asserts)
                tx.add_hop(&sk_a, &pk_a, &pk_n);
                let h = tx.path[0].clone();
                let mut h2 = h.clone();
                h2.to = h2.from;
                tx.path[0] = h2;
            }
            TxK::BadHopSig => {
                tx.add_hop(&sk_a, &pk_a, &pk_n);
                tx.path[0].sig[3] ^= 0x11;
            }
            TxK::BadSig => {}
            _ => {
                if !tx.from.is_empty() {
                    tx.add_hop(&sk_a, &pk_a, &pk_n);
                }
            }
        }
        tx
    }

    async fn attacker_message(&mut self, conn: u64, m: &Msg, rng: &mut Rng) -> Vec<u8> {
        match m {
            Msg::Challenge => Message::HandshakeChallenge(HandshakeChallenge { challenge: rnd32(rng) }).serialize(),
            Msg::Response(k) => {
                let (key, good_sig, cv) = match k {
                    RespK::Valid(key) => (*key, true, CVER),
                    RespK::BadSig(key) => (*key, false, CVER),
                    RespK::UnsetVersion(key) => (*key, true, (0, 0, 0)),
                    RespK::OtherMinor(key) => (*key, true, (1, 3, 3)),
                };
                let (pk, sk) = keypair(conn_key(conn, key));
                let ch = self.att.get(&conn).and_then(|a| a.challenge).unwrap_or([7; 32]);
                let mut sig = sign(&ch, &sk);
                if !good_sig {
                    sig[9] ^= 0x21;
                }
                Message::HandshakeResponse(HandshakeResponse {
                    public_key: pk,
                    signature: sig,
                    is_lite: false,
                    block_fetch_url: format!("http://attacker{}:80", conn),
                    challenge: rnd32(rng),
                    services: vec![],
                    wallet_version: mkver(WVER),
                    core_version: mkver(cv),
                })
                .serialize()
            }
            Msg::BlockTag => {
                let bytes = self.buffers[&self.chain[self.chain.len() - 1].0].clone();
                let block = Block::deserialize_from_net(&bytes).unwrap();
                Message::Block(block).serialize()
            }
            Msg::Tx(k) => {
                let tx = self.attacker_tx(k, rng);
                Message::Transaction(tx).serialize()
            }
            Msg::ChainReq(i, h, f) => {
                let id = self.id_of(i).await;
                let hh = self.hash_of(h, rng).await;
                let ff = self.hash_of(f, rng).await;
                let raw = [id.to_be_bytes().as_slice(), hh.as_slice(), ff.as_slice()].concat();
                let req = BlockchainRequest::deserialize(&raw).unwrap();
                Message::BlockchainRequest(req).serialize()
            }
            Msg::HeaderHash(h, i) => {
                let id = self.id_of(i).await;
                let hh = self.hash_of(h, rng).await;
                Message::BlockHeaderHash(hh, id).serialize()
            }
            Msg::Ping => Message::Ping().serialize(),
            Msg::Spv => Message::SPVChain().serialize(),
            Msg::Services(n) => {
                let v: Vec<PeerService> = (0..*n)
                    .map(|i| PeerService { service: format!("svc{}", i), domain: "d".to_string(), name: "n".to_string() })
                    .collect();
                Message::Services(v).serialize()
            }
            Msg::GhostChain(k) => {
                let (tip_hash, tip_id) = self.tip().await;
                let gc = match k {
                    GcK::Empty => GhostChainSync { start: tip_hash, prehashes: vec![], previous_block_hashes: vec![], block_ids: vec![], block_ts: vec![], txs: vec![], gts: vec![] },
                    GcK::Extend(n, with_txs) => {
                        let mut g = GhostChainSync { start: tip_hash, prehashes: vec![], previous_block_hashes: vec![], block_ids: vec![], block_ts: vec![], txs: vec![], gts: vec![] };
                        let mut prev = tip_hash;
                        for j in 0..*n {
                            let pre = rnd32(rng);
                            g.prehashes.push(pre);
                            g.previous_block_hashes.push(prev);
                            g.block_ids.push(tip_id.wrapping_add(1 + j as u64));
                            g.block_ts.push(self.now.wrapping_add(j as u64));
                            g.txs.push(*with_txs && j % 2 == 0);
                            g.gts.push(j % 2 == 1);
                            prev = hash(&[prev.as_slice(), pre.as_slice()].concat());
                        }
                        g
                    }
                    GcK::MaxLast => GhostChainSync {
                        start: tip_hash,
                        prehashes: vec![rnd32(rng), rnd32(rng)],
                        previous_block_hashes: vec![tip_hash, rnd32(rng)],
                        block_ids: vec![tip_id.wrapping_add(1), u64::MAX],
                        block_ts: vec![self.now, self.now + 1],
                        txs: vec![false, false],
                        gts: vec![true, false],
                    },
                    GcK::HostileIds => GhostChainSync {
                        start: rnd32(rng),
                        prehashes: vec![rnd32(rng), rnd32(rng), rnd32(rng)],
                        previous_block_hashes: vec![rnd32(rng), [0; 32], rnd32(rng)],
                        block_ids: vec![0, u64::MAX, tip_id],
                        block_ts: vec![0, u64::MAX, self.now],
                        txs: vec![false, false, false],
                        gts: vec![true, false, true],
                    },
                };
                Message::GhostChain(gc).serialize()
            }
            Msg::GhostReq(i, h, f) => {
                let id = self.id_of(i).await;
                let hh = self.hash_of(h, rng).await;
                let ff = self.hash_of(f, rng).await;
                Message::GhostChainRequest(id, hh, ff).serialize()
            }
            Msg::App(i, n) => Message::ApplicationMessage(ApiMessage { msg_index: *i, data: rnd_bytes(rng, *n) }).serialize(),
            Msg::ResultMsg(i, n) => Message::Result(ApiMessage { msg_index: *i, data: rnd_bytes(rng, *n) }).serialize(),
            Msg::ErrorMsg(i, n) => Message::Error(ApiMessage { msg_index: *i, data: rnd_bytes(rng, *n) }).serialize(),
            Msg::KeyList(n) => {
                // different keys in every message, so that "was this list applied?" can be read off the entry
                let salt = (rng.next() % 150) as usize;
                let keys: Vec<SaitoPublicKey> = (0..*n).map(|i| keypair((((i + salt) % 200) + 10) as u8).0).collect();
                Message::KeyListUpdate(keys).serialize()
            }
            Msg::Undecodable(k) => match k {
                0 => vec![],
                1 => vec![0],
                2 => vec![16, 1, 2, 3],
                3 => vec![255],
                4 => vec![6, 1, 2, 3],        // BlockHeaderHash of the wrong length
                5 => vec![15, 1, 2, 3],       // key list not a multiple of 33
                6 => vec![2, 0, 0, 0, 0],     // short handshake response
                7 => vec![5, 9, 9],           // short blockchain request
                8 => vec![9, 0xff, 0xfe],     // services that are not utf-8
                9 => vec![3, 1, 2, 3, 4],     // short block
                10 => vec![4, 1, 2, 3],       // short transaction
                _ => vec![12, 1],             // short api message
            },
        }
    }

    /// a block crafted by the attacker (key 3) on the current honest tip; returns (hash, id, wire bytes, must_be_rejected)
    async fn crafted_block(&mut self, k: &BlockK, rng: &mut Rng) -> Result<(SaitoHash, u64, Vec<u8>, bool), String> {
        let (pk_a, sk_a) = keypair(3);
        let tip = self.abuilder.blockchain.get_latest_block_hash();
        let ts = match k {
            BlockK::FutureTs => self.now + 1_000_000_000,
            BlockK::OldTs => self.chain.last().unwrap().2,
            _ => self.now,
        };
        self.gt_seed += 1;
        let mut txs = vec![];
        match k {
            BlockK::HostileHop => {
                let mut t = self.attacker_tx(&TxK::BadHopSig, rng);
                t.path[0].to = pk_a; // routed to the block creator, with a broken hop signature
                txs.push(t);
            }
            BlockK::TypedTx(n) => {
                txs.push(self.attacker_tx(&TxK::TypedNoInputs(*n), rng));
            }
            BlockK::IssuanceTx => {
                let mut t = Transaction::create_issuance_transaction(pk_a, 123_456);
                t.sign(&sk_a);
                txs.push(t);
            }
            _ => {}
        }
        let mut block = make_block(&self.abuilder, tip, ts, vec![], true, self.gt_seed).await?;
        let mut dirty = false;
        for mut t in txs {
            t.generate(&pk_a, 0, 0);
            block.add_transaction(t);
            dirty = true;
        }
        let gt_pos = block.transactions.iter().position(|t| t.transaction_type == TransactionType::GoldenTicket);
        match k {
            BlockK::GtLen(n) => {
                let p = gt_pos.ok_or("no golden ticket in crafted block")?;
                block.transactions[p].data = rnd_bytes(rng, *n);
                block.transactions[p].sign(&sk_a);
                block.transactions[p].generate(&pk_a, 0, 0);
                dirty = true;
            }
            BlockK::TwoGt => {
                let p = gt_pos.ok_or("no golden ticket in crafted block")?;
                let mut t = block.transactions[p].clone();
                t.timestamp += 1;
                t.sign(&sk_a);
                t.generate(&pk_a, 0, 0);
                block.add_transaction(t);
                dirty = true;
            }
            BlockK::ExtraFee => {
                let mut t = Transaction::default();
                t.transaction_type = TransactionType::Fee;
                t.timestamp = ts;
                let mut o = Slip::default();
                o.public_key = pk_a;
                o.amount = 1_000_000;
                o.slip_type = SlipType::MinerOutput;
                t.add_to_slip(o);
                t.sign(&sk_a);
                t.generate(&pk_a, 0, 0);
                block.add_transaction(t);
                dirty = true;
            }
            BlockK::WrongId => {
                block.id += 3;
                dirty = true;
            }
            BlockK::IdZero => {
                block.id = 0;
                dirty = true;
            }
            BlockK::UnknownParent(near) => {
                block.previous_block_hash = rnd32(rng);
                if !*near {
                    block.id += 5000;
                }
                dirty = true;
            }
            BlockK::BadBurnfee => {
                block.burnfee += 1;
                dirty = true;
            }
            BlockK::DupInput => {
                if let Some(sl) = self.a_slips.first().cloned() {
                    let mut t = make_tx(&[sl.clone(), sl.clone()], &[(pk_a, sl.amount)], &sk_a, ts);
                    t.generate(&pk_a, 0, 0);
                    block.transactions.insert(0, t);
                    block.merkle_root = block.generate_merkle_root(false, false);
                    block.generate_pre_hash();
                    block.sign(&sk_a);
                    // Block::generate refuses this block ("double-spend detected"): identity is computed by hand
                    block.generate_pre_hash();
                    block.generate_hash();
                }
            }
            _ => {}
        }
        if dirty {
            block.merkle_root = block.generate_merkle_root(false, false);
            block.generate_pre_hash();
            block.sign(&sk_a);
            block.generate().map_err(|e| format!("{:?}", e))?;
        }
        match k {
            BlockK::BadMerkle => {
                block.merkle_root[3] ^= 0x55;
                block.generate_pre_hash();
                block.sign(&sk_a);
                block.generate().map_err(|e| format!("{:?}", e))?;
            }
            BlockK::BadCreatorSig => {
                block.signature[7] ^= 0x33;
                block.generate().map_err(|e| format!("{:?}", e))?;
            }
            _ => {}
        }
        // TwoGt: Block::validate does not bound the number of golden tickets (the last one counts) and the
        // block is accepted; UnknownParent: not rejected but parked / treated as an orphan (C05's business)
        // IdZero: never a candidate for the longest chain, kept as an unvalidated side block like any other sibling
        let must_reject = !matches!(k, BlockK::Valid | BlockK::FutureTs | BlockK::TwoGt | BlockK::UnknownParent(_) | BlockK::IdZero);
        let bytes = block.serialize_for_net(BlockType::Full);
        Ok((block.hash, block.id, bytes, must_reject))
    }
}


// ------------------------------------------------------------------ observations

/// abstract event handed to the Coq model (events N received on attacker connections)
#[derive(Clone, Debug)]
struct MEv {
    now: u64,
    idx: u64,
    /// Gallina term of type Handlers.event
    term: String,
    /// 0 ok, 1 reject, 2 disconnect, 3 panic
    outcome: u64,
    /// finding id for outcome 3
    finding: String,
    repeat: u64,
}

/// (limit, window) of a RateLimiter, from its Debug output
fn parse_limiter_consts(dbg: &str) -> (u64, u64) {
    let grab = |k: &str| -> u64 {
        dbg.split(k).nth(1).map(|r| r.trim_start_matches(':').trim().chars().take_while(|c| c.is_ascii_digit()).collect::<String>()).and_then(|x| x.parse().ok()).unwrap_or(0)
    };
    (grab("limit"), grab("window"))
}
fn parse_limiter(dbg: &str) -> (u64, u64) {
    // RateLimiter { limit: 100, window: 60000, request_count: 0, last_request_time: 0 }
    let grab = |k: &str| -> u64 {
        dbg.split(k).nth(1).map(|r| r.trim_start_matches(':').trim().chars().take_while(|c| c.is_ascii_digit()).collect::<String>()).and_then(|x| x.parse().ok()).unwrap_or(0)
    };
    (grab("request_count"), grab("last_request_time"))
}

impl World {
    /// state honest peers rely on, as labelled components; the entry of `exclude` (the sender) is left out
    async fn digest(&self, exclude: Option<u64>) -> Vec<(String, String)> {
        let mut out = vec![];
        {
            let peers = self.n.peers.read().await;
            let mut v: Vec<String> = vec![];
            let mut idxs: Vec<&u64> = peers.index_to_peers.keys().collect();
            idxs.sort();
            for i in idxs {
                if Some(*i) == exclude || (exclude.is_some() && (ATT_CONNS.contains(i) || *i == IDX_NEVER)) {
                    continue;
                }
                let p = &peers.index_to_peers[i];
                v.push(format!(
                    "{}:{}:{:?}:{}:{}:{}:{:?}:{:?}:{}:{}:{}",
                    i,
                    match p.peer_status { PeerStatus::Connected => 2, PeerStatus::Connecting => 1, PeerStatus::Disconnected(..) => 0 },
                    p.public_key.map(|k| hex::encode(&k[..6])),
                    p.key_list.len(),
                    p.services.len(),
                    p.block_fetch_url,
                    p.wallet_version,
                    p.core_version,
                    p.challenge_for_peer.is_some(),
                    p.static_peer_config.is_some(),
                    hex::encode(&hash(&[p.key_list.concat(), p.services.iter().map(|s| format!("{}|{}|{};", s.service, s.domain, s.name)).collect::<String>().into_bytes()].concat())[..6])
                ));
            }
            out.push(("peers".to_string(), v.join("|")));
            let mut a: Vec<String> = peers
                .address_to_peers
                .iter()
                .filter(|(_, i)| exclude.is_none() || !(ATT_CONNS.contains(*i) || **i == IDX_NEVER))
                .map(|(k, i)| format!("{}->{}", hex::encode(&k[..6]), i))
                .collect();
            a.sort();
            out.push(("address_map".to_string(), a.join("|")));
        }
        {
            let bc = self.n.blockchain.read().await;
            let mut blocks: Vec<(u64, SaitoHash, bool, u8)> = bc.blocks.values().map(|b| (b.id, b.hash, b.in_longest_chain, b.block_type as u8)).collect();
            blocks.sort();
            let mut lc = vec![];
            let mut ids: Vec<u64> = blocks.iter().map(|b| b.0).collect();
            ids.dedup();
            for id in ids {
                if let Some(h) = bc.blockring.get_longest_chain_block_hash_at_block_id(id) {
                    lc.push(format!("{}={}", id, hex::encode(&h[..6])));
                }
            }
            out.push((
                "chain".to_string(),
                format!(
                    "tip={}:{} lc=[{}] blocks=[{}] fork={:?} last={}:{} low={}:{} gen={}",
                    bc.get_latest_block_id(),
                    hex::encode(&bc.get_latest_block_hash()[..6]),
                    lc.join(","),
                    blocks.iter().map(|b| format!("{}:{}:{}:{}", b.0, hex::encode(&b.1[..6]), b.2, b.3)).collect::<Vec<_>>().join(","),
                    bc.fork_id.map(|f| hex::encode(&f[..6])),
                    bc.last_block_id,
                    hex::encode(&bc.last_block_hash[..6]),
                    bc.lowest_acceptable_block_id,
                    hex::encode(&bc.lowest_acceptable_block_hash[..6]),
                    bc.genesis_block_id
                ),
            ));
            let mut u: Vec<Vec<u8>> = bc.utxoset.iter().map(|(k, v)| [k.as_slice(), &[*v as u8]].concat()).collect();
            u.sort();
            out.push(("utxo".to_string(), format!("{}:{}", u.len(), hex::encode(&hash(&u.concat())[..8]))));
        }
        {
            let mp = self.n.mempool.read().await;
            let mut t: Vec<String> = mp.transactions.keys().map(|k| hex::encode(&k[..6])).collect();
            t.sort();
            let mut g: Vec<String> = mp.golden_tickets.keys().map(|k| hex::encode(&k[..6])).collect();
            g.sort();
            let q: Vec<String> = mp.blocks_queue.iter().map(|b| hex::encode(&b.hash[..6])).collect();
            out.push(("mempool".to_string(), format!("txs=[{}] gts=[{}] queue=[{}]", t.join(","), g.join(","), q.join(","))));
        }
        {
            let w = self.n.wallet.read().await;
            let mut sl: Vec<String> = w.slips.values().map(|s| format!("{}:{}:{}", hex::encode(&s.utxokey[33..50]), s.amount, s.spent)).collect();
            sl.sort();
            out.push(("wallet".to_string(), format!("bal={} slips=[{}] keys={}", w.get_available_balance(), sl.join(","), w.key_list.len())));
        }
        {
            // transactions the verification thread let through, waiting for the next producer tick
            let mut st: Vec<String> = self.n.consensus.txs_for_mempool.iter().map(|t| hex::encode(&t.signature[..6])).collect();
            st.sort();
            out.push(("staged_txs".to_string(), st.join(",")));
        }
        out
    }

    /// per attacker connection: exists, key number, key list length, four limiters (count, window start)
    async fn conn_obs(&self) -> Vec<Vec<u64>> {
        let peers = self.n.peers.read().await;
        let mut rows = vec![];
        for c in [2u64, 3, 4, IDX_NEVER] {
            match peers.index_to_peers.get(&c) {
                None => rows.push(vec![c, 0]),
                Some(p) => {
                    let key = match p.public_key {
                        None => 0,
                        Some(k) => (1..=30u8).find(|n| keypair(*n).0 == k).map(|n| n as u64).unwrap_or(99),
                    };
                    let (mc, ml) = parse_limiter(&format!("{:?}", p.message_limiter));
                    let (hc, hl) = parse_limiter(&format!("{:?}", p.handshake_limiter));
                    let (kc, kl) = parse_limiter(&format!("{:?}", p.key_list_limiter));
                    let (ic, il) = parse_limiter(&format!("{:?}", p.invalid_block_limiter));
                    let mut row = vec![c, 1, key, p.key_list.len() as u64, p.challenge_for_peer.is_some() as u64, mc, ml, hc, hl, kc, kl, ic, il];
                    // limits and windows of the four limiters (message, handshake, key list, invalid block)
                    for l in [&p.message_limiter, &p.handshake_limiter, &p.key_list_limiter, &p.invalid_block_limiter] {
                        let (lim, win) = parse_limiter_consts(&format!("{:?}", l));
                        row.push(lim);
                        row.push(win);
                    }
                    rows.push(row);
                }
            }
        }
        rows
    }
}

// ------------------------------------------------------------------ classification of panics into listed findings

/// (finding id, model site) for a panic, by where it happened and what was being handled
fn classify(p: &PanicRec, act: &Act) -> Option<&'static str> {
    let f = p.loc.as_str();
    let m = p.msg.as_str();
    let in_file = |name: &str| f.contains(name);
    if in_file("routing_thread.rs") && m.contains("unreachable") && matches!(act, Act::AMsg(_, Msg::BlockTag) | Act::AFlood(_, Msg::BlockTag, _)) {
        return Some("block-tag-unreachable");
    }
    if in_file("routing_thread.rs") && m.contains("Option::unwrap()") && matches!(act, Act::AMsg(_, Msg::GhostReq(..)) | Act::AFlood(_, Msg::GhostReq(..), _)) {
        return Some("ghost-request-no-key");
    }
    if matches!(act, Act::AMsg(_, Msg::KeyList(_)) | Act::AFlood(_, Msg::KeyList(_), _)) {
        if in_file("routing_thread.rs") && m.contains("Result::unwrap()") {
            return Some("key-list-limit-unwrap");
        }
        if in_file("network.rs") && m.contains("Option::unwrap()") {
            return Some("key-list-limit-unwrap");
        }
    }
    if in_file("routing_thread.rs") && m.contains("attempt to add with overflow") && matches!(act, Act::AMsg(_, Msg::GhostReq(IdK::Max, ..)) | Act::AFlood(_, Msg::GhostReq(IdK::Max, ..), _)) {
        return Some("ghost-request-id-max-overflow");
    }
    if in_file("verification_thread.rs") && m.contains("double-spend detected") {
        return Some("verify-block-generate-unwrap");
    }
    if in_file("golden_ticket.rs") && m.contains("left == right") {
        if p.handler.contains("NewTransaction") {
            return Some("gt-tx-payload-len");
        }
        if p.handler.contains("BlockFetched") {
            return Some("gt-block-payload-len");
        }
    }
    if in_file("peer.rs") && m.contains("different public key") {
        return Some("assert-key-changed-panic");
    }
    if in_file("consensus_thread.rs") && m.contains("Option::unwrap()") && p.handler.contains("consensus::process_timer_event") {
        return Some("gt-dropped-then-unwrap");
    }
    if in_file("network.rs") && m.contains("from slip should exist") {
        return Some("propagate-tx-without-inputs");
    }
    if in_file("mempool.rs") && m.contains("should be larger than previous block timestamp") {
        return Some("future-timestamp-block-bundle-assert");
    }
    None
}

// ------------------------------------------------------------------ running one case

#[derive(Clone, Debug)]
struct CaseSpec {
    kind: String,
    gp: u64,
    loading_completed: bool,
    log_eval: bool,
    spv_n: bool,
    n_blocks: usize,
    seed: u64,
    /// (original position, action)
    steps: Vec<(usize, Act)>,
    /// keep running after a listed state-changing finding (to reach its consequences)
    continue_after_known: bool,
    /// wall-clock budget of one step of this case, if not the default; and the listed finding a stall belongs to
    stall_budget_s: Option<(u64, &'static str)>,
}

#[derive(Default, Debug)]
struct CaseOut {
    /// (step position, action label, finding id or None, description)
    failures: Vec<(usize, String, Option<String>, String)>,
    stats: Vec<(String, String)>,
    trace: Vec<MEv>,
    final_obs: Vec<Vec<u64>>,
    steps_run: usize,
    attacker_events: u64,
    handler_calls: u64,
    build_error: Option<String>,
}

struct Runner {
    w: World,
    out: CaseOut,
    log_eval: bool,
    /// oracle bit for the model: Blockchain::generate_last_shared_ancestor answers 0 for the request at hand
    ghost_anc0: bool,
    /// rate limiter quotas / refusal rules found not enforced during the current step
    limiter_failures: Vec<String>,
    /// connections that had a fetch reported as failed
    fetch_failed: BTreeSet<u64>,
    lite: bool,
    /// invalid-block counter of each attacker connection as the model has been told so far
    inv_seen: BTreeMap<u64, u64>,
}

impl Runner {
    /// one event of the attacker delivered to N, then everything it triggers; records the model event
    async fn attack_event(&mut self, idx: u64, ev: NetworkEvent, term: String, repeat_of: bool) -> Result<u64, Stop> {
        self.w.n_disconnects.clear();
        self.out.attacker_events += 1;
        let r = match self.w.n.net_event(ev).await {
            Ok(r) => self.w.pump().await.map(|_| r),
            Err(p) => Err(Stop::Panic(p)),
        };
        let outcome = match &r {
            Err(_) => 3,
            Ok(_) if self.w.n_disconnects.contains(&idx) => 2,
            Ok(None) => 1,
            Ok(Some(())) => 0,
        };
        let now = self.w.now;
        match self.w.trace.last_mut() {
            Some(last) if repeat_of && last.term == term && last.outcome == outcome && last.idx == idx && last.now == now && outcome != 3 => last.repeat += 1,
            _ => self.w.trace.push(MEv { now, idx, term, outcome, finding: String::new(), repeat: 1 }),
        }
        r.map(|_| outcome)
    }

    async fn msg_term(&self, conn: u64, m: &Msg, verified: bool, data_len: usize, cur_challenge: bool) -> String {
        match m {
            Msg::Challenge => "ENet (Some MChallenge)".to_string(),
            Msg::Response(k) => {
                let (key, sig, ver) = match k {
                    RespK::Valid(key) => (*key, cur_challenge, true),
                    RespK::BadSig(key) => (*key, false, true),
                    RespK::UnsetVersion(key) => (*key, cur_challenge, false),
                    RespK::OtherMinor(key) => (*key, cur_challenge, false),
                };
                format!("ENet (Some (MResponse {} {} {}))", gal::boolean(sig), gal::boolean(ver), gal::n(conn_key(conn, key) as u64))
            }
            Msg::BlockTag => "ENet (Some MBlock)".to_string(),
            Msg::Tx(k) => {
                let ty = match k {
                    TxK::GtLen(_) => 2,
                    TxK::TypedNoInputs(n) | TxK::TypedFunded(n) => *n as u64,
                    _ => 0,
                };
                format!("ENet (Some (MTx {} {} {}))", gal::n(ty), gal::n(data_len as u64), gal::boolean(verified))
            }
            Msg::ChainReq(..) => "ENet (Some MChainReq)".to_string(),
            Msg::HeaderHash(..) => "ENet (Some MHeaderHash)".to_string(),
            Msg::Ping => "ENet (Some MPing)".to_string(),
            Msg::Spv => "ENet (Some MSpv)".to_string(),
            Msg::Services(n) => format!("ENet (Some (MServices {}))", gal::n(*n as u64)),
            Msg::GhostChain(_) => "ENet (Some MGhostChain)".to_string(),
            Msg::GhostReq(i, _, _) => format!("ENet (Some (MGhostReq {}))", gal::boolean(*i == IdK::Max && self.ghost_anc0)),
            Msg::App(..) => "ENet (Some MApp)".to_string(),
            Msg::ResultMsg(..) => "ENet (Some MResult)".to_string(),
            Msg::ErrorMsg(..) => "ENet (Some MError)".to_string(),
            Msg::KeyList(n) => format!("ENet (Some (MKeyList {}))", gal::n(*n as u64)),
            Msg::Undecodable(_) => "ENet None".to_string(),
        }
    }

    async fn send_msg(&mut self, conn: u64, m: &Msg, rng: &mut Rng, repeat_of: bool) -> Result<(), Stop> {
        let buf = self.w.attacker_message(conn, m, rng).await;
        if let Msg::GhostReq(..) = m {
            // buffer = tag, id (8), hash (32), fork id (32)
            let id = u64::from_be_bytes(buf[1..9].try_into().unwrap());
            let fork: [u8; 32] = buf[41..73].try_into().unwrap();
            let bc = self.w.n.blockchain.read().await;
            self.ghost_anc0 = futures_catch(AssertUnwindSafe(async { bc.generate_last_shared_ancestor(id, fork) })).await.map(|a| a == 0).unwrap_or(true);
        }
        let data_len = match m {
            Msg::Tx(TxK::GtLen(n)) => *n,
            _ => 0,
        };
        let cur_challenge = self.w.att.get(&conn).map(|a| a.challenge.is_some()).unwrap_or(false);
        let before = self.w.n.verification.processed_msgs.total;
        let sent_before: u64 = self.w.to_attacker.values().sum();
        let headers_before: u64 = self.w.to_attacker.get(&6).copied().unwrap_or(0);
        let keylist_before: Option<Vec<SaitoPublicKey>> = {
            let peers = self.w.n.peers.read().await;
            peers.index_to_peers.get(&conn).map(|p| p.key_list.clone())
        };
        let keylist_sent: Option<Vec<SaitoPublicKey>> = match Message::deserialize(buf.clone()) {
            Ok(Message::KeyListUpdate(l)) => Some(l),
            _ => None,
        };
        // the verified bit is only known after the call: run, then patch the recorded term
        // does the buffer decode at all? asked of the real decoder (e.g. since fix eeb4ec7 a golden ticket
        // transaction with a payload of the wrong size is undecodable)
        let decodes = {
            let b2 = buf.clone();
            std::panic::catch_unwind(move || Message::deserialize(b2).is_ok()).unwrap_or(true)
        };
        let undecodable = Msg::Undecodable(0);
        let m_for_term: &Msg = if decodes { m } else { &undecodable };
        let term0 = self.msg_term(conn, m_for_term, false, data_len, cur_challenge).await;
        let r = self.attack_event(conn, NetworkEvent::IncomingNetworkMessage { peer_index: conn, buffer: buf }, term0.clone(), repeat_of).await;
        // the quotas are enforced: nothing is acted upon beyond them
        if let Ok(0) = r {
            let sent_now: u64 = self.w.to_attacker.values().sum();
            let (mc, hc, kc) = {
                let peers = self.w.n.peers.read().await;
                match peers.index_to_peers.get(&conn) {
                    Some(p) => (
                        parse_limiter(&format!("{:?}", p.message_limiter)).0,
                        parse_limiter(&format!("{:?}", p.handshake_limiter)).0,
                        parse_limiter(&format!("{:?}", p.key_list_limiter)).0,
                    ),
                    None => (0, 0, 0),
                }
            };
            let mut broken = vec![];
            if mc > 100_000 {
                broken.push(format!("message {} of the current second was processed (quota 100000)", mc));
            }
            if matches!(m, Msg::KeyList(_)) && kc > 100 {
                let after: Option<Vec<SaitoPublicKey>> = {
                    let peers = self.w.n.peers.read().await;
                    peers.index_to_peers.get(&conn).map(|p| p.key_list.clone())
                };
                if after == keylist_sent && after != keylist_before {
                    broken.push(format!("key list {} of the current minute was applied (quota 100)", kc));
                }
            }
            if matches!(m, Msg::Challenge | Msg::Response(_)) && hc > 100 && sent_now > sent_before {
                broken.push(format!("handshake message {} of the current minute was answered (quota 100)", hc));
            }
            for b in broken {
                self.limiter_failures.push(b);
            }
        }
        let verified = self.w.n.verification.processed_msgs.total > before;
        if verified && matches!(m, Msg::Tx(TxK::BadSig) | Msg::Tx(TxK::Unfunded) | Msg::Tx(TxK::SelfHop) | Msg::Tx(TxK::BadHopSig) | Msg::Tx(TxK::HugeOut)) {
            self.limiter_failures.push(format!("an invalid transaction ({:?}) was forwarded to the consensus thread by VerificationThread::verify_tx", m));
        }
        if self.lite && matches!(m, Msg::ChainReq(..)) {
            let answered: u64 = self.w.to_attacker.get(&6).copied().unwrap_or(0);
            if answered > headers_before {
                self.limiter_failures.push("a lite node answered a BlockchainRequest with block header hashes".to_string());
            }
        }
        if verified {
            let t = self.msg_term(conn, m_for_term, true, data_len, cur_challenge).await;
            if let Some(last) = self.w.trace.last_mut() {
                if last.term == term0 {
                    last.term = t;
                }
            }
        }
        if let (Msg::Response(RespK::Valid(key)), Ok(0)) = (m, &r) {
            if let Some(a) = self.w.att.get_mut(&conn) {
                if cur_challenge {
                    a.key = Some(*key);
                    a.challenge = None;
                }
            }
        }
        r.map(|_| ())
    }

    async fn step(&mut self, act: &Act, rng: &mut Rng) -> Result<(), Stop> {
        match act {
            Act::HConnect => {
                self.w.b_may_connect = true;
                self.w.advance(2100);
                self.w.b.timer(2100).await?;
                self.w.n_timer(2100, false).await?;
                self.w.settle().await?;
            }
            Act::HDisconnect => {
                self.w.b_may_connect = false;
                if self.w.link {
                    self.w.link = false;
                    self.w.n.net_event(NetworkEvent::PeerDisconnected { peer_index: IDX_B, disconnect_type: PeerDisconnectType::InternalDisconnect }).await?;
                    self.w.b.net_event(NetworkEvent::PeerDisconnected { peer_index: IDX_B, disconnect_type: PeerDisconnectType::InternalDisconnect }).await?;
                }
                self.w.pump().await?;
            }
            Act::HBlock(with_tx) => {
                self.w.advance(3 * HEARTBEAT);
                // only if the builder's tip is still B's tip (an accepted attacker block moves the honest chain too)
                self.sync_builders().await;
                let mut txs = vec![];
                if *with_tx && !self.w.b_slips.is_empty() {
                    let s = self.w.b_slips.remove(0);
                    let (pk_n, _) = keypair(1);
                    txs.push(make_tx(&[s.clone()], &[(pk_n, s.amount)], &self.w.b.sk.clone(), self.w.now));
                }
                match self.w.honest_block(txs).await {
                    Ok(b) => {
                        if let Err(e) = self.w.adopt_block(b, true).await {
                            if let Some(p) = self.w.b_panic.take() {
                                return Err(Stop::Panic(p));
                            }
                            self.out.stats.push(("honest_block_error".to_string(), e));
                        }
                    }
                    Err(e) => self.out.stats.push(("honest_block_error".to_string(), e)),
                }
                self.w.settle().await?;
            }
            Act::HTx => {
                if !self.w.b_slips.is_empty() && self.w.link {
                    let s = self.w.b_slips.remove(0);
                    let (pk_n, _) = keypair(1);
                    let mut tx = make_tx(&[s.clone()], &[(self.w.b.pk, s.amount - 100)], &self.w.b.sk.clone(), self.w.now);
                    tx.add_hop(&self.w.b.sk.clone(), &self.w.b.pk.clone(), &pk_n);
                    let buf = Message::Transaction(tx).serialize();
                    self.w.n.net_event(NetworkEvent::IncomingNetworkMessage { peer_index: IDX_B, buffer: buf }).await?;
                }
                self.w.pump().await?;
            }
            Act::Tick(ms) => {
                self.w.advance(*ms);
                self.w.n_timer(*ms, false).await?;
                self.w.b.timer(*ms).await?;
                self.w.settle().await?;
            }
            Act::LStun(add) => {
                let ev = if *add {
                    NetworkEvent::AddStunPeer { peer_index: 5, public_key: keypair(20).0 }
                } else {
                    NetworkEvent::RemoveStunPeer { peer_index: 5 }
                };
                self.w.n.net_event(ev).await?;
                self.w.pump().await?;
            }
            Act::LConnErr => {
                self.w.n.net_event(NetworkEvent::PeerConnectionResult { result: Err(std::io::Error::from(std::io::ErrorKind::ConnectionRefused)) }).await?;
                self.w.pump().await?;
            }
            Act::HTxBatch => {
                let mut batch: std::collections::VecDeque<Transaction> = Default::default();
                let mut n_valid = 0usize;
                if !self.w.b_slips.is_empty() {
                    let sl = self.w.b_slips.remove(0);
                    batch.push_back(make_tx(&[sl.clone()], &[(self.w.b.pk, sl.amount)], &self.w.b.sk.clone(), self.w.now));
                    n_valid += 1;
                }
                batch.push_back(self.w.attacker_tx(&TxK::BadSig, rng));
                batch.push_back(self.w.attacker_tx(&TxK::Unfunded, rng));
                let staged_before = self.w.n.consensus.txs_for_mempool.len();
                // reference: Transaction::validate itself on N's ledger (what verify_txs must apply to each element)
                let expect = {
                    let bc = self.w.n.blockchain.read().await;
                    let pk = self.w.n.pk;
                    let mut k = 0usize;
                    for t in batch.iter() {
                        let mut t = t.clone();
                        t.generate(&pk, 0, 0);
                        if t.validate(&bc.utxoset, &bc, true) {
                            k += 1;
                        }
                    }
                    k
                };
                let _ = n_valid;
                let n = self.w.n.name;
                futures_catch(AssertUnwindSafe(self.w.n.verification.process_event(VerifyRequest::Transactions(batch))))
                    .await
                    .map_err(|m| Stop::Panic(take_panic(n, "verification::process_event(Transactions)", m)))?;
                self.w.pump().await?;
                let staged_after = self.w.n.consensus.txs_for_mempool.len();
                // verify_txs lets exactly the valid ones through
                if staged_after.saturating_sub(staged_before) != expect {
                    self.limiter_failures.push(format!("VerificationThread::verify_txs let {} of the batch through, Transaction::validate accepts {}", staged_after.saturating_sub(staged_before), expect));
                }
            }
            Act::NMine => {
                if let Some((h, diff, _)) = self.w.n.miner_target {
                    let gt = mine_golden_ticket(h, diff, self.w.n.pk, rng.next());
                    let n = self.w.n.name;
                    futures_catch(AssertUnwindSafe(self.w.n.consensus.process_event(ConsensusEvent::NewGoldenTicket { golden_ticket: gt })))
                        .await
                        .map_err(|m| Stop::Panic(take_panic(n, "consensus::process_event(NewGoldenTicket)", m)))?;
                }
                self.w.pump().await?;
            }
            Act::AConnect(c) => {
                if let Some(a) = self.w.att.get_mut(c) {
                    a.connected = true;
                }
                self.attack_event(*c, NetworkEvent::PeerConnectionResult { result: Ok((*c, Some(format!("6.6.6.{}", c)))) }, "EConn".to_string(), false).await?;
            }
            Act::ADisconnect(c, ext) => {
                if let Some(a) = self.w.att.get_mut(c) {
                    a.connected = false;
                }
                let t = if *ext { PeerDisconnectType::ExternalDisconnect } else { PeerDisconnectType::InternalDisconnect };
                self.attack_event(*c, NetworkEvent::PeerDisconnected { peer_index: *c, disconnect_type: t }, format!("EDisc {}", gal::boolean(*ext)), false).await?;
            }
            Act::AMsg(c, m) => {
                let q = match m {
                    Msg::HeaderHash(HashK::Random, i) => {
                        let id = self.w.id_of(i).await;
                        self.quota_probe(*c, id).await
                    }
                    _ => None,
                };
                self.send_msg(*c, m, rng, false).await?;
                self.quota_check(*c, q);
            }
            Act::AFlood(c, m, count) => {
                for _ in 0..*count {
                    self.send_msg(*c, m, rng, true).await?;
                }
            }
            Act::AAnnounce(c, k) => match self.w.crafted_block(k, rng).await {
                Ok((h, id, bytes, _)) => {
                    self.w.buffers.insert(h, bytes);
                    let buf = Message::BlockHeaderHash(h, id).serialize();
                    self.attack_event(*c, NetworkEvent::IncomingNetworkMessage { peer_index: *c, buffer: buf }, "ENet (Some MHeaderHash)".to_string(), false).await?;
                }
                Err(e) => self.out.stats.push(("crafted_block_error".to_string(), e)),
            },
            Act::AAnnounceUnknown(c, i) => {
                let id = self.w.id_of(i).await;
                let h = rnd32(rng);
                let buf = Message::BlockHeaderHash(h, id).serialize();
                let q = self.quota_probe(*c, id).await;
                self.attack_event(*c, NetworkEvent::IncomingNetworkMessage { peer_index: *c, buffer: buf }, "ENet (Some MHeaderHash)".to_string(), false).await?;
                self.quota_check(*c, q);
            }
            Act::AServe(k) => {
                if self.w.pending_fetches.is_empty() {
                    self.out.stats.push(("serve".to_string(), "nothing-pending".to_string()));
                    return Ok(());
                }
                let in_flight_before_serve = self.w.pending_fetches.iter().filter(|x| x.idx == self.w.pending_fetches[0].idx).count();
                let f = self.w.pending_fetches.remove(0);
                if let ServeK::Fail = k {
                    self.fetch_failed.insert(f.idx);
                }
                let announced = self.w.buffers.get(&f.hash).cloned();
                let (ev, kind) = match k {
                    ServeK::Fail => (NetworkEvent::BlockFetchFailed { block_hash: f.hash, peer_index: f.idx, block_id: f.id }, "EFetchFailed".to_string()),
                    _ => {
                        // a block to mangle: the announced one, else the honest genesis block
                        let base = announced.clone().unwrap_or_else(|| self.w.buffers[&self.w.chain[0].0].clone());
                        let buffer: Vec<u8> = match (k, announced) {
                            (ServeK::AsAnnounced, Some(b)) => b,
                            (ServeK::Truncated, Some(b)) => b[..b.len() / 2].to_vec(),
                            (ServeK::Truncated, None) => vec![1, 2, 3],
                            (ServeK::CutAt(pm), _) => base[..(base.len() * (*pm as usize).min(1000)) / 1000].to_vec(),
                            (ServeK::CountPatched(extra), _) => {
                                let mut b = base.clone();
                                let n = u32::from_be_bytes(b[0..4].try_into().unwrap()).wrapping_add(1);
                                b[0..4].copy_from_slice(&n.to_be_bytes());
                                b.extend(rnd_bytes(rng, (*extra as usize).clamp(1, 15)));
                                b
                            }
                            (ServeK::HeaderOnly(extra), _) => {
                                let mut b = base[..BLOCK_HEADER_SIZE.min(base.len())].to_vec();
                                b[0..4].copy_from_slice(&1u32.to_be_bytes());
                                b.extend(rnd_bytes(rng, (*extra as usize).clamp(1, 15)));
                                b
                            }
                            (ServeK::Empty, _) => vec![],
                            (ServeK::Garbage, _) => rnd_bytes(rng, 300),
                            (ServeK::OtherBlock, _) | (ServeK::AsAnnounced, None) => self.w.buffers[&self.w.chain[0].0].clone(),
                            (ServeK::Fail, _) => unreachable!(),
                        };
                        // what verify_block will make of it is asked of the real decoder (a panic in there is
                        // caught again when the real handler runs)
                        let fk = {
                            let b2 = buffer.clone();
                            let (h, id) = (f.hash, f.id);
                            match std::panic::catch_unwind(move || match Block::deserialize_from_net(&b2) {
                                Err(_) => "FUndecodable",
                                Ok(mut blk) => {
                                    if blk.generate().is_err() {
                                        "FUndecodable"
                                    } else if blk.hash == h && blk.id == id {
                                        "FAnnounced"
                                    } else {
                                        "FMismatch"
                                    }
                                }
                            }) {
                                Ok(x) => x,
                                Err(_) => "FUndecodable",
                            }
                        };
                        (NetworkEvent::BlockFetched { block_hash: f.hash, block_id: f.id, peer_index: f.idx, buffer }, format!("EFetched {}", fk))
                    }
                };
                // how much the sender's invalid-block counter moved is observed for announced blocks (their
                // validity is the consensus model's business); for the other kinds the model predicts it
                let before = self.inv_count(f.idx).await;
                let r = self.attack_event(f.idx, ev, kind.clone(), false).await;
                if let (ServeK::Fail, Ok(_)) = (k, &r) {
                    // BlockchainSyncState::mark_as_failed releases the entry (it is retried, 500 times at most, out of
                    // the same per-peer quota): within a few scheduling rounds the number of fetches in flight towards
                    // that peer is back to what it was -- the failed block or the next queued one is asked for.
                    // A fetch that is never released keeps its quota slot for ever.
                    let applies = f.hash != [0u8; 32] && {
                        let peers = self.w.n.peers.read().await;
                        let bc = self.w.n.blockchain.read().await;
                        peers.index_to_peers.get(&f.idx).map(|p| !p.block_fetch_url.is_empty()).unwrap_or(false) && !bc.is_block_indexed(f.hash)
                    };
                    if applies {
                        for _ in 0..3 {
                            self.w.n_timer(2000, true).await?;
                            self.w.pump().await?;
                        }
                        let known_now = self.w.n.blockchain.read().await.is_block_indexed(f.hash);
                        let in_flight_now = self.w.pending_fetches.iter().filter(|x| x.idx == f.idx).count();
                        if !known_now && in_flight_now < in_flight_before_serve {
                            self.limiter_failures.push(format!(
                                "the fetch of block id {} from connection {} was reported failed; {} fetches were in flight towards that connection before, {} are three scheduling rounds later: the failed fetch was not released (failed fetches must be retried / their quota slot reused)",
                                f.id, f.idx, in_flight_before_serve, in_flight_now
                            ));
                        }
                    }
                }
                let after = self.inv_count(f.idx).await;
                if kind == "EFetched FAnnounced" {
                    if let Some(last) = self.w.trace.last_mut() {
                        last.term = format!("EFetched (FObserved {})", gal::n(after.saturating_sub(before)));
                    }
                    self.inv_seen.insert(f.idx, after);
                } else if kind.starts_with("EFetched") {
                    // the model predicts +1 for a buffer that does not decode / does not match, if it got past the gate;
                    // anything beyond that (a deferred verdict landing in the same pump) is reported separately
                    let predicted = if let Ok(0) = r { 1 } else { 0 };
                    self.inv_seen.insert(f.idx, before + predicted);
                }
                r?;
            }
        }
        Ok(())
    }

    /// verdicts of the consensus thread on blocks that were parked when they arrived move the invalid-block
    /// counter of the peer they came from at a later time: told to the model as an input
    async fn deferred_verdicts(&mut self) {
        for c in [2u64, 3, 4, IDX_NEVER] {
            let (exists, count, last) = {
                let peers = self.w.n.peers.read().await;
                match peers.index_to_peers.get(&c) {
                    Some(p) => {
                        let (cnt, l) = parse_limiter(&format!("{:?}", p.invalid_block_limiter));
                        (true, cnt, l)
                    }
                    None => (false, 0, 0),
                }
            };
            let _ = last;
            let seen = self.inv_seen.get(&c).copied().unwrap_or(0);
            if exists && count > seen {
                self.w.trace.push(MEv { now: self.w.now, idx: c, term: format!("EInvalid {}", gal::n(count - seen)), outcome: 0, finding: String::new(), repeat: 1 });
            }
            if exists {
                self.inv_seen.insert(c, count);
            } else {
                self.inv_seen.remove(&c);
            }
        }
    }

    /// the fetch quota is per peer (BlockchainSyncState::get_blocks_to_fetch_per_peer, batch size 10): an
    /// authenticated peer with a fetch url and fewer than 10 fetches in flight that announces an unknown,
    /// acceptable block must be asked for a block, whatever other peers have in flight.
    /// Returns the number of fetches in flight towards the connection if the rule applies to this announcement.
    async fn quota_probe(&self, conn: u64, id: u64) -> Option<usize> {
        if self.fetch_failed.contains(&conn) {
            // failed fetches are retried out of the same quota without a new request: not judged
            return None;
        }
        let has_url = {
            let peers = self.w.n.peers.read().await;
            peers.index_to_peers.get(&conn).map(|p| !p.block_fetch_url.is_empty() && p.public_key.is_some()).unwrap_or(false)
        };
        let acceptable = {
            let bc = self.w.n.blockchain.read().await;
            bc.blocks.is_empty() || id > bc.lowest_acceptable_block_id
        };
        let in_flight = self.w.pending_fetches.iter().filter(|f| f.idx == conn).count();
        if has_url && acceptable && in_flight < 10 {
            Some(in_flight)
        } else {
            None
        }
    }
    fn quota_check(&mut self, conn: u64, before: Option<usize>) {
        if let Some(b) = before {
            let now = self.w.pending_fetches.iter().filter(|f| f.idx == conn).count();
            if now <= b {
                let others: usize = self.w.pending_fetches.iter().filter(|f| f.idx != conn).count();
                self.limiter_failures.push(format!(
                    "connection {} announced an unknown block with {} of 10 fetches in flight and was not asked for any block ({} fetches in flight towards other peers): the fetch quota must be per peer",
                    conn, b, others
                ));
            }
        }
    }

    async fn inv_count(&self, idx: u64) -> u64 {
        let peers = self.w.n.peers.read().await;
        peers.index_to_peers.get(&idx).map(|p| parse_limiter(&format!("{:?}", p.invalid_block_limiter)).0).unwrap_or(0)
    }

    /// the builders follow whatever chain N and B are on (valid attacker blocks, blocks N produced)
    async fn sync_builders(&mut self) {
        for from_n in [false, true] {
            let mut missing: Vec<SaitoHash> = vec![];
            {
                let sut = if from_n { &self.w.n } else { &self.w.b };
                let bc = sut.blockchain.read().await;
                let mut cur = bc.get_latest_block_hash();
                let mut guard = 0;
                while cur != [0; 32] && self.w.builder.blockchain.get_block(&cur).is_none() && guard < 200 {
                    guard += 1;
                    missing.push(cur);
                    cur = match bc.get_block(&cur) {
                        Some(b) => b.previous_block_hash,
                        None => [0; 32],
                    };
                }
            }
            missing.reverse();
            for h in missing {
                if let Some(bytes) = self.w.buffers.get(&h).cloned() {
                    for which in 0..2 {
                        if let Ok(fresh) = Block::deserialize_from_net(&bytes) {
                            let nd = if which == 0 { &mut self.w.builder } else { &mut self.w.abuilder };
                            if nd.blockchain.get_block(&h).is_none() {
                                let _ = futures_catch(AssertUnwindSafe(nd.add_block(fresh))).await;
                            }
                        }
                    }
                }
            }
        }
    }
}

/// must the honest-visible state be untouched by this action (the sender's own entry excepted)?
fn frame_expected(act: &Act, spec: &CaseSpec) -> bool {
    match act {
        Act::AConnect(_) | Act::ADisconnect(..) => true,
        Act::AMsg(_, m) | Act::AFlood(_, m, _) => match m {
            // must be refused by VerificationThread::verify_tx: nothing may be staged or pooled
            Msg::Tx(TxK::BadSig) | Msg::Tx(TxK::Unfunded) | Msg::Tx(TxK::SelfHop) | Msg::Tx(TxK::BadHopSig) | Msg::Tx(TxK::HugeOut) => true,
            // valid, or accepted for staging by the code as it is (typed transactions, golden tickets)
            Msg::Tx(_) => false,
            _ => true,
        },
        // announcing triggers at most a fetch
        Act::AAnnounce(..) | Act::AAnnounceUnknown(..) => true,
        // the served buffer may be a valid block (judged below from the crafted kind)
        Act::AServe(ServeK::AsAnnounced) => false,
        // a different block than the one asked for (decided in run_case: not if the genesis block was asked for)
        Act::AServe(ServeK::OtherBlock) => true,
        Act::AServe(_) => true,
        _ => false,
    }
}

async fn run_case(spec: &CaseSpec) -> CaseOut {
    let mut params = Params::default();
    params.genesis_period = spec.gp;
    params.heartbeat = HEARTBEAT;
    params.initial_loading_completed = spec.loading_completed;
    EVAL_ON.store(0, Ordering::Relaxed);
    let w = match World::new(&params, spec.n_blocks, spec.spv_n).await {
        Ok(w) => w,
        Err(e) => {
            return CaseOut { build_error: Some(e), ..Default::default() };
        }
    };
    let mut r = Runner { w, out: CaseOut::default(), log_eval: spec.log_eval, ghost_anc0: true, limiter_failures: vec![], fetch_failed: BTreeSet::new(), lite: spec.spv_n, inv_seen: BTreeMap::new() };
    if r.log_eval || std::env::var("C11_LOG").is_ok() {
        EVAL_ON.store(if std::env::var("C11_LOG").is_ok() { 2 } else { 1 }, Ordering::Relaxed);
    }
    // crafted blocks that must be rejected, by hash
    let mut must_reject: BTreeMap<SaitoHash, SaitoHash> = BTreeMap::new();
    let mut crafted_kind: BTreeMap<SaitoHash, String> = BTreeMap::new();
    for (pos, (orig, act)) in spec.steps.iter().enumerate() {
        println!("@@STEP\t{}\t{}", pos, act.label());
        let _ = std::io::stdout().flush();
        let mut rng = Rng::new(spec.seed ^ (0x9E37_79B9_7F4A_7C15u64.wrapping_mul(*orig as u64 + 1)));
        let sender = match act {
            Act::AConnect(c) | Act::ADisconnect(c, _) | Act::AMsg(c, _) | Act::AFlood(c, _, _) | Act::AAnnounce(c, _) | Act::AAnnounceUnknown(c, _) => Some(*c),
            Act::AServe(_) => r.w.pending_fetches.first().map(|f| f.idx),
            _ => None,
        };
        let mut frame = act.is_attacker() && frame_expected(act, spec);
        if let Act::AServe(ServeK::AsAnnounced) = act {
            if let Some(f) = r.w.pending_fetches.first() {
                // a crafted block that must be rejected, offered to a node that has its parent
                // (a block that does not extend the tip is kept as an unvalidated fork candidate, and a lite
                // node does not validate what follows a ghost block: neither is a rejection)
                frame = match must_reject.get(&f.hash) {
                    Some(parent) => !spec.spv_n && r.w.n.blockchain.read().await.get_latest_block_hash() == *parent,
                    None => false,
                };
            }
        }
        if let Act::AServe(ServeK::OtherBlock) = act {
            frame = r.w.pending_fetches.first().map(|f| f.hash != r.w.chain[0].0).unwrap_or(false);
        }
        if let Act::AAnnounce(_, k) = act {
            // remember which crafted blocks must be rejected (same rng stream as the step itself)
            let mut rng2 = Rng::new(spec.seed ^ (0x9E37_79B9_7F4A_7C15u64.wrapping_mul(*orig as u64 + 1)));
            let seed_before = r.w.gt_seed;
            let slips_before = r.w.a_slips.clone();
            let parent = r.w.abuilder.blockchain.get_latest_block_hash();
            if let Ok((h, _, _, rej)) = r.w.crafted_block(k, &mut rng2).await {
                crafted_kind.insert(h, format!("{:?}", k));
                if rej {
                    must_reject.insert(h, parent);
                }
            }
            r.w.gt_seed = seed_before;
            r.w.a_slips = slips_before;
        }
        let served_kind = match act {
            Act::AServe(ServeK::AsAnnounced) => r.w.pending_fetches.first().and_then(|f| crafted_kind.get(&f.hash).cloned()).unwrap_or_default(),
            _ => String::new(),
        };
        if served_kind.starts_with("UnknownParent") && !spec.loading_completed {
            r.w.orphan_delivered = true;
        }
        // after C05's orphan branch (a block with an unknown parent stored on a node with
        // initial_loading_completed = false) the chain index no longer describes one chain: the digest of such a
        // state is not a reference any more, only crash-freedom is judged from there on
        let frame = frame && !r.w.orphan_delivered;
        let mut pre_err: Option<Stop> = None;
        let before = if frame {
            // honest work that is still under way (a chain sync from B spread over several fetch rounds) must
            // not be charged to the attacker's step: let it finish first (clock unchanged)
            if r.w.link {
                let mut last = format!("{:?}", futures_catch(AssertUnwindSafe(r.w.digest(sender))).await.ok());
                for _ in 0..6 {
                    let res = async {
                        r.w.n_timer(2000, true).await?;
                        r.w.pump().await
                    }
                    .await;
                    if let Err(e) = res {
                        pre_err = Some(e);
                        break;
                    }
                    let now = format!("{:?}", futures_catch(AssertUnwindSafe(r.w.digest(sender))).await.ok());
                    if now == last {
                        break;
                    }
                    last = now;
                }
            }
            match futures_catch(AssertUnwindSafe(r.w.digest(sender))).await {
                Ok(d) => Some(d),
                Err(m) => {
                    r.out.failures.push((pos, act.label(), None, format!("state unreadable before the step: {}", m)));
                    None
                }
            }
        } else {
            None
        };
        let calls0 = r.w.n.calls + r.w.b.calls;
        let res = match pre_err {
            Some(e) => Err(e),
            None => r.step(act, &mut rng).await,
        };
        r.out.steps_run = pos + 1;
        r.out.stats.push(("action".to_string(), act.label().split('(').next().unwrap_or("").to_string()));
        if let Act::AMsg(_, m) | Act::AFlood(_, m, _) = act {
            let tag = format!("{:?}", m);
            let state = match sender.and_then(|c| r.w.att.get(&c)) {
                Some(a) if a.key.is_some() => "after-handshake",
                Some(a) if a.connected => "connected-no-handshake",
                Some(_) => "not-connected",
                None => "never-connected-index",
            };
            r.out.stats.push(("tag_x_state".to_string(), format!("{} / {}", tag.split('(').next().unwrap_or(""), state)));
        }
        match res {
            Ok(()) => {}
            Err(Stop::Panic(p)) => {
                EVAL_ON.store(0, Ordering::Relaxed);
                let mut id = classify(&p, act);
                // only the documented consequence of the orphan branch, not every panic after it
                if id.is_none() && r.w.orphan_delivered && p.msg.contains("invalid total supply") {
                    id = Some("orphan-block-follow-up");
                }
                let what = format!("{} panicked in {} at {}: {}", p.node, p.handler, p.loc, p.msg.chars().take(200).collect::<String>());
                if let Some(last) = r.w.trace.last_mut() {
                    if last.outcome == 3 {
                        last.finding = id.unwrap_or("UNLISTED").to_string();
                    }
                }
                r.out.failures.push((pos, act.label(), id.map(|s| s.to_string()), what));
                break;
            }
            Err(Stop::Livelock(m)) => {
                r.out.failures.push((pos, act.label(), None, format!("stall: {}", m)));
                break;
            }
        }
        r.deferred_verdicts().await;
        if !r.limiter_failures.is_empty() {
            let f = r.limiter_failures[0].clone();
            r.out.failures.push((pos, act.label(), None, format!("rule not enforced: {}", f)));
            break;
        }
        if r.w.n.calls + r.w.b.calls - calls0 > MAX_CALLS_PER_STEP {
            r.out.failures.push((pos, act.label(), None, "stall: handler call budget of one step exceeded".to_string()));
            break;
        }
        if let Some(before) = before {
            match futures_catch(AssertUnwindSafe(r.w.digest(sender))).await {
                Ok(after) => {
                    let changed: Vec<String> = before.iter().zip(after.iter()).filter(|(a, b)| a.1 != b.1).map(|(a, b)| format!("{}: {} => {}", a.0, a.1, b.1)).collect();
                    if !changed.is_empty() {
                        let id = match act {
                            // since fix 92b2ed5 a full node ignores ghost chains; a lite node still takes them from any peer
                            // (the fabricated tip also moves the window: ledger entries and wallet slips fall out of it)
                            Act::AMsg(_, Msg::GhostChain(_)) | Act::AFlood(_, Msg::GhostChain(_), _) if spec.spv_n && changed.iter().all(|c| ["chain", "utxo", "wallet", "mempool"].iter().any(|n| c.starts_with(n))) => Some("unsolicited-ghost-chain-accepted-lite".to_string()),
                            _ => None,
                        };
                        let names: Vec<&str> = changed.iter().map(|c| c.split(':').next().unwrap_or("")).collect();
                        let txt: String = format!("[{}] {}", names.join(","), changed.join(" ;; ")).chars().take(700).collect();
                        r.out.failures.push((pos, act.label(), id, format!("rejected input {} changed honest-visible state: {}", served_kind, txt)));
                        // the state is no longer what an honest run would have: the case ends here
                        // (C11_CONTINUE=1: keep going, to look at the consequences of a listed finding)
                        if std::env::var("C11_CONTINUE").is_err() && !(spec.continue_after_known && r.out.failures.last().map(|f| f.2.is_some()).unwrap_or(false)) {
                            break;
                        }
                    }
                }
                Err(m) => {
                    r.out.failures.push((pos, act.label(), None, format!("state unreadable after the step: {}", m)));
                    break;
                }
            }
        }
    }
    EVAL_ON.store(0, Ordering::Relaxed);
    r.out.final_obs = r.w.conn_obs().await;
    r.out.trace = std::mem::take(&mut r.w.trace);
    r.out.handler_calls = r.w.n.calls + r.w.b.calls;
    for (t, c) in &r.w.to_attacker {
        r.out.stats.push(("sent_to_attacker_tag".to_string(), format!("{:02}x{}", t, if *c > 9 { "10+".to_string() } else { c.to_string() })));
    }
    {
        let bc = r.w.n.blockchain.read().await;
        r.out.stats.push(("n_tip_at_end".to_string(), format!("{:02}", bc.get_latest_block_id().min(99))));
    }
    r.out
}


// ------------------------------------------------------------------ case generation

fn base_spec(kind: &str, seed: u64, steps: Vec<Act>) -> CaseSpec {
    CaseSpec {
        kind: kind.to_string(),
        gp: 20,
        loading_completed: true,
        log_eval: false,
        spv_n: false,
        n_blocks: 2,
        seed,
        steps: steps.into_iter().enumerate().collect(),
        continue_after_known: false,
        stall_budget_s: None,
    }
}

fn handshake(c: u64, key: u8) -> Vec<Act> {
    vec![Act::AConnect(c), Act::AMsg(c, Msg::Response(RespK::Valid(key)))]
}

/// fixed cases run first on every run: honest traffic only, and the minimal sequence of every crash path found so far
fn scripted(seed: u64) -> Vec<CaseSpec> {
    let mut v = vec![];
    let cat = |a: Vec<Vec<Act>>| -> Vec<Act> { a.into_iter().flatten().collect() };
    // 0: honest traffic only
    v.push(base_spec("honest-only", seed, vec![Act::HConnect, Act::HTx, Act::Tick(1000), Act::HBlock(true), Act::Tick(2000), Act::NMine, Act::HBlock(false), Act::HDisconnect, Act::Tick(2100), Act::HConnect, Act::HBlock(true), Act::Tick(5000)]));
    // 1: a Block-tagged message
    v.push(base_spec("block-tag", seed, vec![Act::AConnect(2), Act::AMsg(2, Msg::BlockTag)]));
    // 2: ghost chain request from a connection without a key
    v.push(base_spec("ghost-request-no-key", seed, vec![Act::HConnect, Act::AConnect(2), Act::AMsg(2, Msg::GhostReq(IdK::Tip, HashK::Tip, HashK::Zero))]));
    // 3: 101 key lists in one minute, with and without evaluated debug! arguments
    v.push(base_spec("key-list-flood", seed, vec![Act::AConnect(2), Act::AFlood(2, Msg::KeyList(1), 101)]));
    let mut c = base_spec("key-list-flood-logged", seed, cat(vec![handshake(2, 0), vec![Act::AFlood(2, Msg::KeyList(2), 101)]]));
    c.log_eval = true;
    v.push(c);
    // 5: golden-ticket typed transaction with an empty payload
    v.push(base_spec("gt-tx-len0", seed, cat(vec![vec![Act::HConnect], handshake(2, 0), vec![Act::AMsg(2, Msg::Tx(TxK::GtLen(0)))]])));
    // 6: fetched block whose golden ticket payload has 96 bytes
    v.push(base_spec("gt-block-len96", seed, cat(vec![vec![Act::HConnect], handshake(2, 0), vec![Act::AAnnounce(2, BlockK::GtLen(96)), Act::AServe(ServeK::AsAnnounced)]])));
    // 7: fee-typed transaction without inputs, then the block-production timer
    v.push(base_spec("typed-no-inputs-then-tick", seed, cat(vec![vec![Act::HConnect], handshake(2, 0), vec![Act::AMsg(2, Msg::Tx(TxK::TypedNoInputs(1))), Act::Tick(1000)]])));
    // 8: valid block from the future, then the block-production timer
    v.push(base_spec("future-block-then-tick", seed, cat(vec![vec![Act::HConnect], handshake(2, 0), vec![Act::AAnnounce(2, BlockK::FutureTs), Act::AServe(ServeK::AsAnnounced), Act::Tick(1000)]])));
    v.push(base_spec("block-dup-input", seed, cat(vec![vec![Act::HConnect], handshake(2, 0), vec![Act::AAnnounce(2, BlockK::DupInput), Act::AServe(ServeK::AsAnnounced)]])));
    v.push(base_spec("ghost-request-id-max", seed, cat(vec![vec![Act::HConnect], handshake(2, 0), vec![Act::AMsg(2, Msg::GhostReq(IdK::Max, HashK::Random, HashK::Random))]])));
    v.push(base_spec("block-id-gap", seed, cat(vec![vec![Act::HConnect], handshake(2, 0), vec![Act::AAnnounce(2, BlockK::WrongId), Act::AServe(ServeK::AsAnnounced), Act::HBlock(false)]])));
    // a pooled golden ticket that targets the tip without solving it, then the production tick
    v.push(base_spec("gt-unsolved-then-tick", seed, vec![Act::HConnect, Act::AConnect(2), Act::AMsg(2, Msg::Tx(TxK::GtLen(97))), Act::Tick(1000)]));
    // C05's orphan branch with a crash at the end (initial_loading_completed = false as on every real node)
    let mut c = base_spec("orphan-follow-up", seed, cat(vec![vec![Act::HConnect], handshake(2, 0), vec![Act::HTx, Act::AAnnounce(2, BlockK::UnknownParent(true)), Act::Tick(2100), Act::AConnect(3), Act::AMsg(3, Msg::Tx(TxK::Valid)), Act::HBlock(true), Act::AServe(ServeK::AsAnnounced), Act::Tick(5000), Act::HBlock(false), Act::Tick(5000)]]));
    c.loading_completed = false;
    v.push(c);
    // responses that must be rejected on an entry that already completed its handshake
    v.push(base_spec("bad-response-after-handshake", seed, cat(vec![handshake(2, 0), vec![Act::AMsg(2, Msg::Response(RespK::Valid(0))), Act::AConnect(3), Act::AMsg(3, Msg::Response(RespK::Valid(0))), Act::AMsg(3, Msg::Challenge), Act::AMsg(3, Msg::Response(RespK::BadSig(0))), Act::AConnect(4), Act::AMsg(4, Msg::Response(RespK::Valid(0))), Act::AMsg(4, Msg::Challenge), Act::AMsg(4, Msg::Response(RespK::OtherMinor(0)))]])));
    // block buffers at the decoder's boundaries
    let mut a = cat(vec![vec![Act::HConnect], handshake(2, 0)]);
    for k in [ServeK::CountPatched(1), ServeK::CountPatched(15), ServeK::HeaderOnly(1), ServeK::HeaderOnly(15), ServeK::CutAt(999), ServeK::CutAt(500)] {
        a.push(Act::AAnnounce(2, BlockK::Valid));
        a.push(Act::AServe(k));
    }
    v.push(base_spec("block-buffer-boundaries", seed, a));
    // an entry disconnected for more than 600 s is purged by the routing timer (PeerCollection::remove_disconnected_peers)
    let mut a = cat(vec![handshake(2, 0), vec![Act::AConnect(3), Act::ADisconnect(2, false)]]);
    for _ in 0..10 {
        a.push(Act::Tick(61_000));
    }
    a.extend(vec![Act::Tick(5000), Act::AMsg(2, Msg::Ping), Act::AMsg(3, Msg::Ping), Act::AConnect(2), Act::AMsg(2, Msg::Ping)]);
    v.push(base_spec("purge-after-600s", seed, a));
    // local events: stun peers, failed connection attempt, a verification batch
    v.push(base_spec("local-events", seed, vec![Act::HConnect, Act::LStun(true), Act::LStun(true), Act::HTxBatch, Act::LConnErr, Act::AConnect(2), Act::AMsg(2, Msg::Tx(TxK::BadSig)), Act::Tick(1000), Act::LStun(false), Act::LStun(false), Act::HBlock(true), Act::HTxBatch]));
    // every crafted block kind offered on the tip of a synced full node: the ones that must be rejected first
    let mut a = cat(vec![vec![Act::HConnect], handshake(2, 0)]);
    for k in [BlockK::GtLen(0), BlockK::GtLen(96), BlockK::GtLen(98), BlockK::ExtraFee, BlockK::BadMerkle, BlockK::BadCreatorSig, BlockK::WrongId, BlockK::IdZero, BlockK::IssuanceTx, BlockK::HostileHop, BlockK::TypedTx(1), BlockK::TypedTx(3), BlockK::TypedTx(4), BlockK::TypedTx(5), BlockK::TypedTx(7), BlockK::TypedTx(8), BlockK::BadBurnfee, BlockK::OldTs, BlockK::DupInput, BlockK::UnknownParent(true), BlockK::UnknownParent(false), BlockK::TwoGt, BlockK::Valid] {
        a.push(Act::AAnnounce(2, k));
        a.push(Act::AServe(ServeK::AsAnnounced));
    }
    a.push(Act::HBlock(true));
    v.push(base_spec("every-crafted-block-on-the-tip", seed, a));
    // two announcing peers that never serve: the fetch quota (10 in flight) is per peer
    v.push(base_spec("two-announcers", seed, cat(vec![vec![Act::HConnect], handshake(2, 0), handshake(3, 0), vec![Act::AFlood(2, Msg::HeaderHash(HashK::Random, IdK::TipPlus1), 20), Act::AFlood(3, Msg::HeaderHash(HashK::Random, IdK::TipPlus1), 5), Act::Tick(2100), Act::AMsg(3, Msg::HeaderHash(HashK::Random, IdK::TipPlus1)), Act::AMsg(2, Msg::Ping), Act::AAnnounceUnknown(3, IdK::TipPlus1), Act::Tick(2100), Act::HBlock(false)]])));
    // Bound-typed transactions with short output lists (NFT branches of Transaction::validate)
    let mut a = cat(vec![vec![Act::HConnect], handshake(2, 0)]);
    for k in [TxK::BoundShort(0), TxK::BoundShort(1), TxK::BoundShort(2), TxK::BoundNewShort(0), TxK::BoundNewShort(1), TxK::BoundNewShort(2), TxK::TypedFunded(8), TxK::TypedNoInputs(8)] {
        a.push(Act::AMsg(2, Msg::Tx(k)));
    }
    a.push(Act::Tick(1000));
    v.push(base_spec("bound-short-outputs", seed, a));
    // failed fetches are retried: the entry must be released and asked for again
    v.push(base_spec("fetch-failed-is-retried", seed, cat(vec![vec![Act::HConnect], handshake(3, 0), vec![Act::AAnnounceUnknown(3, IdK::TipPlus1), Act::AServe(ServeK::Fail), Act::AAnnounceUnknown(3, IdK::Far), Act::AServe(ServeK::Fail), Act::AServe(ServeK::Fail), Act::Tick(2100), Act::AMsg(3, Msg::Ping)]])));
    // key change on an authenticated entry (listed under C17)
    v.push(base_spec("key-change", seed, cat(vec![handshake(2, 0), vec![Act::AMsg(2, Msg::Challenge), Act::AMsg(2, Msg::Response(RespK::Valid(1)))]])));
    // 10: unsolicited ghost chain on a full node
    v.push(base_spec("ghost-chain-unsolicited", seed, vec![Act::HConnect, Act::AConnect(2), Act::AMsg(2, Msg::GhostChain(GcK::Extend(3, false))), Act::Tick(1000), Act::HBlock(false)]));
    // 11: handshake limiter
    v.push(base_spec("handshake-flood", seed, vec![Act::AConnect(2), Act::AFlood(2, Msg::Challenge, 120), Act::AMsg(2, Msg::Response(RespK::Valid(0)))]));
    // 12: message limiter (100 000 per second)
    v.push(base_spec("message-flood", seed, vec![Act::AConnect(3), Act::AFlood(3, Msg::Ping, 100_050), Act::AMsg(3, Msg::KeyList(1)), Act::Tick(1500), Act::AMsg(3, Msg::Ping)]));
    // 13: invalid-block limiter: eleven bad buffers
    let mut a = cat(vec![vec![Act::HConnect], handshake(2, 0)]);
    for _ in 0..12 {
        a.push(Act::AAnnounceUnknown(2, IdK::TipPlus1));
        a.push(Act::AServe(ServeK::Garbage));
    }
    v.push(base_spec("invalid-block-limiter", seed, a));
    // 14: N is a lite node syncing a ghost chain from B, with attacker ghost chains in between
    let mut c = base_spec("spv-node", seed, vec![Act::HConnect, Act::AConnect(2), Act::AMsg(2, Msg::GhostChain(GcK::HostileIds)), Act::HBlock(true), Act::AMsg(2, Msg::GhostChain(GcK::Extend(2, true))), Act::Tick(2000)]);
    c.spv_n = true;
    v.push(c);
    // 15: everything on an index that never connected
    let mut a = vec![Act::HConnect];
    for m in [Msg::BlockTag, Msg::GhostReq(IdK::Max, HashK::Random, HashK::Random), Msg::KeyList(5), Msg::Tx(TxK::GtLen(0)), Msg::Response(RespK::Valid(0)), Msg::Undecodable(2)] {
        a.push(Act::AMsg(IDX_NEVER, m));
    }
    a.push(Act::ADisconnect(IDX_NEVER, true));
    a.push(Act::ADisconnect(IDX_NEVER, false));
    v.push(base_spec("never-connected-index", seed, a));
    // an unsolicited ghost chain whose last entry has id u64::MAX makes that the "latest block id"; a ghost chain
    // request (authenticated connection) then loops over 2^64 ids in generate_ghost_chain: the handler never returns
    let mut c = base_spec("ghost-max-id-stall", seed, vec![Act::HConnect, Act::AConnect(2), Act::AMsg(2, Msg::Response(RespK::Valid(0))), Act::AMsg(2, Msg::GhostChain(GcK::MaxLast)), Act::AMsg(2, Msg::GhostReq(IdK::One, HashK::Zero, HashK::Zero))]);
    c.continue_after_known = true;
    c.stall_budget_s = Some((8, "ghost-chain-max-id-request-stall"));
    v.push(c);
    // the same on a lite node, which still takes ghost chains from any peer
    let mut c = base_spec("ghost-max-id-stall-lite", seed, vec![Act::HConnect, Act::AConnect(2), Act::AMsg(2, Msg::Response(RespK::Valid(0))), Act::AMsg(2, Msg::GhostChain(GcK::MaxLast)), Act::AMsg(2, Msg::GhostReq(IdK::One, HashK::Zero, HashK::Zero))]);
    c.spv_n = true;
    c.continue_after_known = true;
    c.stall_budget_s = Some((8, "ghost-chain-max-id-request-stall-lite"));
    v.push(c);
    v
}

fn pick_idk(rng: &mut Rng) -> IdK {
    rng.pick(&[IdK::Zero, IdK::One, IdK::Tip, IdK::TipPlus1, IdK::Max, IdK::Far]).clone()
}
fn pick_hashk(rng: &mut Rng) -> HashK {
    rng.pick(&[HashK::Zero, HashK::Tip, HashK::Genesis, HashK::Random, HashK::ForkId]).clone()
}

fn random_msg(rng: &mut Rng) -> Msg {
    // weights: the inputs already known to crash are kept rare so that sequences get past them
    let r = rng.below(1000);
    match r {
        0..=59 => Msg::Challenge,
        60..=159 => {
            let key = *rng.pick(&[0u8, 0, 0, 1]);
            match rng.below(10) {
                0..=5 => Msg::Response(RespK::Valid(key)),
                6..=7 => Msg::Response(RespK::BadSig(key)),
                8 => Msg::Response(RespK::UnsetVersion(key)),
                _ => Msg::Response(RespK::OtherMinor(key)),
            }
        }
        160..=169 => Msg::BlockTag,
        170..=399 => {
            let k = match rng.below(100) {
                0..=24 => TxK::Valid,
                25..=32 => TxK::BadSig,
                33..=40 => TxK::Unfunded,
                41..=44 => TxK::GtLen(*rng.pick(&[0usize, 96, 98, 1])),
                45..=52 => TxK::GtLen(97),
                53..=57 => TxK::TypedNoInputs(*rng.pick(&[1u8, 3, 5, 6])),
                58..=64 => TxK::TypedNoInputs(*rng.pick(&[4u8, 7, 8, 0])),
                65..=84 => TxK::TypedFunded(*rng.pick(&[1u8, 3, 4, 5, 6, 7, 8])),
                85..=86 => TxK::SelfHop,
                87 => TxK::BoundShort(rng.below(3) as usize),
                88 => TxK::BoundNewShort(rng.below(3) as usize),
                89 => TxK::BoundShort(1 + rng.below(2) as usize),
                90..=94 => TxK::BadHopSig,
                _ => TxK::HugeOut,
            };
            Msg::Tx(k)
        }
        400..=489 => Msg::ChainReq(pick_idk(rng), pick_hashk(rng), pick_hashk(rng)),
        490..=569 => Msg::HeaderHash(pick_hashk(rng), pick_idk(rng)),
        570..=599 => Msg::Ping,
        600..=619 => Msg::Spv,
        620..=659 => Msg::Services(rng.below(4) as usize),
        660..=679 => Msg::GhostChain(match rng.below(4) {
            0 => GcK::Empty,
            1 => if rng.chance(1, 2) { GcK::HostileIds } else { GcK::MaxLast },
            _ => GcK::Extend(1 + rng.below(3) as usize, rng.chance(1, 2)),
        }),
        680..=719 => Msg::Services(rng.below(4) as usize),
        720..=749 => Msg::GhostReq(pick_idk(rng), pick_hashk(rng), pick_hashk(rng)),
        750..=779 => Msg::HeaderHash(pick_hashk(rng), pick_idk(rng)),
        780..=809 => Msg::App(rng.next() as u32, rng.below(40) as usize),
        810..=839 => Msg::ResultMsg(rng.next() as u32, rng.below(40) as usize),
        840..=869 => Msg::ErrorMsg(rng.next() as u32, rng.below(40) as usize),
        870..=929 => Msg::KeyList(*rng.pick(&[0usize, 1, 5, 200])),
        _ => Msg::Undecodable(rng.below(12) as u8),
    }
}

fn random_blockk(rng: &mut Rng) -> BlockK {
    match rng.below(100) {
        0..=21 => BlockK::Valid,
        22..=26 => BlockK::GtLen(*rng.pick(&[0usize, 96, 98])),
        27..=33 => BlockK::TwoGt,
        34..=40 => BlockK::ExtraFee,
        41..=44 => BlockK::FutureTs,
        45..=50 => BlockK::BadMerkle,
        51..=56 => BlockK::BadCreatorSig,
        57..=59 => BlockK::WrongId,
        60..=62 => BlockK::IdZero,
        63..=70 => BlockK::UnknownParent(rng.chance(1, 2)),
        71..=75 => BlockK::IssuanceTx,
        76..=81 => BlockK::HostileHop,
        82..=89 => BlockK::TypedTx(*rng.pick(&[1u8, 3, 4, 5, 7, 8])),
        90..=92 => BlockK::BadBurnfee,
        93..=94 => BlockK::DupInput,
        _ => BlockK::OldTs,
    }
}

fn random_case(rng: &mut Rng, thorough: bool) -> CaseSpec {
    let max_len = if thorough { 40 } else { 12 };
    let len = rng.range(3, max_len + 1) as usize;
    let mut steps: Vec<Act> = vec![];
    let presync = rng.chance(7, 10);
    if presync {
        steps.push(Act::HConnect);
    }
    // what the generator believes about the attacker's connections (the node may have dropped them meanwhile)
    let mut connected: BTreeSet<u64> = BTreeSet::new();
    let mut keyed: BTreeSet<u64> = BTreeSet::new();
    let mut pending_serves = 0usize;
    while steps.len() < len {
        let conn = match rng.below(20) {
            0..=11 => 2,
            12..=15 => 3,
            16..=18 => 4,
            _ => IDX_NEVER,
        };
        // most hostile traffic comes over an open connection, about half of it after the attacker's own handshake
        let mut prepare = |steps: &mut Vec<Act>, rng: &mut Rng, want_key: bool| {
            if conn == IDX_NEVER {
                return;
            }
            if !connected.contains(&conn) && rng.chance(9, 10) {
                steps.push(Act::AConnect(conn));
                connected.insert(conn);
            }
            if connected.contains(&conn) && !keyed.contains(&conn) && (want_key || rng.chance(1, 2)) {
                steps.push(Act::AMsg(conn, Msg::Response(RespK::Valid(0))));
                keyed.insert(conn);
            }
        };
        let r = rng.below(100);
        let act = match r {
            0..=3 => Act::HConnect,
            4..=9 => Act::HBlock(rng.chance(1, 2)),
            10..=13 => Act::HTx,
            14..=15 => Act::HDisconnect,
            16..=24 => Act::Tick(*rng.pick(&[100u64, 1000, 2100, 5000, 61_000])),
            25..=26 => Act::NMine,
            27 => match rng.below(4) {
                0 => Act::LStun(true),
                1 => Act::LStun(false),
                2 => Act::LConnErr,
                _ => Act::HTxBatch,
            },
            28..=30 => {
                connected.insert(conn);
                Act::AConnect(conn)
            }
            31..=34 => {
                connected.remove(&conn);
                Act::ADisconnect(conn, rng.chance(1, 2))
            }
            35..=72 => {
                prepare(&mut steps, rng, false);
                let m = random_msg(rng);
                if let Msg::Undecodable(_) = m {
                    connected.remove(&conn);
                }
                Act::AMsg(conn, m)
            }
            73..=75 => {
                prepare(&mut steps, rng, false);
                Act::AFlood(conn, random_msg(rng), *rng.pick(&[3u32, 20, 101, 130]))
            }
            76..=86 => {
                let wk = rng.chance(9, 10);
                prepare(&mut steps, rng, wk);
                pending_serves += 1;
                Act::AAnnounce(conn, random_blockk(rng))
            }
            87..=89 => {
                let wk = rng.chance(9, 10);
                prepare(&mut steps, rng, wk);
                pending_serves += 1;
                Act::AAnnounceUnknown(conn, pick_idk(rng))
            }
            _ => {
                if pending_serves == 0 {
                    continue;
                }
                pending_serves -= 1;
                Act::AServe(match rng.below(10) {
                    0..=5 => ServeK::AsAnnounced,
                    6 => match rng.below(4) {
                        0 => ServeK::Truncated,
                        1 => ServeK::CutAt(rng.below(1000) as u16),
                        2 => ServeK::CountPatched(1 + rng.below(15) as u8),
                        _ => ServeK::HeaderOnly(1 + rng.below(15) as u8),
                    },
                    7 => ServeK::Garbage,
                    8 => ServeK::OtherBlock,
                    _ => {
                        if rng.chance(1, 2) {
                            ServeK::Empty
                        } else {
                            ServeK::Fail
                        }
                    }
                })
            }
        };
        steps.push(act);
    }
    let mut c = base_spec("random", rng.next(), steps);
    c.gp = *rng.pick(&[8u64, 20]);
    c.loading_completed = rng.chance(1, 2);
    c.log_eval = rng.chance(1, 2);
    c.spv_n = rng.chance(1, 8);
    c.n_blocks = rng.range(1, 5) as usize;
    c
}

fn plan(seed: u64, tier: &str) -> Vec<CaseSpec> {
    let mut v = scripted(seed);
    let n_random: usize = match std::env::var("C11_CASES") {
        Ok(x) => x.parse().unwrap(),
        Err(_) => {
            if tier == "thorough" {
                30000
            } else {
                4000
            }
        }
    };
    let mut rng = Rng::new(seed ^ 0xC11);
    for _ in 0..n_random {
        v.push(random_case(&mut rng, tier == "thorough"));
    }
    v
}

fn spec_json(i: usize, spec: &CaseSpec) -> String {
    format!(
        "{{\"case\": {}, \"kind\": {}, \"genesis_period\": {}, \"initial_loading_completed\": {}, \"debug_log_arguments_evaluated\": {}, \"node_is_lite\": {}, \"chain_blocks_before\": {}, \"seed\": {}, \"steps\": [{}]}}",
        i,
        jstr(&spec.kind),
        spec.gp,
        spec.loading_completed,
        spec.log_eval,
        spec.spv_n,
        spec.n_blocks + 1,
        spec.seed,
        spec.steps.iter().map(|(_, a)| jstr(&a.label())).collect::<Vec<_>>().join(", ")
    )
}

fn coq_case(spec: &CaseSpec, out: &CaseOut) -> String {
    let evs: Vec<String> = out
        .trace
        .iter()
        .map(|e| format!("({}, {}, {}, {}, {}, \"{}\")", gal::n(e.now), gal::n(e.idx), e.term, gal::n(e.repeat), gal::n(e.outcome), e.finding))
        .collect();
    format!("mkCase {} {} {} {} {}", gal::boolean(spec.log_eval), gal::boolean(spec.spv_n), gal::boolean(cfg!(debug_assertions)), gal::list(&evs), gal::nllist(&out.final_obs))
}

// ------------------------------------------------------------------ worker: runs cases, one line of output per fact

fn emit(line: String) {
    let mut o = std::io::stdout().lock();
    let _ = writeln!(o, "{}", line.replace('\n', " "));
    let _ = o.flush();
}

async fn minimise(spec: &CaseSpec, what_loc: &str) -> CaseSpec {
    let mut cur = spec.clone();
    let mut budget = 80;
    loop {
        let mut shrunk = false;
        let mut k = 0;
        while k < cur.steps.len() && budget > 0 {
            let mut cand = cur.clone();
            cand.steps.remove(k);
            budget -= 1;
            let out = run_case(&cand).await;
            if out.failures.iter().any(|f| f.2.is_none() && f.3.contains(what_loc)) {
                cur = cand;
                shrunk = true;
            } else {
                k += 1;
            }
        }
        if !shrunk || budget == 0 {
            return cur;
        }
    }
}

fn worker(args: &Args, from: usize, to: usize) {
    let verbose = std::env::var("C11_DEBUG").is_ok();
    install_panic_hook(verbose);
    let _ = log::set_logger(&LOGGER);
    log::set_max_level(log::LevelFilter::Trace);
    let rt = tokio::runtime::Builder::new_current_thread().enable_all().build().unwrap();
    let cases = plan(args.seed, &args.tier);
    let mut minimised = 0;
    for (i, spec) in cases.iter().enumerate() {
        if i < from || i >= to {
            continue;
        }
        let mut spec_owned = spec.clone();
        if let Ok(keep) = std::env::var("C11_STEPS") {
            let keep: Vec<String> = keep.split(';').map(|x| x.trim().to_string()).collect();
            let mut it = keep.iter().peekable();
            spec_owned.steps.retain(|(_, a)| {
                if it.peek().map(|k| **k == a.label()).unwrap_or(false) {
                    it.next();
                    true
                } else {
                    false
                }
            });
        }
        let spec = &spec_owned;
        emit(format!("@@BEGIN\t{}", i));
        emit(format!("@@DESC\t{}", spec_json(i, spec)));
        if let Some((b, id)) = spec.stall_budget_s {
            emit(format!("@@BUDGET\t{}\t{}", b, id));
        }
        let out = rt.block_on(run_case(spec));
        if let Some(e) = &out.build_error {
            emit(format!("@@FAIL\t0\t-\tharness could not build the world: {}", e));
        }
        for (pos, label, id, what) in &out.failures {
            emit(format!("@@FAIL\t{}\t{}\tstep {} {}: {}", pos, id.clone().unwrap_or("-".to_string()), pos, label, what));
        }
        for (d, v) in &out.stats {
            emit(format!("@@STAT\t{}\t{}", d, v));
        }
        emit(format!("@@STAT\tlen\t{:02}", spec.steps.len()));
        emit(format!("@@STAT\tparams\tgp={} loading_completed={} log_eval={} lite={}", spec.gp, spec.loading_completed, spec.log_eval, spec.spv_n));
        emit(format!("@@COQ\t{}", coq_case(spec, &out)));
        emit(format!("@@NT\t{}\t{}", (out.attacker_events > 0) as u8, out.trace.iter().map(|e| format!("{}:{}:{}", e.idx, e.term, e.outcome)).collect::<Vec<_>>().join(";")));
        if let Some(f) = out.failures.iter().find(|f| f.2.is_none()) {
            if minimised < 3 && !f.3.contains("stall") {
                minimised += 1;
                // the part of the description that identifies the failure: location of the panic, or the first words
                let key: String = match f.3.find(" at ") {
                    Some(p) => f.3[p..].split(':').take(2).collect::<Vec<_>>().join(":"),
                    None => f.3.chars().take(40).collect(),
                };
                let m = rt.block_on(minimise(spec, &key));
                emit(format!("@@MIN\t{}", spec_json(i, &m)));
            }
        }
        emit(format!("@@END\t{}\t{}\t{}\t{}", i, out.steps_run, out.attacker_events, out.handler_calls));
    }
    emit("@@DONE".to_string());
}

// ------------------------------------------------------------------ supervisor: watchdog around the worker

#[derive(Default)]
struct CaseAcc {
    /// (seconds, listed finding) when a stall of this case is a listed finding
    budget: Option<(u64, String)>,
    desc: String,
    fails: Vec<(String, String)>,
    coq: Option<String>,
    last_step: String,
    min: Option<String>,
}

fn supervisor(args: &Args) {
    let total = plan(args.seed, &args.tier).len();
    let exe = std::env::current_exe().unwrap();
    let step_budget = Duration::from_secs(std::env::var("C11_STEP_BUDGET_S").ok().and_then(|v| v.parse().ok()).unwrap_or(60));
    let mut summary = Summary::new("C11");
    let mut coq_cases: Vec<String> = vec![];
    let mut descs: Vec<String> = vec![String::new(); total];
    let mut distinct: BTreeSet<String> = BTreeSet::new();
    let mut next = 0usize;
    let mut restarts = 0;
    let mut known_seen: BTreeSet<(String, String)> = BTreeSet::new();
    while next < total && restarts < 50 {
        let mut child = std::process::Command::new(&exe)
            .args(["--worker", "--seed", &args.seed.to_string(), "--tier", &args.tier, "--from", &next.to_string(), "--to", &total.to_string()])
            .stdout(std::process::Stdio::piped())
            .stderr(if std::env::var("C11_DEBUG").is_ok() { std::process::Stdio::inherit() } else { std::process::Stdio::null() })
            .spawn()
            .expect("spawn worker");
        let stdout = child.stdout.take().unwrap();
        let (txl, rxl) = std::sync::mpsc::channel::<String>();
        std::thread::spawn(move || {
            for line in BufReader::new(stdout).lines() {
                match line {
                    Ok(l) => {
                        if txl.send(l).is_err() {
                            break;
                        }
                    }
                    Err(_) => break,
                }
            }
        });
        let mut cur: Option<(usize, CaseAcc)> = None;
        let mut done = false;
        let mut why_dead = String::new();
        loop {
            let budget_now = match cur.as_ref().and_then(|c| c.1.budget.clone()) {
                Some((b, _)) => Duration::from_secs(b),
                None => step_budget,
            };
            match rxl.recv_timeout(budget_now) {
                Ok(line) => {
                    let parts: Vec<&str> = line.splitn(4, '\t').collect();
                    match parts[0] {
                        "@@BEGIN" => {
                            let i: usize = parts[1].parse().unwrap();
                            cur = Some((i, CaseAcc::default()));
                        }
                        "@@DESC" => {
                            if let Some((i, acc)) = cur.as_mut() {
                                acc.desc = line.splitn(2, '\t').nth(1).unwrap_or("{}").to_string();
                                descs[*i] = acc.desc.clone();
                            }
                        }
                        "@@BUDGET" => {
                            if let Some((_, acc)) = cur.as_mut() {
                                acc.budget = Some((parts[1].parse().unwrap_or(60), parts.get(2).unwrap_or(&"").to_string()));
                            }
                        }
                        "@@STEP" => {
                            if let Some((_, acc)) = cur.as_mut() {
                                acc.last_step = format!("step {} {}", parts[1], parts.get(2).unwrap_or(&""));
                            }
                        }
                        "@@FAIL" => {
                            if let Some((_, acc)) = cur.as_mut() {
                                acc.fails.push((parts[2].to_string(), parts.get(3).unwrap_or(&"").to_string()));
                            }
                        }
                        "@@STAT" => summary.count(parts[1], parts.get(2).unwrap_or(&"")),
                        "@@COQ" => {
                            if let Some((_, acc)) = cur.as_mut() {
                                acc.coq = Some(line.splitn(2, '\t').nth(1).unwrap_or("").to_string());
                            }
                        }
                        "@@NT" => {
                            if parts[1] == "1" && distinct.insert(parts.get(2).unwrap_or(&"").to_string()) {
                                summary.nontrivial += 1;
                            }
                        }
                        "@@MIN" => {
                            if let Some((_, acc)) = cur.as_mut() {
                                acc.min = Some(line.splitn(2, '\t').nth(1).unwrap_or("").to_string());
                            }
                        }
                        "@@END" => {
                            if let Some((i, acc)) = cur.take() {
                                // evaluations = handler calls made on the two real nodes
                                let f: Vec<&str> = line.split('\t').collect();
                                summary.evaluations += f.get(4).and_then(|x| x.trim().parse::<u64>().ok()).unwrap_or(0).max(1);
                                for (id, what) in &acc.fails {
                                    if id == "-" {
                                        let desc = match &acc.min {
                                            Some(m) => format!("{{\"minimised\": {}, \"original\": {}}}", m, acc.desc),
                                            None => acc.desc.clone(),
                                        };
                                        summary.oracle_failure(i, what, &desc);
                                    } else {
                                        summary.count("known_finding", id);
                                        let short: String = what.chars().take(60).collect();
                                        if known_seen.len() < 400 && known_seen.insert((id.clone(), short)) {
                                            summary.known_hit(id, i, what);
                                        }
                                    }
                                }
                                if summary.samples.len() < 4 && i > 15 {
                                    summary.samples.push(acc.desc.clone());
                                }
                                // placeholder cases keep indices aligned with cases.jsonl
                                while coq_cases.len() < i {
                                    coq_cases.push("mkCase false false false [] [[2; 0]; [3; 0]; [4; 0]; [9; 0]]".to_string());
                                }
                                coq_cases.push(acc.coq.unwrap_or("mkCase false false false [] [[2; 0]; [3; 0]; [4; 0]; [9; 0]]".to_string()));
                                next = i + 1;
                            }
                        }
                        "@@DONE" => {
                            done = true;
                            break;
                        }
                        _ => {}
                    }
                }
                Err(std::sync::mpsc::RecvTimeoutError::Timeout) => {
                    why_dead = format!("stall: the handler did not return within {} s of wall time", budget_now.as_secs());
                    let _ = child.kill();
                    break;
                }
                Err(std::sync::mpsc::RecvTimeoutError::Disconnected) => {
                    why_dead = "the process running the handlers died (abort / stack overflow / out of memory)".to_string();
                    break;
                }
            }
        }
        let _ = child.kill();
        let _ = child.wait();
        if done {
            next = total;
            break;
        }
        restarts += 1;
        if let Some((i, acc)) = cur.take() {
            match &acc.budget {
                Some((_, id)) if why_dead.starts_with("stall") => {
                    summary.known_hit(id, i, &format!("{} during {}", why_dead, acc.last_step));
                    summary.count("known_finding", id);
                }
                _ => summary.oracle_failure(i, &format!("{} during {}", why_dead, acc.last_step), &acc.desc),
            }
            summary.count("stalled_or_died", "1");
            while coq_cases.len() <= i {
                coq_cases.push("mkCase false false false [] [[2; 0]; [3; 0]; [4; 0]; [9; 0]]".to_string());
            }
            next = i + 1;
        } else if why_dead.is_empty() {
            break;
        } else {
            // died between cases
            summary.notes.push(format!("worker restarted before case {}: {}", next, why_dead));
            next += 1;
        }
    }
    while coq_cases.len() < total {
        coq_cases.push("mkCase false false false [] [[2; 0]; [3; 0]; [4; 0]; [9; 0]]".to_string());
    }
    summary.case_descs = descs;
    summary.notes.push("back-pressure is not exercised: all channels have capacity 1 000 000 and are drained after every event; in the real node RoutingThread::send_to_verification_thread spins without yielding while every verification channel is full (it relies on run_thread's is_ready_to_process gate and on the verification tasks running on other worker threads), and the `send().await` calls towards the consensus / routing / mining channels block while those are full".to_string());
    let header = "From Saito Require Import Base Handlers HandlersCheck.\nFrom Coq Require Import String.\nOpen Scope string_scope.\nOpen Scope N_scope.\nDefinition check (c : HandlersCheck.hcase) : bool := HandlersCheck.check_case c.\n";
    summary.case_files = gal::write_shards(&args.out, "c11", header, "HandlersCheck.hcase", &coq_cases, args.shards.max((coq_cases.len() + 299) / 300)).expect("write shards");
    summary.write(&args.out);
}

fn main() {
    let args = Args::parse();
    let v: Vec<String> = std::env::args().collect();
    if v.iter().any(|a| a == "--worker") {
        let get = |k: &str, d: usize| -> usize { v.iter().position(|a| a == k).and_then(|p| v.get(p + 1)).and_then(|x| x.parse().ok()).unwrap_or(d) };
        worker(&args, get("--from", 0), get("--to", usize::MAX));
    } else {
        supervisor(&args);
    }
}
