//! C12 — restart rebuilds the same ledger; a crash at any storage step is survivable.
//!
//! Histories (linear growth with transfers and golden tickets, forks, reorganisations,
//! invalid fork blocks, clean restarts in the middle; genesis periods 3/5/8 so that
//! pruning, purging and rebroadcast happen, and 20 for the regime of the Coq chain
//! model) are run on a real node whose in-memory `InterfaceIO` journals every storage
//! operation.  For prefixes of that journal - last operation complete, or a `Write`
//! torn at a byte-class boundary - the disk that would exist is rebuilt, a FRESH node
//! is created over it and the REAL restart path is run: a real `ConsensusThread` is
//! constructed over the disk and its `on_init` is called (under catch_unwind, on its own
//! OS thread with a wall-clock budget).  Oracles: see `judge`.
use std::collections::{BTreeMap, BTreeSet};
use std::panic::AssertUnwindSafe;
use std::sync::atomic::AtomicU64;
use std::sync::{Arc, Mutex};
use std::time::Duration;

use saito_core::core::consensus::block::{Block, BlockType};
use saito_core::core::consensus::blockchain::Blockchain;
use saito_core::core::consensus::mempool::Mempool;
use saito_core::core::consensus::peers::peer_collection::PeerCollection;
use saito_core::core::consensus::slip::{Slip, SlipType};
use saito_core::core::consensus::wallet::Wallet;
use saito_core::core::consensus_thread::{ConsensusStats, ConsensusThread};
use saito_core::core::defs::SaitoHash;
use saito_core::core::io::network::Network;
use saito_core::core::io::storage::Storage;
use saito_core::core::process::keep_time::{KeepTime, Timer};
use saito_core::core::process::process_event::ProcessEvent;
use saito_core::core::util::configuration::Configuration;
use tokio::sync::RwLock;
use verif_harness::chainsim::{self, futures_catch, BuiltTree, TreeSpec};
use verif_harness::common::{jstr, Args, Summary};
use verif_harness::gal;
use verif_harness::rng::Rng;
use verif_harness::world::*;

const ID_FORK: &str = "restart-equal-length-fork";
const ID_ORPHAN: &str = "restart-replays-block-without-parent";
const ID_WIPE: &str = "torn-file-discards-later-blocks";
const ID_BATCH: &str = "undecodable-file-aborts-only-its-batch";

struct Clock(AtomicU64);
impl KeepTime for Clock {
    fn get_timestamp_in_ms(&self) -> u64 {
        self.0.load(std::sync::atomic::Ordering::SeqCst)
    }
}

// ------------------------------------------------------------------ the real file-system handler

/// saito-rust/src/rust_io_handler.rs of the checkout under test, compiled into the harness
/// (extracted by build.rs; see there for the two rewritten `use` lines)
#[allow(dead_code, unused_imports, unused_variables)]
mod real_io {
    /// stand-in for the `lazy_static!` blocks of the included file (same names, same values)
    macro_rules! lazy_static {
        ($(pub static ref $name:ident : $t:ty = $e:expr;)*) => {
            $(pub static $name: std::sync::LazyLock<$t> = std::sync::LazyLock::new(|| $e);)*
        };
    }
    pub mod io_event {
        use saito_core::core::io::network_event::NetworkEvent;
        /// saito-rust/src/io_event.rs (same fields)
        #[derive(Debug)]
        pub struct IoEvent {
            pub event_processor_id: u8,
            pub event_id: u64,
            pub event: NetworkEvent,
        }
        static EVENT_COUNTER: std::sync::atomic::AtomicU64 = std::sync::atomic::AtomicU64::new(0);
        impl IoEvent {
            pub fn new(event: NetworkEvent) -> IoEvent {
                let n = EVENT_COUNTER.fetch_add(1, std::sync::atomic::Ordering::SeqCst) + 1;
                IoEvent { event_processor_id: 0, event_id: n, event }
            }
        }
    }
    pub mod rust_io_handler {
        include!(concat!(env!("OUT_DIR"), "/rust_io_handler.rs"));
    }
}
use real_io::rust_io_handler::RustIOHandler;
use saito_core::core::io::interface_io::InterfaceIO;

fn real_handler() -> Box<dyn InterfaceIO + Send + Sync> {
    // the receiving side is only needed for network events, which the storage functions never send
    let (s, r) = tokio::sync::mpsc::channel(1000);
    std::mem::forget(r);
    Box::new(RustIOHandler::new(s, 1))
}

// ------------------------------------------------------------------ the real restart path

/// Builds a fresh node over `disk` and runs the real `ConsensusThread::on_init`.
async fn restart_real(params: &Params, key: u8, disk: Arc<Mutex<Disk>>) -> Result<Node, String> {
    restart_with(params, key, disk, false).await
}

thread_local! {
    /// the node under test keeps its block directory (ConsensusThread::delete_old_blocks = false): on_init
    /// deletes nothing, so files of no stored block may stay; set per history
    static KEEP_DIR: std::cell::Cell<bool> = std::cell::Cell::new(false);
}

/// `real_fs`: storage and network sit on the real RustIOHandler (block directory ./data/blocks/ of the
/// current working directory) instead of the in-memory MemIo
async fn restart_with(params: &Params, key: u8, disk: Arc<Mutex<Disk>>, real_fs: bool) -> Result<Node, String> {
    let io = |d: &Arc<Mutex<Disk>>| -> Box<dyn InterfaceIO + Send + Sync> {
        if real_fs {
            real_handler()
        } else {
            Box::new(MemIo::new(d.clone()))
        }
    };
    let (pk, sk) = keypair(key);
    let wallet_lock = Arc::new(RwLock::new(Wallet::new(sk, pk)));
    let blockchain_lock = Arc::new(RwLock::new(Blockchain::new(
        wallet_lock.clone(),
        params.genesis_period,
        params.social_stake,
        params.social_stake_period,
    )));
    let mempool_lock = Arc::new(RwLock::new(Mempool::new(wallet_lock.clone())));
    let cfg = params.cfg();
    let config_lock: Arc<RwLock<dyn Configuration + Send + Sync>> = Arc::new(RwLock::new(cfg.clone()));
    let peers = Arc::new(RwLock::new(PeerCollection::default()));
    let timer = Timer {
        time_reader: Arc::new(Clock(AtomicU64::new(1))),
        hasten_multiplier: 1,
        start_time: 0,
    };
    let (s_router, _r_router) = tokio::sync::mpsc::channel(1000);
    let (s_miner, _r_miner) = tokio::sync::mpsc::channel(1000);
    let (s_stat, _r_stat) = tokio::sync::mpsc::channel::<String>(1000);
    let mut th = ConsensusThread {
        mempool_lock: mempool_lock.clone(),
        blockchain_lock: blockchain_lock.clone(),
        wallet_lock: wallet_lock.clone(),
        generate_genesis_block: false,
        sender_to_router: s_router,
        sender_to_miner: s_miner,
        block_producing_timer: 0,
        timer: timer.clone(),
        network: Network::new(
            io(&disk),
            peers,
            wallet_lock.clone(),
            config_lock.clone(),
            timer,
        ),
        storage: Storage::new(io(&disk)),
        stats: ConsensusStats::new(s_stat.clone()),
        txs_for_mempool: vec![],
        stat_sender: s_stat,
        config_lock,
        produce_blocks_by_timer: false,
        delete_old_blocks: !KEEP_DIR.with(|c| c.get()),
    };
    let r = futures_catch(AssertUnwindSafe(th.on_init())).await;
    drop(th);
    r?;
    let blockchain = Arc::try_unwrap(blockchain_lock)
        .map_err(|_| "harness: blockchain lock still shared".to_string())?
        .into_inner();
    let mempool = Arc::try_unwrap(mempool_lock)
        .map_err(|_| "harness: mempool lock still shared".to_string())?
        .into_inner();
    Ok(Node {
        blockchain,
        mempool,
        wallet_lock,
        storage: Storage::new(io(&disk)),
        cfg,
        disk,
        pk,
        sk,
        params: params.clone(),
    })
}

// ------------------------------------------------------------------ disks

/// the disk that exists after the first `k` journal operations; if `torn` = Some(m)
/// and operation k-1 is a write, only the first m bytes of it reached the file
fn disk_after(journal: &[DiskOp], k: usize, torn: Option<usize>) -> Disk {
    let mut d = Disk::default();
    for (i, op) in journal[..k].iter().enumerate() {
        match op {
            DiskOp::Write(name, bytes) => {
                let content = match torn {
                    Some(m) if i + 1 == k => bytes[..m.min(bytes.len())].to_vec(),
                    _ => bytes.clone(),
                };
                if !d.files.contains_key(name) {
                    d.order.push(name.clone());
                }
                d.files.insert(name.clone(), content);
            }
            DiskOp::Remove(name) => {
                d.order.retain(|n| n != name);
                d.files.remove(name);
            }
        }
    }
    d
}

/// byte-class boundaries of a serialised block: (class, number of bytes that reach the file)
fn tear_points(bytes: &[u8]) -> Vec<(&'static str, usize)> {
    const HDR: usize = 389;
    let mut v: Vec<(&'static str, usize)> = vec![("empty-file", 0)];
    let n = bytes.len();
    if n == 0 {
        return vec![];
    }
    if n > 100 {
        v.push(("inside-header", 100));
    }
    if n > HDR {
        v.push(("at-header-end", HDR));
        // transaction boundaries from the 16-byte prefix of every transaction
        let ntx = u32::from_be_bytes(bytes[0..4].try_into().unwrap()) as usize;
        let mut start = HDR;
        let mut bounds = vec![];
        for _ in 0..ntx {
            if start + 16 > n {
                break;
            }
            let r = |o: usize| u32::from_be_bytes(bytes[start + o..start + o + 4].try_into().unwrap()) as usize;
            let end = start + 93 + (r(0) + r(4)) * 59 + r(8) + r(12) * 130;
            if end > n {
                break;
            }
            bounds.push((start, end));
            start = end;
        }
        if let Some((s, e)) = bounds.first() {
            v.push(("inside-tx-prefix", s + 7));
            v.push(("inside-tx", s + (e - s) / 2));
        }
        if bounds.len() > 1 {
            v.push(("at-tx-boundary", bounds[0].1));
            let (s, e) = bounds[bounds.len() - 1];
            v.push(("inside-last-tx", s + (e - s) / 2));
        }
    }
    v.push(("one-byte-short", n - 1));
    v.retain(|(_, m)| *m < n);
    v.dedup_by_key(|(_, m)| *m);
    v
}

// ------------------------------------------------------------------ histories

#[derive(Clone)]
struct HBlock {
    block: Block,
    parent: Option<usize>,
    eff_invalid: bool,
}

#[derive(Clone)]
struct Mark {
    /// what happened: "deliver <n>" or "restart"
    what: String,
    class: String,
    journal_len: usize,
    snap: Option<ChainSnapshot>,
    supply: u128,
    /// block directory vs blockchain.blocks after the step (None = they agree)
    dir_mismatch: Option<String>,
    /// lowest id in blockchain.blocks
    min_id: u64,
}

#[derive(Clone)]
struct Hist {
    params: Params,
    blocks: Vec<HBlock>,
    marks: Vec<Mark>,
    journal: Vec<DiskOp>,
    issued: u128,
    notes: Vec<String>,
    /// delete_old_blocks = false for every restart of this history
    keep_dir: bool,
}

fn supply_of(node: &Node) -> u128 {
    let bc = &node.blockchain;
    let latest = match bc.get_latest_block() {
        Some(b) => b,
        None => return 0,
    };
    let gp = node.params.genesis_period;
    let mut s: u128 = 0;
    for (k, v) in bc.utxoset.iter() {
        if !*v {
            continue;
        }
        if let Ok(slip) = Slip::parse_slip_from_utxokey(k) {
            if slip.slip_type == SlipType::Bound {
                continue;
            }
            if slip.block_id < latest.id.saturating_sub(gp) {
                continue;
            }
            s += slip.amount as u128;
        }
    }
    s + latest.graveyard as u128
        + latest.treasury as u128
        + latest.previous_block_unpaid as u128
        + latest.total_fees as u128
}

/// the spendable outputs inside the window of the tip
fn in_window_utxo(s: &ChainSnapshot, gp: u64) -> BTreeSet<[u8; 59]> {
    s.utxo
        .iter()
        .filter(|(_, v)| *v)
        .filter(|(k, _)| u64::from_be_bytes(k[33..41].try_into().unwrap()) >= s.tip_id.saturating_sub(gp))
        .map(|(k, _)| *k)
        .collect()
}

fn safe_snapshot(node: &Node) -> Result<ChainSnapshot, String> {
    std::panic::catch_unwind(AssertUnwindSafe(|| node.snapshot())).map_err(|e| {
        if let Some(s) = e.downcast_ref::<String>() {
            s.clone()
        } else if let Some(s) = e.downcast_ref::<&str>() {
            s.to_string()
        } else {
            "?".to_string()
        }
    })
}

fn tree_of(h: &[HBlock], gp: u64) -> BuiltTree {
    // the spec is only carried along (oracle_c03 reads the blocks); built through the generator so
    // that fields added to TreeSpec later get their defaults
    let mut spec: TreeSpec = chainsim::random_spec(&mut Rng::new(1), 2, gp, 0, false);
    spec.nodes.clear();
    BuiltTree {
        spec,
        blocks: h.iter().map(|b| b.block.clone()).collect(),
        valid_twin: vec![],
        eff_invalid: h.iter().map(|b| b.eff_invalid).collect(),
    }
}

/// spendable Normal outputs of `pk` that are safely inside the window
fn spendable(node: &Node) -> Vec<Slip> {
    let bc = &node.blockchain;
    let tip = bc.blockring.get_latest_block_id();
    let gp = node.params.genesis_period;
    let mut v: Vec<Slip> = bc
        .utxoset
        .iter()
        .filter(|(_, ok)| **ok)
        .filter_map(|(k, _)| Slip::parse_slip_from_utxokey(k).ok())
        .filter(|s| s.slip_type == SlipType::Normal && s.public_key == node.pk && s.amount > 2000)
        .filter(|s| s.block_id + gp > tip + 2)
        .collect();
    v.sort_by_key(|s| s.utxoset_key);
    v
}

/// the block directory must hold exactly the files of the blocks in `blockchain.blocks`
/// (blocks of type Header are never written)
fn dir_vs_blocks(node: &Node) -> Option<String> {
    let dir = "./data/blocks/";
    let d = node.disk.lock().unwrap();
    let on_disk: BTreeSet<String> = d
        .files
        .keys()
        .filter(|k| k.starts_with(dir) && k.ends_with(".sai"))
        .map(|k| k[dir.len()..].to_string())
        .collect();
    let stored: BTreeSet<String> = node
        .blockchain
        .blocks
        .values()
        .filter(|b| b.block_type != BlockType::Header)
        .map(|b| b.get_file_name())
        .collect();
    if on_disk == stored || (KEEP_DIR.with(|c| c.get()) && stored.is_subset(&on_disk)) {
        return None;
    }
    let ids = |names: Vec<&String>| -> Vec<u64> {
        names
            .iter()
            .filter_map(|n| {
                let h = name_hash(n);
                node.blockchain.blocks.get(&h).map(|b| b.id)
            })
            .collect()
    };
    let extra: Vec<&String> = on_disk.difference(&stored).collect();
    let missing: Vec<&String> = stored.difference(&on_disk).collect();
    Some(format!(
        "{} files on disk belong to no stored block, {} stored blocks (ids {:?}) have no file",
        extra.len(),
        missing.len(),
        ids(missing)
    ))
}

async fn record(h: &mut Hist, node: &Node, what: String, class: String) {
    let snap = safe_snapshot(node).ok();
    let supply = if snap.is_some() { supply_of(node) } else { 0 };
    let journal_len = node.disk.lock().unwrap().journal.len();
    let dir_mismatch = dir_vs_blocks(node);
    let min_id = node.blockchain.blocks.values().map(|b| b.id).min().unwrap_or(0);
    h.marks.push(Mark { what, class, journal_len, snap, supply, dir_mismatch, min_id });
}

/// oracles on the RUNNING node, after every step (delivery or clean restart) of a history:
/// the directory holds exactly the files of blockchain.blocks; while the history is linear the oldest
/// stored block is the one the purge rule of update_genesis_period leaves (tip - 2 * genesis period + 1)
fn history_oracles(h: &Hist) -> Vec<String> {
    let mut f = vec![];
    let gp = h.params.genesis_period;
    let mut linear = true;
    let mut children: BTreeMap<usize, usize> = BTreeMap::new();
    for m in &h.marks {
        if let Some(n) = m.what.strip_prefix("deliver ") {
            if let Ok(i) = n.parse::<usize>() {
                if let Some(p) = h.blocks[i - 1].parent {
                    *children.entry(p).or_insert(0) += 1;
                    if children[&p] > 1 {
                        linear = false;
                    }
                }
                if m.class != "OnChain" {
                    linear = false;
                }
            }
        }
        if m.what == "crash-restart" {
            // the node is behind the tip it had purged for
            linear = false;
        }
        if let Some(w) = &m.dir_mismatch {
            f.push(format!("after step '{}' the block directory and blockchain.blocks disagree: {}", m.what, w));
        }
        if linear {
            if let Some(s) = &m.snap {
                let t = s.tip_id;
                let expect = if t > 2 * gp { t - 2 * gp + 1 } else { 1 };
                if m.min_id != expect {
                    f.push(format!(
                        "after step '{}' (linear history, tip {}) the oldest stored block has id {} but the purge rule leaves id {}",
                        m.what, t, m.min_id, expect
                    ));
                }
                if s.genesis_block_id != if t > 2 * gp { t - gp } else { 0 } {
                    f.push(format!(
                        "after step '{}' (linear history, tip {}) genesis_block_id is {}",
                        m.what, t, s.genesis_block_id
                    ));
                }
            }
        }
    }
    f
}

async fn deliver(h: &mut Hist, node: &mut Node, idx: usize) -> AddClass {
    let b = h.blocks[idx].block.clone();
    let r = futures_catch(AssertUnwindSafe(node.add_block(b))).await;
    let class = match r {
        Ok(c) => c,
        Err(m) => {
            h.notes.push(format!("original node panicked adding block {}: {}", idx + 1, m));
            AddClass::Panicked
        }
    };
    record(h, node, format!("deliver {}", idx + 1), format!("{:?}", class)).await;
    class
}

/// one step of a history
#[derive(Clone, Debug)]
enum Action {
    /// the node produces a block on its tip
    Extend { dt: u64, tx: bool, split: bool, fee: u64, gt: bool },
    /// blocks built by a second node on the ancestor `depth` below the tip: (dt, tx, gt); the first
    /// one is a validly signed but invalid block (burn fee off by one) if `invalid`
    Fork { depth: usize, blocks: Vec<(u64, bool, bool)>, invalid: bool },
    /// clean shutdown and restart through the real on_init; the journal continues
    Restart,
    /// the process dies while the file written last is rewritten / still being written: the file is left
    /// with the first `permille`/1000 of its bytes (journaled as a write of exactly those bytes), then the
    /// node is restarted through the real on_init and the history goes on from what it came up with
    CrashRestart { permille: u64 },
    /// the block whose file the last crash-restart tore is delivered again (by a peer)
    Redeliver,
}

struct GenOpts {
    gp: u64,
    steps: usize,
    fork_pct: u64,
    invalid_pct: u64,
    restart_pct: u64,
    /// scripted history (None = random)
    script: Option<Vec<Action>>,
    /// delete_old_blocks = false
    keep_dir: bool,
    /// random histories may contain crash-restarts (never in histories compared with the Coq model:
    /// its journal language has no partial write)
    crash_restarts: bool,
}

fn random_action(rng: &mut Rng, o: &GenOpts, tip_id: u64, restarts: usize, n_blocks: usize) -> Action {
    let roll = rng.below(100);
    if roll < o.restart_pct && restarts < 2 && n_blocks > 2 {
        if o.crash_restarts && rng.chance(1, 2) {
            return Action::CrashRestart { permille: *rng.pick(&[0u64, 100, 390, 600, 999]) };
        }
        return Action::Restart;
    }
    if roll < o.restart_pct + o.fork_pct && tip_id >= 2 {
        let depth = rng.range(1, 3.min(tip_id - 1)) as usize;
        let len = rng.range(1, depth as u64 + 1) as usize;
        let blocks = (0..len)
            .map(|_| (*rng.pick(&[150u64, 250, 400, 1000, 100_000]), rng.chance(1, 2), rng.chance(3, 5)))
            .collect();
        return Action::Fork { depth, blocks, invalid: rng.chance(o.invalid_pct, 100) };
    }
    Action::Extend {
        dt: *rng.pick(&[200u64, 300, 1000, 100_000]),
        tx: rng.chance(2, 3),
        split: rng.chance(1, 3),
        fee: *rng.pick(&[0u64, 0, 1000]),
        gt: rng.chance(7, 10),
    }
}

/// replays the path root..=idx into a fresh builder node
async fn builder_at(h: &Hist, idx: usize) -> Option<Node> {
    let mut path = vec![];
    let mut cur = Some(idx);
    while let Some(c) = cur {
        path.push(c);
        cur = h.blocks[c].parent;
    }
    path.reverse();
    let mut b = Node::new(&h.params, 1);
    for i in path {
        let r = futures_catch(AssertUnwindSafe(b.add_block(h.blocks[i].block.clone()))).await;
        if r != Ok(AddClass::OnChain) {
            return None;
        }
    }
    Some(b)
}

async fn gen_history(rng: &mut Rng, o: &GenOpts) -> Hist {
    let params = chainsim::params(o.gp, false);
    let mut node = Node::new(&params, 1);
    let mut h = Hist { params: params.clone(), blocks: vec![], marks: vec![], journal: vec![], issued: 0, notes: vec![], keep_dir: false };
    let issuance: Vec<_> = (0..4).map(|k| (node.pk, 1_000_000 + 1000 * k as u64)).collect();
    h.issued = issuance.iter().map(|(_, a)| *a as u128).sum();
    h.keep_dir = o.keep_dir;
    KEEP_DIR.with(|c| c.set(o.keep_dir));
    let mut last_torn: Option<usize> = None;
    let g = make_genesis(&node, 1_000_000, &issuance).await.expect("genesis");
    h.blocks.push(HBlock { block: g, parent: None, eff_invalid: false });
    deliver(&mut h, &mut node, 0).await;
    let mut restarts = 0;
    let mut step = 0;
    let mut seed = rng.next() % 1_000_000;
    let n_steps = o.script.as_ref().map(|s| s.len()).unwrap_or(o.steps);
    while step < n_steps {
        seed += 1;
        let tip_hash = node.blockchain.blockring.get_latest_block_hash();
        let tip_idx = match h.blocks.iter().position(|b| b.block.hash == tip_hash) {
            Some(i) => i,
            None => break,
        };
        let action = match &o.script {
            Some(sc) => sc[step].clone(),
            None => random_action(rng, o, h.blocks[tip_idx].block.id, restarts, h.blocks.len()),
        };
        step += 1;
        let mut crashed = false;
        if let Action::CrashRestart { permille } = &action {
            // tear the file that was written last
            let last = node.disk.lock().unwrap().journal.iter().rev().find_map(|op| match op {
                DiskOp::Write(n, b) => Some((n.clone(), b.clone())),
                _ => None,
            });
            if let Some((name, bytes)) = last {
                last_torn = h.blocks.iter().position(|b| b.block.hash == name_hash(&name));
                let m = ((bytes.len() as u64 * permille) / 1000) as usize;
                let io = MemIo::new(node.disk.clone());
                let _ = io.write_value(&name, &bytes[..m.min(bytes.len().saturating_sub(1))]).await;
                crashed = true;
            }
        }
        match action {
            Action::Restart | Action::CrashRestart { .. } => {
                restarts += 1;
                let disk = node.disk.clone();
                match restart_real(&params, 1, disk).await {
                    Ok(n2) => {
                        let before = h.marks.last().and_then(|m| m.snap.as_ref()).map(|s| s.tip_hash);
                        let after = safe_snapshot(&n2).ok().map(|s| s.tip_hash);
                        if crashed {
                            // the node goes on from what it came up with - provided that is a sound state: a
                            // node that a listed finding has already put on another branch, behind its window
                            // or on a ledger that is not the replay of its chain would hand that damage on to
                            // every later crash point.  (The crash itself is judged anyway: it is one of the
                            // torn crash points of the previous step.)
                            let sound = match (safe_snapshot(&n2), before) {
                                (Ok(sn), Some(bt)) => {
                                    let on_old_chain = {
                                        let mut cur = h.blocks.iter().position(|b| b.block.hash == bt);
                                        let mut found = false;
                                        while let Some(c) = cur {
                                            if h.blocks[c].block.hash == sn.tip_hash {
                                                found = true;
                                                break;
                                            }
                                            cur = h.blocks[c].parent;
                                        }
                                        found
                                    };
                                    let t = tree_of(&h.blocks, h.params.genesis_period);
                                    let c03: Vec<String> = std::panic::catch_unwind(AssertUnwindSafe(|| chainsim::oracle_c03(&t, &sn)))
                                        .unwrap_or_else(|_| vec!["?".to_string()])
                                        .into_iter()
                                        .filter(|f| !f.starts_with("stored chain window ends"))
                                        .collect();
                                    on_old_chain && c03.is_empty() && supply_of(&n2) == h.issued
                                }
                                _ => false,
                            };
                            if !sound {
                                let keep = h.marks.last().map(|m| m.journal_len).unwrap_or(0);
                                n2.disk.lock().unwrap().journal.truncate(keep);
                                node = n2;
                                break;
                            }
                            node = n2;
                            record(&mut h, &node, "crash-restart".to_string(), "Restart".to_string()).await;
                            continue;
                        }
                        if before != after {
                            // the restarted node is on another block: that is judged at the clean crash
                            // point at the end of the previous step; the history ends before this restart
                            let keep = h.marks.last().map(|m| m.journal_len).unwrap_or(0);
                            n2.disk.lock().unwrap().journal.truncate(keep);
                            node = n2;
                            break;
                        }
                        node = n2;
                        record(&mut h, &node, "restart".to_string(), "Restart".to_string()).await;
                    }
                    Err(m) => {
                        h.notes.push(format!("clean restart inside the history panicked: {}", m));
                        break;
                    }
                }
            }
            Action::Redeliver => {
                if let Some(i) = last_torn {
                    deliver(&mut h, &mut node, i).await;
                }
            }
            Action::Fork { depth, blocks, invalid } => {
                if h.blocks[tip_idx].block.id < depth as u64 + 1 {
                    continue;
                }
                let mut base = tip_idx;
                for _ in 0..depth {
                    base = h.blocks[base].parent.unwrap();
                }
                if !node.blockchain.blocks.contains_key(&h.blocks[base].block.hash) {
                    continue;
                }
                let mut b = match builder_at(&h, base).await {
                    Some(b) => b,
                    None => continue,
                };
                let mut parent_idx = base;
                let mut parent_valid: Block = h.blocks[base].block.clone();
                let mut eff_invalid = false;
                for (j, (dt, with_tx, gt)) in blocks.iter().enumerate() {
                    seed += 1;
                    let ts = parent_valid.timestamp + dt;
                    let mut txs = vec![];
                    let sp = spendable(&b);
                    if !sp.is_empty() && *with_tx {
                        let s = rng.pick(&sp).clone();
                        let fee = *rng.pick(&[0u64, 0, 1000]);
                        txs.push(make_tx(&[s.clone()], &[(b.pk, s.amount - fee)], &b.sk, ts));
                    }
                    let with_gt = *gt || txs.is_empty();
                    let valid = match make_block(&b, parent_valid.hash, ts, txs, with_gt, seed).await {
                        Ok(x) => x,
                        Err(_) => break,
                    };
                    match futures_catch(AssertUnwindSafe(b.add_block(valid.clone()))).await {
                        Ok(AddClass::OnChain) => {}
                        _ => break,
                    }
                    let mut delivered = valid.clone();
                    if delivered.previous_block_hash != h.blocks[parent_idx].block.hash {
                        delivered.previous_block_hash = h.blocks[parent_idx].block.hash;
                        resign(&mut delivered, &b.sk);
                    }
                    if j == 0 && invalid {
                        delivered.burnfee += 1;
                        resign(&mut delivered, &b.sk);
                        eff_invalid = true;
                    }
                    if h.blocks.iter().any(|x| x.block.hash == delivered.hash) {
                        break;
                    }
                    h.blocks.push(HBlock { block: delivered, parent: Some(parent_idx), eff_invalid });
                    let idx = h.blocks.len() - 1;
                    deliver(&mut h, &mut node, idx).await;
                    parent_idx = idx;
                    parent_valid = valid;
                }
            }
            Action::Extend { dt, tx, split, fee, gt } => {
                // extend the tip with the node itself as producer
                let parent = h.blocks[tip_idx].block.clone();
                let ts = parent.timestamp + dt;
                let mut txs = vec![];
                let sp = spendable(&node);
                if !sp.is_empty() && tx {
                    let s = rng.pick(&sp).clone();
                    let keep = s.amount - fee;
                    if split && keep > 10_000 {
                        txs.push(make_tx(&[s.clone()], &[(node.pk, keep / 2), (node.pk, keep - keep / 2)], &node.sk, ts));
                    } else {
                        txs.push(make_tx(&[s.clone()], &[(node.pk, keep)], &node.sk, ts));
                    }
                }
                let with_gt = gt || txs.is_empty();
                let blk = match futures_catch(AssertUnwindSafe(make_block(&node, parent.hash, ts, txs, with_gt, seed))).await {
                    Ok(Ok(b)) => b,
                    Ok(Err(_)) => continue,
                    Err(m) => {
                        h.notes.push(format!("producer panicked: {}", m));
                        break;
                    }
                };
                if h.blocks.iter().any(|x| x.block.hash == blk.hash) {
                    continue;
                }
                h.blocks.push(HBlock { block: blk, parent: Some(tip_idx), eff_invalid: false });
                let idx = h.blocks.len() - 1;
                let c = deliver(&mut h, &mut node, idx).await;
                if c == AddClass::Panicked {
                    break;
                }
            }
        }
    }
    h.journal = node.disk.lock().unwrap().journal.clone();
    KEEP_DIR.with(|c| c.set(false));
    h
}

/// scripted histories: the listed findings in their smallest form, run in every tier
fn scripts() -> Vec<(&'static str, u64, bool, Vec<Action>)> {
    let ext = |dt: u64| Action::Extend { dt, tx: true, split: false, fee: 0, gt: true };
    vec![
        // two competing blocks at height 2; the one that arrives first has the larger timestamp
        ("equal-length-fork", 20, true, vec![ext(100_000), Action::Fork { depth: 1, blocks: vec![(200, false, true)], invalid: false }]),
        // the same tie, then the node extends its branch: restarted, it stays on the sibling
        (
            "fork-then-growth",
            20,
            true,
            vec![ext(100_000), Action::Fork { depth: 1, blocks: vec![(200, false, true)], invalid: false }, ext(100_000), ext(100_000)],
        ),
        // an invalid sibling with a smaller timestamp and its child, both stored off chain
        (
            "invalid-sibling-with-child",
            20,
            true,
            vec![ext(100_000), ext(100_000), Action::Fork { depth: 2, blocks: vec![(200, false, true), (200, false, true)], invalid: true }],
        ),
        // a clean restart inside a linear history (crash points inside the restart: rewrites)
        ("linear-with-restart", 20, true, vec![ext(300), ext(300), ext(300), Action::Restart, ext(300), ext(300)]),
        // genesis period 3: siblings at height 2 survive the purge of their parent
        (
            "siblings-above-purged-parent",
            3,
            false,
            vec![
                ext(100_000),
                Action::Fork { depth: 1, blocks: vec![(200, false, true)], invalid: false },
                ext(300),
                ext(300),
                ext(300),
                ext(300),
                ext(300),
                ext(300),
                ext(300),
            ],
        ),
        // the same with three siblings at height 2 (one older, one younger than the block the node is on)
        (
            "three-siblings-above-purged-parent",
            3,
            false,
            vec![
                ext(300),
                Action::Fork { depth: 1, blocks: vec![(150, false, true)], invalid: false },
                Action::Fork { depth: 1, blocks: vec![(1000, true, true)], invalid: false },
                ext(100_000),
                ext(300),
                ext(300),
                ext(300),
                ext(300),
                ext(300),
            ],
        ),
        // the tip file is torn by a crash, the node restarts, goes on, and is restarted cleanly later:
        // nothing produced after the crash may be lost (the torn file must not survive the first restart)
        (
            "crash-restart-then-growth",
            20,
            false,
            vec![ext(300), ext(300), ext(300), Action::CrashRestart { permille: 600 }, ext(300), ext(300), Action::Restart, ext(300)],
        ),
        // a node that keeps its block directory (delete_old_blocks = false): the tip file is torn by a crash,
        // the restarted node gets the same block again from a peer (the file is written again), goes on and
        // is restarted cleanly: it must come up on the tip it had
        (
            "kept-directory-torn-file-redelivered",
            20,
            false,
            vec![ext(300), ext(300), ext(300), Action::CrashRestart { permille: 600 }, Action::Redeliver, ext(300), ext(300), Action::Restart, ext(300)],
        ),
        // genesis period 3: restart far beyond the purge horizon, crash while the restart rewrites files
        (
            "restart-after-purge",
            3,
            false,
            vec![ext(300), ext(300), ext(300), ext(300), ext(300), ext(300), ext(300), ext(300), Action::Restart, ext(300)],
        ),
    ]
}

// ------------------------------------------------------------------ one crash point

#[derive(Clone, Debug)]
struct CrashPoint {
    k: usize,
    /// None = the last operation is complete; Some((class, m)) = torn write of m bytes
    torn: Option<(&'static str, usize)>,
}

#[derive(Debug)]
struct Outcome {
    panic: Option<String>,
    snap: Option<ChainSnapshot>,
    supply: u128,
    c03: Vec<String>,
    extend: Option<String>,
    /// a reference node holding the same chain cannot produce the extension either
    extend_ref_fails: bool,
    restart_ops: (usize, usize),
    deleted: Vec<String>,
    intact_on_disk: usize,
    loaded: usize,
    /// ids of stored blocks that were delivered while their parent was not stored
    orphans: Vec<u64>,
    /// their parents
    orphan_parents: Vec<SaitoHash>,
    /// (hash, id) of every decodable file of the crashed disk
    disk_blocks: Vec<(SaitoHash, u64)>,
    /// decodable files that on_init never loads: they follow an undecodable file inside the same
    /// batch of 1000 names
    batch_skipped: Vec<SaitoHash>,
    /// storage operations of the restart itself: (1 = write / 0 = remove, file name)
    ops: Vec<(u64, String)>,
    final_files: Vec<String>,
    /// blocks left in the mempool queue by on_init
    queue_len: usize,
    /// block directory vs blockchain.blocks after the restart
    dir_mismatch: Option<String>,
    /// pruned stored blocks that cannot be upgraded to Full from their file
    upgrade_fail: Vec<String>,
}

fn run_crash_point(h: &Arc<HistShared>, cp: &CrashPoint, budget: Duration) -> Result<Outcome, String> {
    let (tx, rx) = std::sync::mpsc::channel();
    let h2 = h.clone();
    let cp2 = cp.clone();
    std::thread::Builder::new()
        .stack_size(64 << 20)
        .spawn(move || {
            let rt = tokio::runtime::Builder::new_current_thread().enable_all().build().unwrap();
            let out = rt.block_on(eval_crash_point(&h2, &cp2));
            let _ = tx.send(out);
        })
        .unwrap();
    rx.recv_timeout(budget).map_err(|_| "restart did not finish within the time budget".to_string())
}

struct HistShared {
    params: Params,
    journal: Vec<DiskOp>,
    tree_blocks: Vec<HBlock>,
    keep_dir: bool,
}

async fn eval_crash_point(h: &HistShared, cp: &CrashPoint) -> Outcome {
    KEEP_DIR.with(|c| c.set(h.keep_dir));
    saito_core::core::consensus::blockchain::VERIF_WIND_STEPS.with(|c| c.set((0, u64::MAX)));
    let d = disk_after(&h.journal, cp.k, cp.torn.map(|t| t.1));
    let mut disk_blocks: Vec<(SaitoHash, u64)> = vec![];
    let mut batch_skipped: Vec<SaitoHash> = vec![];
    let mut aborted_batch: Option<usize> = None;
    // d.files is ordered by name, as Storage::load_block_name_list orders the directory
    for (pos, v) in d.files.values().enumerate() {
        let mut decoded = None;
        if let Ok(Ok(mut b)) = std::panic::catch_unwind(|| Block::deserialize_from_net(v)) {
            if b.generate().is_ok() {
                decoded = Some((b.hash, b.id));
            }
        }
        match decoded {
            Some(x) => {
                disk_blocks.push(x);
                if aborted_batch == Some(pos / 1000) {
                    batch_skipped.push(x.0);
                }
            }
            None => {
                if aborted_batch != Some(pos / 1000) {
                    aborted_batch = Some(pos / 1000);
                }
            }
        }
    }
    let intact_on_disk = disk_blocks.len();
    let disk = Arc::new(Mutex::new(d));
    let mut out = Outcome {
        panic: None,
        snap: None,
        supply: 0,
        c03: vec![],
        extend: None,
        extend_ref_fails: false,
        restart_ops: (0, 0),
        deleted: vec![],
        intact_on_disk,
        loaded: 0,
        orphans: vec![],
        orphan_parents: vec![],
        disk_blocks,
        batch_skipped,
        ops: vec![],
        final_files: vec![],
        queue_len: 0,
        dir_mismatch: None,
        upgrade_fail: vec![],
    };
    let mut node = match restart_real(&h.params, 1, disk.clone()).await {
        Ok(n) => n,
        Err(m) => {
            out.panic = Some(m);
            return out;
        }
    };
    {
        let d = disk.lock().unwrap();
        for op in &d.journal {
            match op {
                DiskOp::Write(n, _) => {
                    out.restart_ops.0 += 1;
                    out.ops.push((1, n.clone()));
                }
                DiskOp::Remove(n) => {
                    out.restart_ops.1 += 1;
                    out.deleted.push(n.clone());
                    out.ops.push((0, n.clone()));
                }
            }
        }
        out.final_files = d.files.keys().cloned().collect();
    }
    out.loaded = node.blockchain.blocks.len();
    out.queue_len = node.mempool.blocks_queue.len();
    out.dir_mismatch = dir_vs_blocks(&node);
    {
        // a stored block whose parent is not stored, other than the first block delivered
        // (lowest id, then lowest file name): it was delivered while its parent was unknown
        let bc = &node.blockchain;
        let first = bc.blocks.values().map(|b| (b.id, b.get_file_name())).min();
        for b in bc.blocks.values() {
            if !bc.blocks.contains_key(&b.previous_block_hash) && Some((b.id, b.get_file_name())) != first {
                out.orphans.push(b.id);
                out.orphan_parents.push(b.previous_block_hash);
            }
        }
        out.orphans.sort();
    }
    match safe_snapshot(&node) {
        Ok(s) => {
            let t = tree_of(&h.tree_blocks, h.params.genesis_period);
            out.c03 = match std::panic::catch_unwind(AssertUnwindSafe(|| chainsim::oracle_c03(&t, &s))) {
                Ok(f) => f,
                Err(_) => vec!["the restarted node stores a block that the original node never had".to_string()],
            };
            out.supply = supply_of(&node);
            out.snap = Some(s);
        }
        Err(m) => {
            out.panic = Some(format!("reading the tip of the restarted node panicked: {}", m));
            return out;
        }
    }
    // the restarted node must be able to extend its chain
    let tip = node.blockchain.get_latest_block().map(|b| (b.hash, b.timestamp));
    if let Some((tip_hash, ts)) = tip {
        let r = futures_catch(AssertUnwindSafe(async {
            let b = make_block(&node, tip_hash, ts + 100_000, vec![], true, 4242).await?;
            let hsh = b.hash;
            let c = node.add_block(b).await;
            if c != AddClass::OnChain {
                return Err(format!("a block produced on the restarted tip was answered {:?}", c));
            }
            if node.blockchain.blockring.get_latest_block_hash() != hsh {
                return Err("the produced block did not become the tip".to_string());
            }
            Ok(())
        }))
        .await;
        out.extend = match r {
            Ok(Ok(())) => None,
            Ok(Err(m)) => Some(m),
            Err(m) => Some(format!("panic while extending the restarted chain: {}", m)),
        };
        if out.extend.is_some() {
            // reference: a fresh node that is fed the ancestry of that tip, in order, from the
            // pristine blocks; if it cannot extend the same chain either, the restart is not at fault
            // (the producer has defects of its own, e.g. rebroadcast inputs - C07 / C13)
            let mut path = vec![];
            let mut cur = h.tree_blocks.iter().position(|b| b.block.hash == tip_hash);
            while let Some(c) = cur {
                path.push(c);
                cur = h.tree_blocks[c].parent;
            }
            path.reverse();
            let mut r = Node::new(&h.params, 1);
            let mut ok = true;
            for i in path {
                let c = futures_catch(AssertUnwindSafe(r.add_block(h.tree_blocks[i].block.clone()))).await;
                if c != Ok(AddClass::OnChain) {
                    ok = false;
                    break;
                }
            }
            if ok {
                let rr = futures_catch(AssertUnwindSafe(async {
                    let b = make_block(&r, tip_hash, ts + 100_000, vec![], true, 4242).await?;
                    let c = r.add_block(b).await;
                    if c != AddClass::OnChain {
                        return Err(format!("{:?}", c));
                    }
                    Ok(())
                }))
                .await;
                if !matches!(rr, Ok(Ok(()))) {
                    out.extend_ref_fails = true;
                }
            }
        }
    }
    // every pruned block the node keeps must be recoverable from its file (downgrade_blockchain_data
    // drops the transactions, upgrade_block_to_block_type re-reads them)
    let pruned: Vec<SaitoHash> = node
        .blockchain
        .blocks
        .values()
        .filter(|b| b.block_type == BlockType::Pruned)
        .map(|b| b.hash)
        .collect();
    for hsh in pruned {
        let r = futures_catch(AssertUnwindSafe(async {
            let b = node.blockchain.blocks.get_mut(&hsh).unwrap();
            let id = b.id;
            let ok = b.upgrade_block_to_block_type(BlockType::Full, &node.storage, false).await;
            (id, ok, b.hash == hsh, b.transactions.len())
        }))
        .await;
        match r {
            Ok((_, true, true, n)) if n > 0 => {}
            Ok((id, ok, same, n)) => out
                .upgrade_fail
                .push(format!("pruned block id {}: upgrade to Full returned {}, hash unchanged {}, {} transactions", id, ok, same, n)),
            Err(m) => out.upgrade_fail.push(format!("upgrade of a pruned block panicked: {}", m)),
        }
    }
    out
}

// ------------------------------------------------------------------ judging

struct Ctx<'a> {
    h: &'a Hist,
    by_hash: BTreeMap<SaitoHash, usize>,
}

impl<'a> Ctx<'a> {
    fn is_ancestor_or_self(&self, a: &SaitoHash, of: &SaitoHash) -> bool {
        let mut cur = self.by_hash.get(of).cloned();
        while let Some(i) = cur {
            if self.h.blocks[i].block.hash == *a {
                return true;
            }
            cur = self.h.blocks[i].parent;
        }
        false
    }
}

/// index of the mark whose step covers journal position k (the step during which the
/// crash happens); `clean` = k is exactly the end of that step and nothing is torn
fn locate(h: &Hist, cp: &CrashPoint) -> (usize, bool) {
    for (i, m) in h.marks.iter().enumerate() {
        if cp.k <= m.journal_len {
            // the LAST mark with this journal length is the state at that point
            let mut j = i;
            if cp.torn.is_none() && cp.k == m.journal_len {
                while j + 1 < h.marks.len() && h.marks[j + 1].journal_len == cp.k {
                    j += 1;
                }
                return (j, true);
            }
            return (j, false);
        }
    }
    (h.marks.len() - 1, false)
}

#[derive(Default)]
struct Verdict {
    failures: Vec<String>,
    known: Vec<(&'static str, String)>,
    tip_class: &'static str,
    lost: u64,
    /// the producer cannot extend this chain on a reference node either
    ext_blocked: bool,
    /// came up behind the running tip with a stored window shorter than 2 * genesis period
    window_short: bool,
}

/// what kind of failure an oracle reports; the listed findings explain only some kinds
#[derive(Clone, Copy, PartialEq, Debug)]
enum Kind {
    /// restarted tip differs from the tip before a clean shutdown / blocks were lost
    Tip,
    /// in-window spendable set differs
    Utxo,
    /// supply differs from issuance / from before
    Supply,
    /// C03 replay oracle on the restarted node
    C03,
    /// stored block set differs at a clean point
    Blocks,
    /// a produced block is not accepted
    Extend,
    /// tip is a block the node never stored
    Unknown,
    /// directory != blockchain.blocks, blocks left in the queue, pruned block not recoverable
    Storage,
}

fn judge(ctx: &Ctx, cp: &CrashPoint, out: &Result<Outcome, String>) -> Verdict {
    let h = ctx.h;
    let mut v = Verdict::default();
    let (mi, clean) = locate(h, cp);
    let out = match out {
        Ok(o) => o,
        Err(m) => {
            v.failures.push(m.clone());
            v.tip_class = "timeout";
            return v;
        }
    };
    if let Some(m) = &out.panic {
        v.failures.push(format!("restart panicked: {}", m));
        v.tip_class = "panic";
        return v;
    }
    let s = out.snap.as_ref().unwrap();
    let after = &h.marks[mi];
    let before = if mi > 0 { Some(&h.marks[mi - 1]) } else { None };
    let gp = h.params.genesis_period;
    // blocks known to the original node around the crash
    let mut known: BTreeSet<SaitoHash> = BTreeSet::new();
    let mut pre_tips: Vec<SaitoHash> = vec![];
    for m in before.into_iter().chain(std::iter::once(after)) {
        if let Some(ms) = &m.snap {
            for b in &ms.blocks {
                known.insert(b.0);
            }
            pre_tips.push(ms.tip_hash);
        }
    }
    if clean {
        pre_tips = vec![after.snap.as_ref().map(|x| x.tip_hash).unwrap_or([0; 32])];
    }
    // ---- tip
    let tip = s.tip_hash;
    let mut unknown_tip: Option<String> = None;
    if pre_tips.contains(&tip) {
        v.tip_class = "pre-crash-tip";
    } else if tip == [0u8; 32] {
        if out.intact_on_disk == 0 {
            v.tip_class = "empty(no-intact-file)";
        } else {
            v.tip_class = "empty";
            let w = format!(
                "the restarted node came up with an EMPTY chain although {} intact block files were on disk",
                out.intact_on_disk
            );
            if cp.torn.is_some() {
                v.known.push((ID_WIPE, w));
            } else {
                v.failures.push(w);
            }
        }
    } else if pre_tips.iter().any(|p| ctx.is_ancestor_or_self(&tip, p)) {
        v.tip_class = "ancestor";
        let pid = pre_tips
            .iter()
            .filter_map(|p| ctx.by_hash.get(p))
            .map(|i| h.blocks[*i].block.id)
            .max()
            .unwrap_or(0);
        v.lost = pid.saturating_sub(s.tip_id);
    } else if known.contains(&tip) {
        v.tip_class = "other-known-branch";
    } else {
        v.tip_class = "unknown-block";
        unknown_tip = Some(format!("the restarted tip (id {}) is not a block the node had stored before the crash", s.tip_id));
    }
    // ---- blocks replayed while their parent was not stored (out-of-order branch of add_block).
    // The listed finding explains this ONLY for these triggers, checked per missing parent:
    //  (r) the parent's file is on the crashed disk, decodes, was inside a loaded batch, and the restarted
    //      node does not store it: it was replayed and rejected (invalid sibling replayed first);
    //  (p) the parent's file was removed by an operation of the journal prefix: it was purged by the running
    //      node (siblings above a purged parent, crash between the deletions of one purge step) or deleted
    //      by an earlier restart of this history that had rejected it.
    // A parent whose file was never written, or that is missing for any other reason, is NOT explained.
    let complete_ops = if cp.torn.is_some() { cp.k - 1 } else { cp.k };
    let removed: BTreeSet<SaitoHash> = h.journal[..complete_ops.min(h.journal.len())]
        .iter()
        .filter_map(|op| match op {
            DiskOp::Remove(n) => Some(name_hash(n)),
            _ => None,
        })
        .collect();
    let stored_now: BTreeSet<SaitoHash> = s.blocks.iter().map(|b| b.0).collect();
    let explained = out.orphan_parents.iter().all(|ph| {
        let rejected = out.disk_blocks.iter().any(|x| x.0 == *ph)
            && !out.batch_skipped.contains(ph)
            && !stored_now.contains(ph);
        rejected || removed.contains(ph)
    });
    // listed separately: the parent's file is intact but was never loaded because an undecodable
    // file aborted its batch, while the orphan sits in a later batch
    let batch_gap = !out.orphans.is_empty() && out.orphan_parents.iter().any(|ph| out.batch_skipped.contains(ph));
    if !out.orphans.is_empty() && !explained && !batch_gap {
        v.failures.push(format!(
            "blocks with ids {:?} were replayed while their parent was not stored, and the parent was neither rejected at this restart nor removed by the journal",
            out.orphans
        ));
    }
    let orphaned = !out.orphans.is_empty() && explained;
    let forked = v.tip_class == "other-known-branch";
    // The listed findings explain a wrong tip, a ledger that is not the replay of the stored chain, a
    // different spendable set, missing supply and a different block set (orphans / batches: rejected files
    // are deleted; competing branch: it can be longer, so the purge horizon moves).  They do NOT explain an unknown tip, a produced block that is refused, a
    // directory that disagrees with blockchain.blocks, a non-empty queue or an unrecoverable pruned block.
    // a torn file made the node fall back at least a whole genesis period: the window of the ancestor it
    // came up on is no longer on disk, so its ledger cannot be complete (listed finding)
    let wiped = v.tip_class == "ancestor" && cp.torn.is_some() && v.lost >= gp;
    let fail = |v: &mut Verdict, kind: Kind, id: Option<&'static str>, w: String| {
        let ledger = matches!(kind, Kind::Tip | Kind::Utxo | Kind::Supply | Kind::C03);
        if batch_gap && (ledger || kind == Kind::Blocks) {
            v.known.push((ID_BATCH, format!("{} (blocks with ids {:?} of a later batch were replayed although the batch holding their parent was aborted)", w, out.orphans)));
        } else if orphaned && (ledger || kind == Kind::Blocks) {
            v.known.push((ID_ORPHAN, format!("{} (blocks with ids {:?} were replayed while their parent was not stored)", w, out.orphans)));
        } else if wiped && matches!(kind, Kind::Utxo | Kind::Supply | Kind::C03) {
            v.known.push((ID_WIPE, format!("{} (a torn file made the node discard at least a whole window of later blocks)", w)));
        } else if forked && (ledger || kind == Kind::Blocks) {
            v.known.push((ID_FORK, format!("{} (the node restarted on a competing branch)", w)));
        } else if let Some(id) = id {
            v.known.push((id, w));
        } else {
            v.failures.push(w);
        }
    };
    if let Some(w) = unknown_tip {
        fail(&mut v, Kind::Unknown, None, w);
    }
    // ---- nothing torn: every file on the crashed disk is intact, so nothing that was on disk may be lost
    // (a child of the restarted tip on the way to a pre-crash tip whose file is on the crashed disk)
    if cp.torn.is_none() && v.tip_class == "ancestor" {
        let mut lost_child: Option<u64> = None;
        for p in &pre_tips {
            if *p != tip && ctx.is_ancestor_or_self(&tip, p) {
                let mut cur = ctx.by_hash.get(p).cloned();
                while let Some(i) = cur {
                    let par = h.blocks[i].parent;
                    if par.map(|q| h.blocks[q].block.hash) == Some(tip) {
                        if out.disk_blocks.iter().any(|x| x.0 == h.blocks[i].block.hash) {
                            lost_child = Some(h.blocks[i].block.id);
                        }
                        break;
                    }
                    cur = par;
                }
            }
        }
        if let Some(id) = lost_child {
            let w = format!(
                "no file is torn and the file of block id {} (child of the restarted tip, ancestor of the pre-crash tip) is on disk, yet the node came up on id {}",
                id, s.tip_id
            );
            fail(&mut v, Kind::Tip, None, w);
        }
    }
    // ---- clean shutdown: same tip, same in-window spendable set, same supply, same stored blocks
    if clean {
        if let Some(os) = &after.snap {
            if os.tip_hash != tip {
                let both_known = known.contains(&tip);
                let other_branch = both_known
                    && !ctx.is_ancestor_or_self(&tip, &os.tip_hash)
                    && !ctx.is_ancestor_or_self(&os.tip_hash, &tip);
                let w = format!(
                    "clean restart: tip differs: the node was on block id {} and restarted on block id {} ({})",
                    os.tip_id, s.tip_id, v.tip_class
                );
                fail(&mut v, Kind::Tip, if other_branch { Some(ID_FORK) } else { None }, w);
            } else {
                let a = in_window_utxo(os, gp);
                let b = in_window_utxo(s, gp);
                if a != b {
                    let w = format!(
                        "clean restart: in-window spendable set differs: {} only before, {} only after",
                        a.difference(&b).count(),
                        b.difference(&a).count()
                    );
                    fail(&mut v, Kind::Utxo, None, w);
                }
                if after.supply != out.supply {
                    let w = format!("clean restart: supply {} before, {} after", after.supply, out.supply);
                    fail(&mut v, Kind::Supply, None, w);
                }
            }
            // (a never-validated invalid block that the running node kept off chain is legitimately
            // rejected and dropped when it is replayed)
            let ob: BTreeSet<(SaitoHash, u64)> = os
                .blocks
                .iter()
                .filter(|b| !ctx.by_hash.get(&b.0).map(|i| h.blocks[*i].eff_invalid).unwrap_or(false) || stored_now.contains(&b.0))
                .map(|b| (b.0, b.1))
                .collect();
            let nb: BTreeSet<(SaitoHash, u64)> = s.blocks.iter().map(|b| (b.0, b.1)).collect();
            if ob != nb {
                let w = format!(
                    "clean restart: stored blocks differ: ids {:?} only before, ids {:?} only after",
                    ob.difference(&nb).map(|x| x.1).collect::<Vec<_>>(),
                    nb.difference(&ob).map(|x| x.1).collect::<Vec<_>>()
                );
                fail(&mut v, Kind::Blocks, None, w);
            }
        }
    }
    // ---- crash point that comes up on a pre-crash tip: the ledger must be the one the node had there
    if !clean {
        for m in before.into_iter().chain(std::iter::once(after)) {
            if let Some(ms) = &m.snap {
                if ms.tip_hash == tip && tip != [0u8; 32] {
                    let a = in_window_utxo(ms, gp);
                    let b = in_window_utxo(s, gp);
                    if a != b {
                        let w = format!(
                            "restarted on the pre-crash tip (id {}) with a different in-window spendable set: {} only before, {} only after",
                            s.tip_id,
                            a.difference(&b).count(),
                            b.difference(&a).count()
                        );
                        fail(&mut v, Kind::Utxo, None, w);
                    }
                    break;
                }
            }
        }
    }
    // ---- valid chain (C03 replay oracle on the restarted node)
    // (one clause of that oracle - the stored window reaches down to tip - 2gp + 1 - does not apply to a node
    // that came up BEHIND the tip the running node had reached: the running node had already purged for
    // its own, higher tip before the crash; nor in a history whose running node went through that itself)
    let running_tip_id = before
        .into_iter()
        .chain(std::iter::once(after))
        .filter_map(|m| m.snap.as_ref().map(|x| x.tip_id))
        .max()
        .unwrap_or(0);
    for f in &out.c03 {
        let after_crash_restart = h.marks[..=mi].iter().any(|m| m.what == "crash-restart");
        if f.starts_with("stored chain window ends") && (s.tip_id < running_tip_id || after_crash_restart) {
            v.window_short = true;
            continue;
        }
        fail(&mut v, Kind::C03, None, format!("restarted chain is not valid: {}", f));
    }
    // ---- supply conserved
    if tip != [0u8; 32] && out.supply != h.issued {
        let w = format!(
            "supply of the restarted node is {} but {} was issued (restarted tip id {}: {}, {} blocks behind)",
            out.supply, h.issued, s.tip_id, v.tip_class, v.lost
        );
        let id = if v.tip_class == "ancestor" && cp.torn.is_some() && v.lost >= gp {
            // a torn file made the node discard at least a whole window of later blocks
            Some(ID_WIPE)
        } else {
            None
        };
        fail(&mut v, Kind::Supply, id, w);
    }
    // ---- can extend
    if let Some(m) = &out.extend {
        if out.extend_ref_fails {
            v.ext_blocked = true;
        } else {
            fail(&mut v, Kind::Extend, None, format!("cannot extend: {}", m));
        }
    }
    // ---- storage state after the restart
    if let Some(w) = &out.dir_mismatch {
        fail(&mut v, Kind::Storage, None, format!("after the restart the block directory and blockchain.blocks disagree: {}", w));
    }
    if out.queue_len != 0 {
        fail(&mut v, Kind::Storage, None, format!("on_init left {} blocks in the mempool queue", out.queue_len));
    }
    for w in &out.upgrade_fail {
        fail(&mut v, Kind::Storage, None, format!("after the restart: {}", w));
    }
    v
}

// ------------------------------------------------------------------ main

fn hist_json(h: &Hist) -> String {
    let blocks: Vec<String> = h
        .blocks
        .iter()
        .enumerate()
        .map(|(i, b)| {
            format!(
                "{{\"block\":{},\"parent\":{},\"id\":{},\"ts\":{},\"txs\":{},\"gt\":{},\"invalid\":{}}}",
                i + 1,
                b.parent.map(|p| (p + 1).to_string()).unwrap_or("null".to_string()),
                b.block.id,
                b.block.timestamp,
                b.block.transactions.len(),
                b.block.has_golden_ticket,
                b.eff_invalid
            )
        })
        .collect();
    let steps: Vec<String> = h
        .marks
        .iter()
        .map(|m| {
            format!(
                "{{\"step\":{},\"result\":{},\"journal_len\":{},\"tip_id\":{}}}",
                jstr(&m.what),
                jstr(&m.class),
                m.journal_len,
                m.snap.as_ref().map(|s| s.tip_id).unwrap_or(0)
            )
        })
        .collect();
    format!(
        "{{\"genesis_period\":{},\"blocks\":[{}],\"steps\":[{}],\"journal_ops\":{}}}",
        h.params.genesis_period,
        blocks.join(","),
        steps.join(","),
        h.journal.len()
    )
}

/// order-preserving interning: index = rank of the real hash, so that the model's numeric
/// order of file keys (timestamp, hash) is the implementation's order of file names
fn rank_interned(h: &Hist) -> chainsim::Interned {
    let mut hs: Vec<SaitoHash> = h.blocks.iter().map(|b| b.block.hash).collect();
    hs.sort();
    hs.dedup();
    let hash_idx: BTreeMap<SaitoHash, u64> = hs.iter().enumerate().map(|(i, x)| (*x, i as u64 + 1)).collect();
    let mut keys = Interner::default();
    for b in &h.blocks {
        for tx in &b.block.transactions {
            for s in tx.from.iter().chain(tx.to.iter()) {
                if s.amount > 0 {
                    keys.get(&s.utxoset_key);
                }
            }
        }
    }
    chainsim::Interned { hash_idx, keys }
}

fn gallina_pblks(h: &Hist, int: &mut chainsim::Interned) -> String {
    let mut items = vec![];
    for b in &h.blocks {
        let blk = &b.block;
        let mut txs = vec![];
        for tx in &blk.transactions {
            let ins: Vec<u64> = tx.from.iter().filter(|s| s.amount > 0).map(|s| int.keys.get(&s.utxoset_key)).collect();
            let outs: Vec<u64> = tx.to.iter().filter(|s| s.amount > 0).map(|s| int.keys.get(&s.utxoset_key)).collect();
            txs.push(format!("({}, {})", gal::nlist(&ins), gal::nlist(&outs)));
        }
        items.push(format!(
            "({}, mkB {} {} {} {} {} {} {})",
            blk.timestamp,
            chainsim::hidx(int, &blk.hash),
            chainsim::hidx(int, &blk.previous_block_hash),
            blk.id,
            blk.burnfee,
            gal::boolean(blk.has_golden_ticket),
            gal::boolean(!b.eff_invalid),
            gal::list(&txs)
        ));
    }
    gal::list(&items)
}

fn name_hash(name: &str) -> SaitoHash {
    // "<dir>/<timestamp>-<64 hex>.sai"
    let base = name.rsplit('/').next().unwrap_or(name);
    let hexpart = base.split('-').nth(1).unwrap_or("").trim_end_matches(".sai");
    let mut out = [0u8; 32];
    if let Ok(v) = hex::decode(hexpart) {
        if v.len() == 32 {
            out.copy_from_slice(&v);
        }
    }
    out
}

fn gallina_journal(h: &Hist, int: &chainsim::Interned) -> String {
    let items: Vec<String> = h
        .journal
        .iter()
        .map(|op| match op {
            DiskOp::Write(n, _) => format!("(1, {})", chainsim::hidx(int, &name_hash(n))),
            DiskOp::Remove(n) => format!("(0, {})", chainsim::hidx(int, &name_hash(n))),
        })
        .collect();
    gal::list(&items)
}

fn impl_rows(int: &mut chainsim::Interned, o: &Outcome) -> Vec<Vec<u64>> {
    if o.panic.is_some() || o.snap.is_none() {
        return vec![vec![9]];
    }
    let mut rows = chainsim::snapshot_rows(int, 0, 0, o.snap.as_ref().unwrap());
    rows.remove(0);
    let mut ops = vec![];
    for (t, n) in &o.ops {
        ops.push(*t);
        ops.push(chainsim::hidx(int, &name_hash(n)));
    }
    rows.push(ops);
    rows.push(o.final_files.iter().map(|n| chainsim::hidx(int, &name_hash(n))).collect());
    rows
}

/// more than 1000 block files: ConsensusThread::on_init loads them in batches of 1000 and an
/// undecodable file aborts only its own batch.  Linear chain of `n` blocks (genesis period large
/// enough that nothing is purged), the file at position `torn_at` (1-based, in name order) torn as by
/// a crash during a start-up rewrite.  Returns (history, crash point).
async fn batch_gap_history(n: usize, torn_at: usize) -> (Hist, CrashPoint) {
    let gp = n as u64;
    let mut params = chainsim::params(gp, false);
    params.prune_after_blocks = 2 * gp;
    let mut node = Node::new(&params, 1);
    let mut h = Hist { params: params.clone(), blocks: vec![], marks: vec![], journal: vec![], issued: 0, notes: vec![], keep_dir: false };
    let issuance: Vec<_> = (0..4).map(|k| (node.pk, 1_000_000 + 1000 * k as u64)).collect();
    h.issued = issuance.iter().map(|(_, a)| *a as u128).sum();
    let g = make_genesis(&node, 1_000_000, &issuance).await.expect("genesis");
    h.blocks.push(HBlock { block: g, parent: None, eff_invalid: false });
    deliver(&mut h, &mut node, 0).await;
    for i in 1..n {
        let parent = h.blocks[i - 1].block.clone();
        // a golden ticket in every second block keeps the density rule and the difficulty flat
        let ts = parent.timestamp + 1000;
        let with_gt = i % 2 == 1;
        let mut txs = vec![];
        if !with_gt {
            let sp = spendable(&node);
            if let Some(s) = sp.first() {
                txs.push(make_tx(&[s.clone()], &[(node.pk, s.amount)], &node.sk, ts));
            }
        }
        let with_gt = with_gt || txs.is_empty();
        let blk = make_block(&node, parent.hash, ts, txs, with_gt, i as u64).await;
        let blk = match blk {
            Ok(b) => b,
            Err(e) => {
                h.notes.push(format!("batch-gap history: producer failed at block {}: {}", i + 1, e));
                break;
            }
        };
        h.blocks.push(HBlock { block: blk, parent: Some(i - 1), eff_invalid: false });
        if deliver(&mut h, &mut node, i).await != AddClass::OnChain {
            h.notes.push(format!("batch-gap history: block {} not accepted", i + 1));
            break;
        }
    }
    h.journal = node.disk.lock().unwrap().journal.clone();
    // the start-up rewrite of file `torn_at`, interrupted
    if let Some(DiskOp::Write(name, bytes)) = h.journal.get(torn_at - 1).cloned() {
        h.journal.push(DiskOp::Write(name, bytes));
    }
    let k = h.journal.len();
    (h, CrashPoint { k, torn: Some(("inside-header", 100)) })
}

// ------------------------------------------------------------------ RustIOHandler vs MemIo

/// every regular file below ./data of the current directory: path ("./data/...") -> bytes
fn real_tree() -> BTreeMap<String, Vec<u8>> {
    fn walk(dir: &std::path::Path, out: &mut BTreeMap<String, Vec<u8>>) {
        if let Ok(rd) = std::fs::read_dir(dir) {
            for e in rd.flatten() {
                let p = e.path();
                if p.is_dir() {
                    walk(&p, out);
                } else if let Ok(b) = std::fs::read(&p) {
                    out.insert(format!("./{}", p.to_string_lossy().trim_start_matches("./")), b);
                }
            }
        }
    }
    let mut out = BTreeMap::new();
    walk(std::path::Path::new("./data"), &mut out);
    out
}

fn mem_tree(disk: &Arc<Mutex<Disk>>) -> BTreeMap<String, Vec<u8>> {
    disk.lock().unwrap().files.clone()
}

fn tree_diff(real: &BTreeMap<String, Vec<u8>>, mem: &BTreeMap<String, Vec<u8>>) -> Option<String> {
    if real == mem {
        return None;
    }
    let only_real: Vec<&String> = real.keys().filter(|k| !mem.contains_key(*k)).collect();
    let only_mem: Vec<&String> = mem.keys().filter(|k| !real.contains_key(*k)).collect();
    let differ: Vec<String> = real
        .iter()
        .filter(|(k, v)| mem.get(*k).map(|m| m != *v).unwrap_or(false))
        .map(|(k, v)| format!("{} ({} bytes on the file system, {} in memory)", k, v.len(), mem[k].len()))
        .collect();
    Some(format!("only on the file system {:?}; only in memory {:?}; different content {:?}", only_real, only_mem, differ))
}

/// compares the real tree with `expect`.  Before fix 8aca2b0 RustIOHandler::write_value returned without
/// flushing the tokio file and the bytes arrived after the call; to tell that regression (late but
/// complete) from a wrong file the comparison is repeated for up to half a second.  Returns (difference
/// that remains, number of polls that saw one); any poll that saw a difference is reported as a failure.
fn settle_tree(expect: &BTreeMap<String, Vec<u8>>) -> (Option<String>, usize) {
    let mut polls = 0;
    loop {
        // the wallet file (./data/wallet, written by the real save_wallet) is not part of the comparison
        let mut real = real_tree();
        real.retain(|k, _| k != "./data/wallet");
        let d = tree_diff(&real, expect);
        if d.is_none() || polls >= 100 {
            return (d, polls);
        }
        polls += 1;
        std::thread::sleep(Duration::from_millis(5));
    }
}

const RACED: &str = "RACED: ";

fn wipe_data() {
    let _ = std::fs::remove_dir_all("./data");
}

fn kind_of<T>(r: &Result<T, std::io::Error>) -> String {
    match r {
        Ok(_) => "ok".to_string(),
        Err(e) => format!("err:{:?}", e.kind()),
    }
}

/// one random sequence of storage calls on the real handler and on MemIo; returns (description, failures)
async fn io_ops_case(rng: &mut Rng, n_ops: usize) -> (String, Vec<String>) {
    wipe_data();
    let disk = Arc::new(Mutex::new(Disk::default()));
    let mem = MemIo::new(disk.clone());
    let real = real_handler();
    let mut names: Vec<String> = (0..6)
        .map(|i| format!("./data/blocks/{}-{:064x}.sai", 1_000_000 + 100 * rng.below(50), rng.next() as u128 * 7919 + i))
        .collect();
    names.push("./data/blocks/readme.txt".to_string());
    names.push("./data/other/deep/state.bin".to_string());
    let mut fails = vec![];
    let mut trace = vec![];
    let _ = real.ensure_block_directory_exists(real.get_block_dir().as_str());
    if real.get_block_dir() != mem.get_block_dir() {
        fails.push(format!("block directory {:?} vs {:?}", real.get_block_dir(), mem.get_block_dir()));
    }
    for step in 0..n_ops {
        let name = rng.pick(&names).clone();
        // steps 0 / 1: a file larger than tokio's 2 MiB file buffer is written and read back
        let forced = if step == 0 { Some(0) } else if step == 1 { Some(6) } else { None };
        let name = if forced.is_some() { names[0].clone() } else { name };
        let what = match forced.unwrap_or_else(|| rng.below(10)) {
            0..=3 => {
                let len = if step == 0 { 3 * 1024 * 1024 + 17 } else { *rng.pick(&[0u64, 1, 388, 389, 390, 700, 2000, 5000]) + rng.below(3) };
                let bytes: Vec<u8> = (0..len).map(|i| (rng.next() as u8) ^ (i as u8)).collect();
                let a = real.write_value(&name, &bytes).await;
                let b = mem.write_value(&name, &bytes).await;
                (format!("write {} bytes to {}", len, name), kind_of(&a), kind_of(&b))
            }
            4..=5 => {
                let a = real.remove_value(&name).await;
                let b = mem.remove_value(&name).await;
                (format!("remove {}", name), kind_of(&a), kind_of(&b))
            }
            6..=7 => {
                let a = real.read_value(&name).await;
                let b = mem.read_value(&name).await;
                let (ka, kb) = (kind_of(&a), kind_of(&b));
                let same = match (&a, &b) {
                    (Ok(x), Ok(y)) => x == y,
                    _ => true,
                };
                if !same {
                    fails.push(format!("step {}: read {} returns different bytes", step, name));
                }
                (format!("read {}", name), ka, kb)
            }
            8 => {
                let a = real.is_existing_file(&name).await;
                let b = mem.is_existing_file(&name).await;
                (format!("exists {}", name), a.to_string(), b.to_string())
            }
            _ => {
                let a = real.load_block_file_list().await.map(|mut v| {
                    v.sort();
                    v
                });
                let b = mem.load_block_file_list().await.map(|mut v| {
                    v.sort();
                    v
                });
                ("list block files".to_string(), format!("{:?}", a.ok()), format!("{:?}", b.ok()))
            }
        };
        if what.1 != what.2 {
            fails.push(format!("step {}: {}: file system answers {}, memory {}", step, what.0, what.1, what.2));
        }
        let first = tree_diff(&real_tree(), &mem_tree(&disk));
        if first.is_some() {
            match settle_tree(&mem_tree(&disk)) {
                (Some(d), _) => fails.push(format!("step {}: after '{}' the directory trees differ: {}", step, what.0, d)),
                (None, n) => fails.push(format!(
                    "{}step {}: '{}' returned before the data was in the file (complete after {} ms): {}",
                    RACED,
                    step,
                    what.0,
                    n * 5,
                    first.unwrap()
                )),
            }
        }
        trace.push(what.0);
        if fails.iter().filter(|f| !f.starts_with(RACED)).count() > 3 {
            break;
        }
    }
    (format!("{{\"io_ops\":[{}]}}", trace.iter().map(|t| jstr(t)).collect::<Vec<_>>().join(",")), fails)
}

/// writes a MemIo disk onto the real file system (the state a crash would leave)
fn materialise(d: &Disk) {
    wipe_data();
    let _ = std::fs::create_dir_all("./data/blocks");
    // creation order = order in which MemIo lists; the real handler lists by mtime, Storage sorts anyway
    for name in &d.order {
        if let Some(bytes) = d.files.get(name) {
            if let Some(parent) = std::path::Path::new(name).parent() {
                let _ = std::fs::create_dir_all(parent);
            }
            std::fs::write(name, bytes).expect("harness: writing the crashed disk");
        }
    }
}

fn same_state(a: &ChainSnapshot, b: &ChainSnapshot) -> Option<String> {
    if a.tip_hash != b.tip_hash {
        return Some(format!("tip id {} vs {}", a.tip_id, b.tip_id));
    }
    if a.blocks != b.blocks {
        return Some("stored blocks / on-chain flags differ".to_string());
    }
    if a.utxo != b.utxo {
        return Some("spendable sets differ".to_string());
    }
    if a.lc_index != b.lc_index {
        return Some("by-height index differs".to_string());
    }
    None
}

/// runs the history `h` (generated on a MemIo node) again on a node whose Storage is the real
/// RustIOHandler, comparing directory and state after every step, then restarts both kinds of node
/// from crashed disks.  Returns (case description, failures) per comparison.
async fn io_node_cases(h: &Hist, hi: &str) -> Vec<(String, Vec<String>)> {
    let mut cases = vec![];
    wipe_data();
    let mut node = Node::new(&h.params, 1);
    node.storage = Storage::new(real_handler());
    let mut prev_len = 0usize;
    for m in &h.marks {
        let mut fails = vec![];
        if let Some(n) = m.what.strip_prefix("deliver ") {
            let i: usize = n.parse().unwrap();
            let r = futures_catch(AssertUnwindSafe(node.add_block(h.blocks[i - 1].block.clone()))).await;
            let class = match r {
                Ok(c) => format!("{:?}", c),
                Err(e) => format!("panic: {}", e),
            };
            if class != m.class {
                fails.push(format!("step '{}' answered {} on the file-system node, {} on the memory node", m.what, class, m.class));
            }
        } else {
            if m.what == "crash-restart" {
                // the tear is the first journal operation of this step: a write of the torn bytes
                if let Some(DiskOp::Write(name, bytes)) = h.journal.get(prev_len) {
                    std::fs::write(name, bytes).expect("harness: tearing the real file");
                }
            }
            match restart_with(&h.params, 1, node.disk.clone(), true).await {
                Ok(n2) => node = n2,
                Err(e) => fails.push(format!("restart over the real file system panicked: {}", e)),
            }
        }
        prev_len = m.journal_len;
        let expect = disk_after(&h.journal, m.journal_len, None);
        match settle_tree(&expect.files) {
            (Some(d), _) => fails.push(format!("after step '{}' the real directory differs from the journaled one: {}", m.what, d)),
            (None, n) if n > 0 => fails.push(format!(
                "{}step '{}': a block file was still incomplete when add_block / on_init had returned (complete after {} ms)",
                RACED,
                m.what,
                n * 5
            )),
            _ => {}
        }
        match (safe_snapshot(&node), &m.snap) {
            (Ok(a), Some(b)) => {
                if let Some(w) = same_state(&a, b) {
                    fails.push(format!("after step '{}' the two nodes differ: {}", m.what, w));
                }
            }
            _ => fails.push(format!("after step '{}': no snapshot", m.what)),
        }
        let stop = fails.iter().any(|f| !f.starts_with(RACED));
        cases.push((format!("{{\"io_history\":{},\"step\":{}}}", jstr(hi), jstr(&m.what)), fails));
        if stop {
            return cases;
        }
    }
    // crashed disks: every untorn position, and the last two writes torn at every byte class
    let mut points: Vec<CrashPoint> = (0..=h.journal.len()).map(|k| CrashPoint { k, torn: None }).collect();
    let writes: Vec<usize> = (1..=h.journal.len()).filter(|k| matches!(h.journal[k - 1], DiskOp::Write(_, _))).collect();
    for k in writes.iter().rev().take(2) {
        if let DiskOp::Write(_, bytes) = &h.journal[k - 1] {
            for tp in tear_points(bytes) {
                points.push(CrashPoint { k: *k, torn: Some(tp) });
            }
        }
    }
    for cp in &points {
        let mut fails = vec![];
        let d = disk_after(&h.journal, cp.k, cp.torn.map(|t| t.1));
        materialise(&d);
        let mem_disk = Arc::new(Mutex::new(d));
        let a = restart_with(&h.params, 1, Arc::new(Mutex::new(Disk::default())), true).await;
        let b = restart_with(&h.params, 1, mem_disk.clone(), false).await;
        match (&a, &b) {
            (Ok(na), Ok(nb)) => {
                match (safe_snapshot(na), safe_snapshot(nb)) {
                    (Ok(sa), Ok(sb)) => {
                        if let Some(w) = same_state(&sa, &sb) {
                            fails.push(format!("restart over the real file system and over memory differ: {}", w));
                        }
                    }
                    _ => fails.push("no snapshot after restart".to_string()),
                }
                match settle_tree(&mem_tree(&mem_disk)) {
                    (Some(w), _) => fails.push(format!("directories differ after the restart: {}", w)),
                    (None, n) if n > 0 => fails.push(format!(
                        "{}a rewritten block file was still incomplete when on_init had returned (complete after {} ms)",
                        RACED,
                        n * 5
                    )),
                    _ => {}
                }
            }
            (Err(x), Ok(_)) => fails.push(format!("restart over the real file system panicked: {}", x)),
            (Ok(_), Err(y)) => fails.push(format!("restart over memory panicked but not over the file system: {}", y)),
            (Err(_), Err(_)) => {}
        }
        cases.push((
            format!(
                "{{\"io_history\":{},\"crash_after_ops\":{},\"last_op\":{}}}",
                jstr(hi),
                cp.k,
                match cp.torn {
                    None => "\"complete\"".to_string(),
                    Some((c, m)) => format!("{{\"torn\":{},\"bytes_written\":{}}}", jstr(c), m),
                }
            ),
            fails,
        ));
    }
    cases
}

fn main() {
    verif_harness::common::init_log();
    let args = Args::parse();
    if let Ok(v) = std::env::var("C12_BATCHGAP") {
        let parts: Vec<usize> = v.split(':').map(|x| x.parse().unwrap()).collect();
        let rt = tokio::runtime::Builder::new_current_thread().enable_all().build().unwrap();
        let t0 = std::time::Instant::now();
        let (h, cp) = rt.block_on(batch_gap_history(parts[0], parts[1]));
        eprintln!("built {} blocks in {:?}; notes {:?}", h.blocks.len(), t0.elapsed(), h.notes);
        let ctx = Ctx { h: &h, by_hash: h.blocks.iter().enumerate().map(|(i, b)| (b.block.hash, i)).collect() };
        let shared = Arc::new(HistShared { params: h.params.clone(), journal: h.journal.clone(), tree_blocks: h.blocks.clone(), keep_dir: h.keep_dir });
        let out = run_crash_point(&shared, &cp, Duration::from_secs(600));
        let v = judge(&ctx, &cp, &out);
        if let Ok(o) = &out {
            eprintln!("outcome: panic {:?} loaded {} intact {} ops {:?} deleted {} supply {} c03 {:?} extend {:?} orphans {:?} tip {:?}", o.panic, o.loaded, o.intact_on_disk, o.restart_ops, o.deleted.len(), o.supply, o.c03, o.extend, o.orphans, o.snap.as_ref().map(|s| (s.tip_id, s.lc_index.len(), s.lc_index.first().cloned().map(|x| x.0), s.blocks.len())));
        }
        eprintln!("verdict {} lost {} failures {:?} known {:?} in {:?}", v.tip_class, v.lost, v.failures, v.known, t0.elapsed());
        let show = |s: &ChainSnapshot| {
            for (k, v) in &s.utxo {
                let sl = Slip::parse_slip_from_utxokey(k).unwrap();
                eprintln!("   utxo blk {} tx {} idx {} amt {} type {:?} spendable {}", sl.block_id, sl.tx_ordinal, sl.slip_index, sl.amount, sl.slip_type, v);
            }
        };
        if let Ok(o) = &out {
            if let Some(s) = &o.snap {
                eprintln!("restarted: lc {:?}", s.lc_index.iter().map(|x| x.0).collect::<Vec<_>>());
                show(s);
            }
        }
        if let Some(s) = &h.marks.last().unwrap().snap {
            eprintln!("original:");
            show(s);
        }
        return;
    }
    let thorough = args.tier == "thorough";
    let mut rng = Rng::new(args.seed);
    let mut summary = Summary::new("C12");
    // phase 1: histories inside the regime of the Coq chain model (every id <= 2 * genesis
    // period): every crash point is also a model case, so case numbers coincide.
    // phase 2: small genesis periods with purging, pruning and rebroadcast: direct oracles only.
    let (n_model, n_purge) = if thorough { (60, 260) } else { (10, 36) };
    let per_hist_budget = if thorough { usize::MAX } else { 120 };
    let rt = tokio::runtime::Builder::new_current_thread().enable_all().build().unwrap();
    let mut case_no = 0usize;
    let mut distinct: BTreeSet<String> = BTreeSet::new();
    let debug = std::env::var("C12_DEBUG").is_ok();
    let mut coq_cases: Vec<String> = vec![];
    let mut torn_rejected = 0u64;
    let mut hits_per_hist: BTreeMap<(usize, &'static str), usize> = BTreeMap::new();
    let mut clean_points = 0u64;
    let scripted = scripts();
    let n_script_model = scripted.iter().filter(|x| x.2).count();
    let n_model = n_model + n_script_model;
    for hi in 0..(n_model + n_purge + scripted.len() - n_script_model) {
        let model = hi < n_model;
        // scripted histories: the model-regime ones come first, the purging ones open phase 2
        let script = if hi < n_script_model {
            Some(scripted.iter().filter(|x| x.2).nth(hi).unwrap().clone())
        } else if hi >= n_model && hi - n_model < scripted.len() - n_script_model {
            Some(scripted.iter().filter(|x| !x.2).nth(hi - n_model).unwrap().clone())
        } else {
            None
        };
        let (gp, steps) = if let Some(sc) = &script {
            (sc.1, sc.3.len())
        } else if model {
            let gp = *rng.pick(&[5u64, 8, 20, 20]);
            (gp, rng.range(4, (2 * gp - 2).min(13)) as usize)
        } else {
            let gp = *rng.pick(&[3u64, 3, 5, 5, 8]);
            let steps = match gp {
                3 => rng.range(6, 16),
                5 => rng.range(8, 20),
                _ => rng.range(12, 28),
            } as usize;
            (gp, steps)
        };
        let o = GenOpts {
            gp,
            steps,
            fork_pct: 25,
            invalid_pct: 15,
            restart_pct: 6,
            script: script.as_ref().map(|x| x.3.clone()),
            crash_restarts: !model,
            keep_dir: script.as_ref().map(|x| x.0.starts_with("kept-directory")).unwrap_or(false),
        };
        let h = rt.block_on(gen_history(&mut rng, &o));
        if let Some(sc) = &script {
            summary.count("scripted_history", sc.0);
        }
        let per_hist_budget = if script.is_some() { usize::MAX } else { per_hist_budget };
        let in_regime = h.blocks.iter().all(|b| b.block.id <= 2 * gp);
        let desc = hist_json(&h);
        if debug {
            eprintln!("history {}: {}", hi, desc);
        }
        for n in &h.notes {
            summary.notes.push(format!("history {}: {}", hi, n));
        }
        // oracles on the running node after every step (reported under the first crash point of the history)
        for w in history_oracles(&h) {
            summary.oracle_failure(case_no, &w, &format!("{{\"history\":{},\"history_desc\":{}}}", hi, desc));
        }
        summary.count("running_node_steps_checked", &format!("{}", (h.marks.len() / 5) * 5));
        // crash points
        let mut points: Vec<CrashPoint> = vec![];
        for k in 0..=h.journal.len() {
            points.push(CrashPoint { k, torn: None });
            if k > 0 {
                if let DiskOp::Write(_, bytes) = &h.journal[k - 1] {
                    for tp in tear_points(bytes) {
                        points.push(CrashPoint { k, torn: Some(tp) });
                    }
                }
            }
        }
        let total_points = points.len();
        if points.len() > per_hist_budget {
            // keep every untorn point (all clean shutdown points and every position between two
            // operations of a step, in particular around each Remove), sample the torn ones
            let (mut keep, mut rest): (Vec<CrashPoint>, Vec<CrashPoint>) = points.into_iter().partition(|p| p.torn.is_none());
            while keep.len() < per_hist_budget && !rest.is_empty() {
                let i = rng.below(rest.len() as u64) as usize;
                keep.push(rest.swap_remove(i));
            }
            points = keep;
        }
        let ctx = Ctx { h: &h, by_hash: h.blocks.iter().enumerate().map(|(i, b)| (b.block.hash, i)).collect() };
        let shared = Arc::new(HistShared {
            params: h.params.clone(),
            journal: h.journal.clone(),
            tree_blocks: h.blocks.clone(),
            keep_dir: h.keep_dir,
        });
        let has_fork = h.blocks.iter().enumerate().any(|(i, b)| {
            h.blocks.iter().skip(i + 1).any(|c| c.parent == b.parent && b.parent.is_some())
        });
        let purged = h.journal.iter().any(|op| matches!(op, DiskOp::Remove(_)));
        let mut int = rank_interned(&h);
        let (g_blocks, g_journal) = if model && in_regime {
            (gallina_pblks(&h, &mut int), gallina_journal(&h, &int))
        } else {
            (String::new(), String::new())
        };
        if model && !in_regime {
            summary.notes.push(format!("history {} left the regime of the chain model; harness error", hi));
            eprintln!("harness: model history {} has an id above 2*gp", hi);
            std::process::exit(2);
        }
        for cp in &points {
            if let Ok(only) = std::env::var("C12_ONLY") {
                if only != format!("{}:{}", hi, cp.k) {
                    continue;
                }
            }
            // (c) a torn block file must be rejected by the decoder (C10)
            let cp_desc = format!(
                "{{\"history\":{},\"crash_after_ops\":{},\"last_op\":{},\"history_desc\":{}}}",
                hi,
                cp.k,
                match cp.torn {
                    None => "\"complete\"".to_string(),
                    Some((c, m)) => format!("{{\"torn\":{},\"bytes_written\":{}}}", jstr(c), m),
                },
                desc
            );
            if let Some((class, m)) = cp.torn {
                if let DiskOp::Write(_, bytes) = &h.journal[cp.k - 1] {
                    let r = std::panic::catch_unwind(|| Block::deserialize_from_net(&bytes[..m]));
                    match r {
                        Ok(Err(_)) => torn_rejected += 1,
                        Ok(Ok(_)) => summary.oracle_failure(
                            case_no,
                            &format!("torn block file ({}: {} of {} bytes) was decoded as a block", class, m, bytes.len()),
                            &cp_desc,
                        ),
                        Err(_) => summary.oracle_failure(
                            case_no,
                            &format!("decoder panicked on a torn block file ({}: {} of {} bytes)", class, m, bytes.len()),
                            &cp_desc,
                        ),
                    }
                }
            }
            let out = run_crash_point(&shared, cp, Duration::from_secs(20));
            let v = judge(&ctx, cp, &out);
            if std::env::var("C12_ONLY").is_ok() {
                if std::env::var("C12_DUMP").is_ok() {
                    for (i, op) in h.journal.iter().enumerate() {
                        if let DiskOp::Write(n, bytes) = op {
                            eprintln!("op {} write {} ({} bytes)", i, n, bytes.len());
                            if let Ok(b) = Block::deserialize_from_net(bytes) {
                                for (ti, tx) in b.transactions.iter().enumerate() {
                                    eprintln!("   tx {} type {:?} from {:?} to {:?}", ti, tx.transaction_type,
                                        tx.from.iter().map(|s| (s.block_id, s.tx_ordinal, s.slip_index, s.amount)).collect::<Vec<_>>(),
                                        tx.to.iter().map(|s| (s.block_id, s.tx_ordinal, s.slip_index, s.amount)).collect::<Vec<_>>());
                                }
                            }
                        }
                    }
                    for (i, b) in h.blocks.iter().enumerate() {
                        for (ti, tx) in b.block.transactions.iter().enumerate() {
                            eprintln!(" pristine block {} tx {} type {:?} from {:?} to {:?}", i + 1, ti, tx.transaction_type,
                                tx.from.iter().map(|s| (s.block_id, s.tx_ordinal, s.slip_index, s.amount)).collect::<Vec<_>>(),
                                tx.to.iter().map(|s| (s.block_id, s.tx_ordinal, s.slip_index, s.amount)).collect::<Vec<_>>());
                        }
                    }
                }
                let (mi, clean) = locate(&h, cp);
                eprintln!("crash point {:?} mark {} clean {}", cp, mi, clean);
                if let Ok(o) = &out {
                    eprintln!("outcome: panic {:?} loaded {} intact {} ops {:?} deleted {:?} supply {} c03 {:?} extend {:?} orphans {:?}", o.panic, o.loaded, o.intact_on_disk, o.restart_ops, o.deleted, o.supply, o.c03, o.extend, o.orphans);
                    let show = |s: &ChainSnapshot| {
                        eprintln!(" tip {} lc {:?}", s.tip_id, s.lc_index.iter().map(|x| x.0).collect::<Vec<_>>());
                        eprintln!(" blocks {:?}", s.blocks.iter().map(|b| (b.1, b.2)).collect::<Vec<_>>());
                        for (k, v) in &s.utxo {
                            let sl = Slip::parse_slip_from_utxokey(k).unwrap();
                            eprintln!("   utxo blk {} tx {} idx {} amt {} type {:?} spendable {}", sl.block_id, sl.tx_ordinal, sl.slip_index, sl.amount, sl.slip_type, v);
                        }
                    };
                    if let Some(s) = &o.snap {
                        eprintln!("restarted:");
                        show(s);
                    }
                    if let Some(s) = &h.marks[mi].snap {
                        eprintln!("original at mark {} (supply {}):", mi, h.marks[mi].supply);
                        show(s);
                    }
                }
                eprintln!("verdict: failures {:?} known {:?}", v.failures, v.known);
            }
            if debug && (!v.failures.is_empty() || !v.known.is_empty()) {
                eprintln!("case {} h{} k={} torn={:?}: {:?} {:?}", case_no, hi, cp.k, cp.torn, v.failures, v.known);
            }
            for f in &v.failures {
                summary.oracle_failure(case_no, f, &cp_desc);
            }
            for (id, w) in &v.known {
                let c = hits_per_hist.entry((hi, *id)).or_insert(0usize);
                *c += 1;
                if *c <= 3 {
                    summary.known_hit(id, case_no, w);
                }
                summary.count("known_finding_points", id);
            }
            if model {
                // model case: Coq's k = number of complete operations
                let (ck, ct) = match cp.torn {
                    None => (cp.k, false),
                    Some(_) => (cp.k - 1, true),
                };
                let rows = match &out {
                    Ok(o) => impl_rows(&mut int, o),
                    Err(_) => vec![vec![7]],
                };
                coq_cases.push(format!(
                    "((({}, false), {}, {}, ({}, {})), {})",
                    gp,
                    g_blocks,
                    g_journal,
                    ck,
                    gal::boolean(ct),
                    gal::nllist(&rows)
                ));
            }
            let (_, clean) = locate(&h, cp);
            if clean {
                clean_points += 1;
            }
            summary.count("gp", &gp.to_string());
            summary.count("last_op", match cp.torn {
                None => "complete",
                Some((c, _)) => c,
            });
            summary.count("clean_shutdown_point", &clean.to_string());
            summary.count("restarted_tip", v.tip_class);
            summary.count("blocks_lost", &v.lost.min(9).to_string());
            summary.count("stored_window", if v.window_short { "shorter-after-crash-behind-the-running-tip" } else { "full" });
            summary.count("extension", if v.ext_blocked { "producer-fails-on-reference-node-too" } else { "checked" });
            summary.count("history_has_fork", &has_fork.to_string());
            summary.count("history_purged", &purged.to_string());
            summary.count("compared_with_model", &model.to_string());
            if let Ok(o) = &out {
                summary.count("restart_deletes", &o.restart_ops.1.min(9).to_string());
                summary.count("orphan_deliveries_at_restart", &o.orphans.len().min(3).to_string());
            }
            let nontrivial = cp.k > 1 && (has_fork || purged || cp.torn.is_some());
            if nontrivial && distinct.insert(format!("{}:{}:{:?}", hi, cp.k, cp.torn)) {
                summary.nontrivial += 1;
            }
            if summary.samples.len() < 3 && cp.torn.is_some() && hi % 5 == 0 {
                summary.samples.push(cp_desc.clone());
            }
            summary.case_descs.push(cp_desc);
            case_no += 1;
        }
        summary.count("crash_points_of_history", &format!("{}+", (total_points / 50) * 50));
    }
    // ---- more than 1000 files: one linear history of 1004 blocks, the start-up rewrite of the 2nd /
    // 3rd / 500th file torn (selected crash points only)
    if std::env::var("C12_ONLY").is_err() {
        let (base, _) = rt.block_on(batch_gap_history(1004, 2));
        for n in &base.notes {
            summary.notes.push(n.clone());
        }
        let n_writes = base.journal.len() - 1;
        for torn_at in [2usize, 3, 500] {
            let mut h = base.clone();
            h.journal.truncate(n_writes);
            if let Some(DiskOp::Write(name, bytes)) = h.journal.get(torn_at - 1).cloned() {
                h.journal.push(DiskOp::Write(name, bytes));
            }
            let ctx = Ctx { h: &h, by_hash: h.blocks.iter().enumerate().map(|(i, b)| (b.block.hash, i)).collect() };
            let shared = Arc::new(HistShared { params: h.params.clone(), journal: h.journal.clone(), tree_blocks: h.blocks.clone(), keep_dir: h.keep_dir });
            let mut pts = vec![CrashPoint { k: h.journal.len(), torn: Some(("inside-header", 100)) }];
            if torn_at == 2 {
                pts.push(CrashPoint { k: n_writes, torn: None });
                // exactly one full batch, and one file more (two batches, nothing torn)
                pts.push(CrashPoint { k: 1000, torn: None });
                pts.push(CrashPoint { k: 1001, torn: None });
                pts.push(CrashPoint { k: h.journal.len(), torn: Some(("one-byte-short", 700)) });
            }
            for cp in &pts {
                let cp_desc = format!(
                    "{{\"history\":\"linear chain of {} blocks (genesis period {}, golden ticket in every second block, a transfer in the others), then the start-up rewrite of file number {} (name order)\",\"crash_after_ops\":{},\"last_op\":{}}}",
                    h.blocks.len(),
                    h.params.genesis_period,
                    torn_at,
                    cp.k,
                    match cp.torn {
                        None => "\"complete\"".to_string(),
                        Some((c, m)) => format!("{{\"torn\":{},\"bytes_written\":{}}}", jstr(c), m),
                    }
                );
                let out = run_crash_point(&shared, cp, Duration::from_secs(120));
                let v = judge(&ctx, cp, &out);
                if debug {
                    eprintln!("case {} long history torn_at {} cp {:?}: {} lost {} {:?} {:?}", case_no, torn_at, cp, v.tip_class, v.lost, v.failures, v.known);
                }
                for f in &v.failures {
                    summary.oracle_failure(case_no, f, &cp_desc);
                }
                for (id, w) in &v.known {
                    summary.known_hit(id, case_no, w);
                }
                summary.count("gp", &h.params.genesis_period.to_string());
                summary.count("scripted_history", "more-than-1000-files");
                summary.count("restarted_tip", v.tip_class);
                summary.count("blocks_lost", &v.lost.min(9).to_string());
                if let Ok(o) = &out {
                    summary.count("orphan_deliveries_at_restart", &o.orphans.len().min(3).to_string());
                    summary.count("restart_deletes", &o.restart_ops.1.min(9).to_string());
                }
                summary.nontrivial += 1;
                summary.case_descs.push(cp_desc);
                case_no += 1;
            }
        }
    }
    // ---- the real RustIOHandler (saito-rust/src/rust_io_handler.rs of the checkout under test) against
    // MemIo, in <work dir of the property>/iodir: random storage-call sequences, whole histories replayed
    // on a node that persists through the real handler, restarts over materialised crashed disks
    let mut io_cases = 0usize;
    let mut io_raced = 0usize;
    if std::env::var("C12_ONLY").is_err() {
        std::fs::create_dir_all(&args.out).unwrap();
        let out_abs = std::fs::canonicalize(&args.out).unwrap();
        let iodir = out_abs.parent().unwrap_or(&out_abs).join("iodir");
        let _ = std::fs::remove_dir_all(&iodir);
        std::fs::create_dir_all(&iodir).unwrap();
        let old_cwd = std::env::current_dir().unwrap();
        std::env::set_current_dir(&iodir).unwrap();
        let mut results: Vec<(&'static str, String, Vec<String>)> = vec![];
        let (n_seq, n_ops) = if thorough { (12, 150) } else { (4, 80) };
        for _ in 0..n_seq {
            let (d, f) = rt.block_on(io_ops_case(&mut rng, n_ops));
            results.push(("call-sequence", d, f));
        }
        for (name, gp, _, actions) in scripts() {
            if !thorough && !["restart-after-purge", "three-siblings-above-purged-parent", "linear-with-restart", "crash-restart-then-growth"].contains(&name) {
                continue;
            }
            let o = GenOpts { gp, steps: actions.len(), fork_pct: 0, invalid_pct: 0, restart_pct: 0, script: Some(actions), crash_restarts: false, keep_dir: false };
            let h = rt.block_on(gen_history(&mut rng, &o));
            for (d, f) in rt.block_on(io_node_cases(&h, name)) {
                results.push(("history-on-real-handler", d, f));
            }
        }
        wipe_data();
        std::env::set_current_dir(&old_cwd).unwrap();
        for (kind, d, f) in results {
            for w in &f {
                if let Some(r) = w.strip_prefix(RACED) {
                    // fixed by 8aca2b0 (write_value awaits flush): a file that is still short right after the
                    // call has returned is a violation again
                    summary.oracle_failure(case_no, &format!("RustIOHandler::write_value returned before the data was in the file: {}", r), &d);
                    io_raced += 1;
                } else {
                    summary.oracle_failure(case_no, &format!("RustIOHandler vs MemIo: {}", w), &d);
                }
            }
            if debug && !f.is_empty() {
                eprintln!("case {} io {}: {:?}", case_no, kind, f);
            }
            summary.count("io_differential", kind);
            summary.nontrivial += 1;
            summary.case_descs.push(d);
            case_no += 1;
            io_cases += 1;
        }
        summary.notes.push(format!(
            "{} comparisons of the real RustIOHandler ({}) with MemIo under {} ({} of them saw a file that was still incomplete after write_value had returned)",
            io_cases,
            real_io::rust_io_handler::RUST_IO_HANDLER_SOURCE,
            iodir.display(),
            io_raced
        ));
    }
    summary.evaluations = case_no as u64;
    summary.notes.push(format!(
        "restart is driven through the real ConsensusThread::on_init (a ConsensusThread constructed over the rebuilt disk); {} crash points, {} of them clean shutdown points (journal position at the end of a step, nothing torn); {} torn files offered to Block::deserialize_from_net, all rejected unless listed as failure; {} crash points lie in histories inside the regime of the Coq chain model and were compared with Storage.restart (state, the restart's own storage operations, final directory)",
        case_no, clean_points, torn_rejected, coq_cases.len()
    ));
    let header = "From Saito Require Import Base Chain Storage.\n\
        Definition check (c : ((N * bool) * list (N * blk) * list (N * N) * (N * bool)) * list (list N)) : bool :=\n\
        let '((cfg, ps, j, (k, torn)), expected) := c in eqb_llN (case_rows cfg ps j k torn) expected.";
    if std::env::var("C12_ONLY").is_err() {
        let files = gal::write_shards(
            &format!("{}/cases", args.out),
            "C12",
            header,
            "((N * bool) * list (N * blk) * list (N * N) * (N * bool)) * list (list N)",
            &coq_cases,
            args.shards,
        )
        .unwrap();
        summary.case_files = files;
    }
    summary.write(&args.out);
}
