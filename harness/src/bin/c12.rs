//! C12 — restart rebuilds the same ledger; a crash at any storage step is survivable.
//!
//! Histories (linear growth with transfers and golden tickets, forks, reorganisations,
//! invalid fork blocks, clean restarts in the middle; genesis periods 3/5/8 so that
//! pruning, purging and rebroadcast happen, and 20 for the regime of the Coq chain
//! model) are run on a real node whose in-memory `InterfaceIO` journals every storage
//! operation.  For prefixes of that journal - last operation complete, or a `Write`
//! torn at a byte-class boundary - the disk that would exist is rebuilt, a FRESH node
//! is created over it and the REAL restart path is run: a real `ConsensusThread` is
//! constructed over the disk and its `on_init` is called (under catch_unwind, on its own
//! OS thread with a wall-clock budget).  Oracles: see `judge`.
use std::collections::{BTreeMap, BTreeSet};
use std::panic::AssertUnwindSafe;
use std::sync::atomic::AtomicU64;
use std::sync::{Arc, Mutex};
use std::time::Duration;

use saito_core::core::consensus::block::Block;
use saito_core::core::consensus::blockchain::Blockchain;
use saito_core::core::consensus::mempool::Mempool;
use saito_core::core::consensus::peers::peer_collection::PeerCollection;
use saito_core::core::consensus::slip::{Slip, SlipType};
use saito_core::core::consensus::wallet::Wallet;
use saito_core::core::consensus_thread::{ConsensusStats, ConsensusThread};
use saito_core::core::defs::SaitoHash;
use saito_core::core::io::network::Network;
use saito_core::core::io::storage::Storage;
use saito_core::core::process::keep_time::{KeepTime, Timer};
use saito_core::core::process::process_event::ProcessEvent;
use saito_core::core::util::configuration::Configuration;
use tokio::sync::RwLock;
use verif_harness::chainsim::{self, futures_catch, BuiltTree, TreeSpec};
use verif_harness::common::{jstr, Args, Summary};
use verif_harness::gal;
use verif_harness::rng::Rng;
use verif_harness::world::*;

const ID_FORK: &str = "restart-equal-length-fork";
const ID_ORPHAN: &str = "restart-replays-block-without-parent";
const ID_WIPE: &str = "torn-file-discards-later-blocks";
const ID_BATCH: &str = "undecodable-file-aborts-only-its-batch";

struct Clock(AtomicU64);
impl KeepTime for Clock {
    fn get_timestamp_in_ms(&self) -> u64 {
        self.0.load(std::sync::atomic::Ordering::SeqCst)
    }
}

// ------------------------------------------------------------------ the real restart path

/// Builds a fresh node over `disk` and runs the real `ConsensusThread::on_init`.
async fn restart_real(params: &Params, key: u8, disk: Arc<Mutex<Disk>>) -> Result<Node, String> {
    let (pk, sk) = keypair(key);
    let wallet_lock = Arc::new(RwLock::new(Wallet::new(sk, pk)));
    let blockchain_lock = Arc::new(RwLock::new(Blockchain::new(
        wallet_lock.clone(),
        params.genesis_period,
        params.social_stake,
        params.social_stake_period,
    )));
    let mempool_lock = Arc::new(RwLock::new(Mempool::new(wallet_lock.clone())));
    let cfg = params.cfg();
    let config_lock: Arc<RwLock<dyn Configuration + Send + Sync>> = Arc::new(RwLock::new(cfg.clone()));
    let peers = Arc::new(RwLock::new(PeerCollection::default()));
    let timer = Timer {
        time_reader: Arc::new(Clock(AtomicU64::new(1))),
        hasten_multiplier: 1,
        start_time: 0,
    };
    let (s_router, _r_router) = tokio::sync::mpsc::channel(1000);
    let (s_miner, _r_miner) = tokio::sync::mpsc::channel(1000);
    let (s_stat, _r_stat) = tokio::sync::mpsc::channel::<String>(1000);
    let mut th = ConsensusThread {
        mempool_lock: mempool_lock.clone(),
        blockchain_lock: blockchain_lock.clone(),
        wallet_lock: wallet_lock.clone(),
        generate_genesis_block: false,
        sender_to_router: s_router,
        sender_to_miner: s_miner,
        block_producing_timer: 0,
        timer: timer.clone(),
        network: Network::new(
            Box::new(MemIo::new(disk.clone())),
            peers,
            wallet_lock.clone(),
            config_lock.clone(),
            timer,
        ),
        storage: Storage::new(Box::new(MemIo::new(disk.clone()))),
        stats: ConsensusStats::new(s_stat.clone()),
        txs_for_mempool: vec![],
        stat_sender: s_stat,
        config_lock,
        produce_blocks_by_timer: false,
        delete_old_blocks: true,
    };
    let r = futures_catch(AssertUnwindSafe(th.on_init())).await;
    drop(th);
    r?;
    let blockchain = Arc::try_unwrap(blockchain_lock)
        .map_err(|_| "harness: blockchain lock still shared".to_string())?
        .into_inner();
    let mempool = Arc::try_unwrap(mempool_lock)
        .map_err(|_| "harness: mempool lock still shared".to_string())?
        .into_inner();
    Ok(Node {
        blockchain,
        mempool,
        wallet_lock,
        storage: Storage::new(Box::new(MemIo::new(disk.clone()))),
        cfg,
        disk,
        pk,
        sk,
        params: params.clone(),
    })
}

// ------------------------------------------------------------------ disks

/// the disk that exists after the first `k` journal operations; if `torn` = Some(m)
/// and operation k-1 is a write, only the first m bytes of it reached the file
fn disk_after(journal: &[DiskOp], k: usize, torn: Option<usize>) -> Disk {
    let mut d = Disk::default();
    for (i, op) in journal[..k].iter().enumerate() {
        match op {
            DiskOp::Write(name, bytes) => {
                let content = match torn {
                    Some(m) if i + 1 == k => bytes[..m.min(bytes.len())].to_vec(),
                    _ => bytes.clone(),
                };
                if !d.files.contains_key(name) {
                    d.order.push(name.clone());
                }
                d.files.insert(name.clone(), content);
            }
            DiskOp::Remove(name) => {
                d.order.retain(|n| n != name);
                d.files.remove(name);
            }
        }
    }
    d
}

/// byte-class boundaries of a serialised block: (class, number of bytes that reach the file)
fn tear_points(bytes: &[u8]) -> Vec<(&'static str, usize)> {
    const HDR: usize = 389;
    let mut v: Vec<(&'static str, usize)> = vec![("empty-file", 0)];
    let n = bytes.len();
    if n == 0 {
        return vec![];
    }
    if n > 100 {
        v.push(("inside-header", 100));
    }
    if n > HDR {
        v.push(("at-header-end", HDR));
        // transaction boundaries from the 16-byte prefix of every transaction
        let ntx = u32::from_be_bytes(bytes[0..4].try_into().unwrap()) as usize;
        let mut start = HDR;
        let mut bounds = vec![];
        for _ in 0..ntx {
            if start + 16 > n {
                break;
            }
            let r = |o: usize| u32::from_be_bytes(bytes[start + o..start + o + 4].try_into().unwrap()) as usize;
            let end = start + 93 + (r(0) + r(4)) * 59 + r(8) + r(12) * 130;
            if end > n {
                break;
            }
            bounds.push((start, end));
            start = end;
        }
        if let Some((s, e)) = bounds.first() {
            v.push(("inside-tx-prefix", s + 7));
            v.push(("inside-tx", s + (e - s) / 2));
        }
        if bounds.len() > 1 {
            v.push(("at-tx-boundary", bounds[0].1));
            let (s, e) = bounds[bounds.len() - 1];
            v.push(("inside-last-tx", s + (e - s) / 2));
        }
    }
    v.push(("one-byte-short", n - 1));
    v.retain(|(_, m)| *m < n);
    v.dedup_by_key(|(_, m)| *m);
    v
}

// ------------------------------------------------------------------ histories

#[derive(Clone)]
struct HBlock {
    block: Block,
    parent: Option<usize>,
    eff_invalid: bool,
}

#[derive(Clone)]
struct Mark {
    /// what happened: "deliver <n>" or "restart"
    what: String,
    class: String,
    journal_len: usize,
    snap: Option<ChainSnapshot>,
    supply: u128,
}

#[derive(Clone)]
struct Hist {
    params: Params,
    blocks: Vec<HBlock>,
    marks: Vec<Mark>,
    journal: Vec<DiskOp>,
    issued: u128,
    notes: Vec<String>,
}

fn supply_of(node: &Node) -> u128 {
    let bc = &node.blockchain;
    let latest = match bc.get_latest_block() {
        Some(b) => b,
        None => return 0,
    };
    let gp = node.params.genesis_period;
    let mut s: u128 = 0;
    for (k, v) in bc.utxoset.iter() {
        if !*v {
            continue;
        }
        if let Ok(slip) = Slip::parse_slip_from_utxokey(k) {
            if slip.slip_type == SlipType::Bound {
                continue;
            }
            if slip.block_id < latest.id.saturating_sub(gp) {
                continue;
            }
            s += slip.amount as u128;
        }
    }
    s + latest.graveyard as u128
        + latest.treasury as u128
        + latest.previous_block_unpaid as u128
        + latest.total_fees as u128
}

/// the spendable outputs inside the window of the tip
fn in_window_utxo(s: &ChainSnapshot, gp: u64) -> BTreeSet<[u8; 59]> {
    s.utxo
        .iter()
        .filter(|(_, v)| *v)
        .filter(|(k, _)| u64::from_be_bytes(k[33..41].try_into().unwrap()) >= s.tip_id.saturating_sub(gp))
        .map(|(k, _)| *k)
        .collect()
}

fn safe_snapshot(node: &Node) -> Result<ChainSnapshot, String> {
    std::panic::catch_unwind(AssertUnwindSafe(|| node.snapshot())).map_err(|e| {
        if let Some(s) = e.downcast_ref::<String>() {
            s.clone()
        } else if let Some(s) = e.downcast_ref::<&str>() {
            s.to_string()
        } else {
            "?".to_string()
        }
    })
}

fn tree_of(h: &[HBlock], gp: u64) -> BuiltTree {
    // the spec is only carried along (oracle_c03 reads the blocks); built through the generator so
    // that fields added to TreeSpec later get their defaults
    let mut spec: TreeSpec = chainsim::random_spec(&mut Rng::new(1), 2, gp, 0, false);
    spec.nodes.clear();
    BuiltTree {
        spec,
        blocks: h.iter().map(|b| b.block.clone()).collect(),
        valid_twin: vec![],
        eff_invalid: h.iter().map(|b| b.eff_invalid).collect(),
    }
}

/// spendable Normal outputs of `pk` that are safely inside the window
fn spendable(node: &Node) -> Vec<Slip> {
    let bc = &node.blockchain;
    let tip = bc.blockring.get_latest_block_id();
    let gp = node.params.genesis_period;
    let mut v: Vec<Slip> = bc
        .utxoset
        .iter()
        .filter(|(_, ok)| **ok)
        .filter_map(|(k, _)| Slip::parse_slip_from_utxokey(k).ok())
        .filter(|s| s.slip_type == SlipType::Normal && s.public_key == node.pk && s.amount > 2000)
        .filter(|s| s.block_id + gp > tip + 2)
        .collect();
    v.sort_by_key(|s| s.utxoset_key);
    v
}

async fn record(h: &mut Hist, node: &Node, what: String, class: String) {
    let snap = safe_snapshot(node).ok();
    let supply = if snap.is_some() { supply_of(node) } else { 0 };
    let journal_len = node.disk.lock().unwrap().journal.len();
    h.marks.push(Mark { what, class, journal_len, snap, supply });
}

async fn deliver(h: &mut Hist, node: &mut Node, idx: usize) -> AddClass {
    let b = h.blocks[idx].block.clone();
    let r = futures_catch(AssertUnwindSafe(node.add_block(b))).await;
    let class = match r {
        Ok(c) => c,
        Err(m) => {
            h.notes.push(format!("original node panicked adding block {}: {}", idx + 1, m));
            AddClass::Panicked
        }
    };
    record(h, node, format!("deliver {}", idx + 1), format!("{:?}", class)).await;
    class
}

/// one step of a history
#[derive(Clone, Debug)]
enum Action {
    /// the node produces a block on its tip
    Extend { dt: u64, tx: bool, split: bool, fee: u64, gt: bool },
    /// blocks built by a second node on the ancestor `depth` below the tip: (dt, tx, gt); the first
    /// one is a validly signed but invalid block (burn fee off by one) if `invalid`
    Fork { depth: usize, blocks: Vec<(u64, bool, bool)>, invalid: bool },
    /// clean shutdown and restart through the real on_init; the journal continues
    Restart,
}

struct GenOpts {
    gp: u64,
    steps: usize,
    fork_pct: u64,
    invalid_pct: u64,
    restart_pct: u64,
    /// scripted history (None = random)
    script: Option<Vec<Action>>,
}

fn random_action(rng: &mut Rng, o: &GenOpts, tip_id: u64, restarts: usize, n_blocks: usize) -> Action {
    let roll = rng.below(100);
    if roll < o.restart_pct && restarts < 2 && n_blocks > 2 {
        return Action::Restart;
    }
    if roll < o.restart_pct + o.fork_pct && tip_id >= 2 {
        let depth = rng.range(1, 3.min(tip_id - 1)) as usize;
        let len = rng.range(1, depth as u64 + 1) as usize;
        let blocks = (0..len)
            .map(|_| (*rng.pick(&[150u64, 250, 400, 1000, 100_000]), rng.chance(1, 2), rng.chance(3, 5)))
            .collect();
        return Action::Fork { depth, blocks, invalid: rng.chance(o.invalid_pct, 100) };
    }
    Action::Extend {
        dt: *rng.pick(&[200u64, 300, 1000, 100_000]),
        tx: rng.chance(2, 3),
        split: rng.chance(1, 3),
        fee: *rng.pick(&[0u64, 0, 1000]),
        gt: rng.chance(7, 10),
    }
}

/// replays the path root..=idx into a fresh builder node
async fn builder_at(h: &Hist, idx: usize) -> Option<Node> {
    let mut path = vec![];
    let mut cur = Some(idx);
    while let Some(c) = cur {
        path.push(c);
        cur = h.blocks[c].parent;
    }
    path.reverse();
    let mut b = Node::new(&h.params, 1);
    for i in path {
        let r = futures_catch(AssertUnwindSafe(b.add_block(h.blocks[i].block.clone()))).await;
        if r != Ok(AddClass::OnChain) {
            return None;
        }
    }
    Some(b)
}

async fn gen_history(rng: &mut Rng, o: &GenOpts) -> Hist {
    let params = chainsim::params(o.gp, false);
    let mut node = Node::new(&params, 1);
    let mut h = Hist { params: params.clone(), blocks: vec![], marks: vec![], journal: vec![], issued: 0, notes: vec![] };
    let issuance: Vec<_> = (0..4).map(|k| (node.pk, 1_000_000 + 1000 * k as u64)).collect();
    h.issued = issuance.iter().map(|(_, a)| *a as u128).sum();
    let g = make_genesis(&node, 1_000_000, &issuance).await.expect("genesis");
    h.blocks.push(HBlock { block: g, parent: None, eff_invalid: false });
    deliver(&mut h, &mut node, 0).await;
    let mut restarts = 0;
    let mut step = 0;
    let mut seed = rng.next() % 1_000_000;
    let n_steps = o.script.as_ref().map(|s| s.len()).unwrap_or(o.steps);
    while step < n_steps {
        seed += 1;
        let tip_hash = node.blockchain.blockring.get_latest_block_hash();
        let tip_idx = match h.blocks.iter().position(|b| b.block.hash == tip_hash) {
            Some(i) => i,
            None => break,
        };
        let action = match &o.script {
            Some(sc) => sc[step].clone(),
            None => random_action(rng, o, h.blocks[tip_idx].block.id, restarts, h.blocks.len()),
        };
        step += 1;
        match action {
            Action::Restart => {
                restarts += 1;
                let disk = node.disk.clone();
                match restart_real(&params, 1, disk).await {
                    Ok(n2) => {
                        let before = h.marks.last().and_then(|m| m.snap.as_ref()).map(|s| s.tip_hash);
                        let after = safe_snapshot(&n2).ok().map(|s| s.tip_hash);
                        if before != after {
                            // the restarted node is on another block: that is judged at the clean crash
                            // point at the end of the previous step; the history ends before this restart
                            let keep = h.marks.last().map(|m| m.journal_len).unwrap_or(0);
                            n2.disk.lock().unwrap().journal.truncate(keep);
                            node = n2;
                            break;
                        }
                        node = n2;
                        record(&mut h, &node, "restart".to_string(), "Restart".to_string()).await;
                    }
                    Err(m) => {
                        h.notes.push(format!("clean restart inside the history panicked: {}", m));
                        break;
                    }
                }
            }
            Action::Fork { depth, blocks, invalid } => {
                if h.blocks[tip_idx].block.id < depth as u64 + 1 {
                    continue;
                }
                let mut base = tip_idx;
                for _ in 0..depth {
                    base = h.blocks[base].parent.unwrap();
                }
                if !node.blockchain.blocks.contains_key(&h.blocks[base].block.hash) {
                    continue;
                }
                let mut b = match builder_at(&h, base).await {
                    Some(b) => b,
                    None => continue,
                };
                let mut parent_idx = base;
                let mut parent_valid: Block = h.blocks[base].block.clone();
                let mut eff_invalid = false;
                for (j, (dt, with_tx, gt)) in blocks.iter().enumerate() {
                    seed += 1;
                    let ts = parent_valid.timestamp + dt;
                    let mut txs = vec![];
                    let sp = spendable(&b);
                    if !sp.is_empty() && *with_tx {
                        let s = rng.pick(&sp).clone();
                        let fee = *rng.pick(&[0u64, 0, 1000]);
                        txs.push(make_tx(&[s.clone()], &[(b.pk, s.amount - fee)], &b.sk, ts));
                    }
                    let with_gt = *gt || txs.is_empty();
                    let valid = match make_block(&b, parent_valid.hash, ts, txs, with_gt, seed).await {
                        Ok(x) => x,
                        Err(_) => break,
                    };
                    match futures_catch(AssertUnwindSafe(b.add_block(valid.clone()))).await {
                        Ok(AddClass::OnChain) => {}
                        _ => break,
                    }
                    let mut delivered = valid.clone();
                    if delivered.previous_block_hash != h.blocks[parent_idx].block.hash {
                        delivered.previous_block_hash = h.blocks[parent_idx].block.hash;
                        resign(&mut delivered, &b.sk);
                    }
                    if j == 0 && invalid {
                        delivered.burnfee += 1;
                        resign(&mut delivered, &b.sk);
                        eff_invalid = true;
                    }
                    if h.blocks.iter().any(|x| x.block.hash == delivered.hash) {
                        break;
                    }
                    h.blocks.push(HBlock { block: delivered, parent: Some(parent_idx), eff_invalid });
                    let idx = h.blocks.len() - 1;
                    deliver(&mut h, &mut node, idx).await;
                    parent_idx = idx;
                    parent_valid = valid;
                }
            }
            Action::Extend { dt, tx, split, fee, gt } => {
                // extend the tip with the node itself as producer
                let parent = h.blocks[tip_idx].block.clone();
                let ts = parent.timestamp + dt;
                let mut txs = vec![];
                let sp = spendable(&node);
                if !sp.is_empty() && tx {
                    let s = rng.pick(&sp).clone();
                    let keep = s.amount - fee;
                    if split && keep > 10_000 {
                        txs.push(make_tx(&[s.clone()], &[(node.pk, keep / 2), (node.pk, keep - keep / 2)], &node.sk, ts));
                    } else {
                        txs.push(make_tx(&[s.clone()], &[(node.pk, keep)], &node.sk, ts));
                    }
                }
                let with_gt = gt || txs.is_empty();
                let blk = match futures_catch(AssertUnwindSafe(make_block(&node, parent.hash, ts, txs, with_gt, seed))).await {
                    Ok(Ok(b)) => b,
                    Ok(Err(_)) => continue,
                    Err(m) => {
                        h.notes.push(format!("producer panicked: {}", m));
                        break;
                    }
                };
                if h.blocks.iter().any(|x| x.block.hash == blk.hash) {
                    continue;
                }
                h.blocks.push(HBlock { block: blk, parent: Some(tip_idx), eff_invalid: false });
                let idx = h.blocks.len() - 1;
                let c = deliver(&mut h, &mut node, idx).await;
                if c == AddClass::Panicked {
                    break;
                }
            }
        }
    }
    h.journal = node.disk.lock().unwrap().journal.clone();
    h
}

/// scripted histories: the listed findings in their smallest form, run in every tier
fn scripts() -> Vec<(&'static str, u64, bool, Vec<Action>)> {
    let ext = |dt: u64| Action::Extend { dt, tx: true, split: false, fee: 0, gt: true };
    vec![
        // two competing blocks at height 2; the one that arrives first has the larger timestamp
        ("equal-length-fork", 20, true, vec![ext(100_000), Action::Fork { depth: 1, blocks: vec![(200, false, true)], invalid: false }]),
        // the same tie, then the node extends its branch: restarted, it stays on the sibling
        (
            "fork-then-growth",
            20,
            true,
            vec![ext(100_000), Action::Fork { depth: 1, blocks: vec![(200, false, true)], invalid: false }, ext(100_000), ext(100_000)],
        ),
        // an invalid sibling with a smaller timestamp and its child, both stored off chain
        (
            "invalid-sibling-with-child",
            20,
            true,
            vec![ext(100_000), ext(100_000), Action::Fork { depth: 2, blocks: vec![(200, false, true), (200, false, true)], invalid: true }],
        ),
        // a clean restart inside a linear history (crash points inside the restart: rewrites)
        ("linear-with-restart", 20, true, vec![ext(300), ext(300), ext(300), Action::Restart, ext(300), ext(300)]),
        // genesis period 3: siblings at height 2 survive the purge of their parent
        (
            "siblings-above-purged-parent",
            3,
            false,
            vec![
                ext(100_000),
                Action::Fork { depth: 1, blocks: vec![(200, false, true)], invalid: false },
                ext(300),
                ext(300),
                ext(300),
                ext(300),
                ext(300),
                ext(300),
                ext(300),
            ],
        ),
        // the same with three siblings at height 2 (one older, one younger than the block the node is on)
        (
            "three-siblings-above-purged-parent",
            3,
            false,
            vec![
                ext(300),
                Action::Fork { depth: 1, blocks: vec![(150, false, true)], invalid: false },
                Action::Fork { depth: 1, blocks: vec![(1000, true, true)], invalid: false },
                ext(100_000),
                ext(300),
                ext(300),
                ext(300),
                ext(300),
                ext(300),
            ],
        ),
        // genesis period 3: restart far beyond the purge horizon, crash while the restart rewrites files
        (
            "restart-after-purge",
            3,
            false,
            vec![ext(300), ext(300), ext(300), ext(300), ext(300), ext(300), ext(300), ext(300), Action::Restart, ext(300)],
        ),
    ]
}

// ------------------------------------------------------------------ one crash point

#[derive(Clone, Debug)]
struct CrashPoint {
    k: usize,
    /// None = the last operation is complete; Some((class, m)) = torn write of m bytes
    torn: Option<(&'static str, usize)>,
}

#[derive(Debug)]
struct Outcome {
    panic: Option<String>,
    snap: Option<ChainSnapshot>,
    supply: u128,
    c03: Vec<String>,
    extend: Option<String>,
    /// a reference node holding the same chain cannot produce the extension either
    extend_ref_fails: bool,
    restart_ops: (usize, usize),
    deleted: Vec<String>,
    intact_on_disk: usize,
    loaded: usize,
    /// ids of stored blocks that were delivered while their parent was not stored
    orphans: Vec<u64>,
    /// their parents
    orphan_parents: Vec<SaitoHash>,
    /// (hash, id) of every decodable file of the crashed disk
    disk_blocks: Vec<(SaitoHash, u64)>,
    /// decodable files that on_init never loads: they follow an undecodable file inside the same
    /// batch of 1000 names
    batch_skipped: Vec<SaitoHash>,
    /// storage operations of the restart itself: (1 = write / 0 = remove, file name)
    ops: Vec<(u64, String)>,
    final_files: Vec<String>,
}

fn run_crash_point(h: &Arc<HistShared>, cp: &CrashPoint, budget: Duration) -> Result<Outcome, String> {
    let (tx, rx) = std::sync::mpsc::channel();
    let h2 = h.clone();
    let cp2 = cp.clone();
    std::thread::Builder::new()
        .stack_size(64 << 20)
        .spawn(move || {
            let rt = tokio::runtime::Builder::new_current_thread().enable_all().build().unwrap();
            let out = rt.block_on(eval_crash_point(&h2, &cp2));
            let _ = tx.send(out);
        })
        .unwrap();
    rx.recv_timeout(budget).map_err(|_| "restart did not finish within the time budget".to_string())
}

struct HistShared {
    params: Params,
    journal: Vec<DiskOp>,
    tree_blocks: Vec<HBlock>,
}

async fn eval_crash_point(h: &HistShared, cp: &CrashPoint) -> Outcome {
    saito_core::core::consensus::blockchain::VERIF_WIND_STEPS.with(|c| c.set((0, u64::MAX)));
    let d = disk_after(&h.journal, cp.k, cp.torn.map(|t| t.1));
    let mut disk_blocks: Vec<(SaitoHash, u64)> = vec![];
    let mut batch_skipped: Vec<SaitoHash> = vec![];
    let mut aborted_batch: Option<usize> = None;
    // d.files is ordered by name, as Storage::load_block_name_list orders the directory
    for (pos, v) in d.files.values().enumerate() {
        let mut decoded = None;
        if let Ok(Ok(mut b)) = std::panic::catch_unwind(|| Block::deserialize_from_net(v)) {
            if b.generate().is_ok() {
                decoded = Some((b.hash, b.id));
            }
        }
        match decoded {
            Some(x) => {
                disk_blocks.push(x);
                if aborted_batch == Some(pos / 1000) {
                    batch_skipped.push(x.0);
                }
            }
            None => {
                if aborted_batch != Some(pos / 1000) {
                    aborted_batch = Some(pos / 1000);
                }
            }
        }
    }
    let intact_on_disk = disk_blocks.len();
    let disk = Arc::new(Mutex::new(d));
    let mut out = Outcome {
        panic: None,
        snap: None,
        supply: 0,
        c03: vec![],
        extend: None,
        extend_ref_fails: false,
        restart_ops: (0, 0),
        deleted: vec![],
        intact_on_disk,
        loaded: 0,
        orphans: vec![],
        orphan_parents: vec![],
        disk_blocks,
        batch_skipped,
        ops: vec![],
        final_files: vec![],
    };
    let mut node = match restart_real(&h.params, 1, disk.clone()).await {
        Ok(n) => n,
        Err(m) => {
            out.panic = Some(m);
            return out;
        }
    };
    {
        let d = disk.lock().unwrap();
        for op in &d.journal {
            match op {
                DiskOp::Write(n, _) => {
                    out.restart_ops.0 += 1;
                    out.ops.push((1, n.clone()));
                }
                DiskOp::Remove(n) => {
                    out.restart_ops.1 += 1;
                    out.deleted.push(n.clone());
                    out.ops.push((0, n.clone()));
                }
            }
        }
        out.final_files = d.files.keys().cloned().collect();
    }
    out.loaded = node.blockchain.blocks.len();
    {
        // a stored block whose parent is not stored, other than the first block delivered
        // (lowest id, then lowest file name): it was delivered while its parent was unknown
        let bc = &node.blockchain;
        let first = bc.blocks.values().map(|b| (b.id, b.get_file_name())).min();
        for b in bc.blocks.values() {
            if !bc.blocks.contains_key(&b.previous_block_hash) && Some((b.id, b.get_file_name())) != first {
                out.orphans.push(b.id);
                out.orphan_parents.push(b.previous_block_hash);
            }
        }
        out.orphans.sort();
    }
    match safe_snapshot(&node) {
        Ok(s) => {
            let t = tree_of(&h.tree_blocks, h.params.genesis_period);
            out.c03 = match std::panic::catch_unwind(AssertUnwindSafe(|| chainsim::oracle_c03(&t, &s))) {
                Ok(f) => f,
                Err(_) => vec!["the restarted node stores a block that the original node never had".to_string()],
            };
            out.supply = supply_of(&node);
            out.snap = Some(s);
        }
        Err(m) => {
            out.panic = Some(format!("reading the tip of the restarted node panicked: {}", m));
            return out;
        }
    }
    // the restarted node must be able to extend its chain
    let tip = node.blockchain.get_latest_block().map(|b| (b.hash, b.timestamp));
    if let Some((tip_hash, ts)) = tip {
        let r = futures_catch(AssertUnwindSafe(async {
            let b = make_block(&node, tip_hash, ts + 100_000, vec![], true, 4242).await?;
            let hsh = b.hash;
            let c = node.add_block(b).await;
            if c != AddClass::OnChain {
                return Err(format!("a block produced on the restarted tip was answered {:?}", c));
            }
            if node.blockchain.blockring.get_latest_block_hash() != hsh {
                return Err("the produced block did not become the tip".to_string());
            }
            Ok(())
        }))
        .await;
        out.extend = match r {
            Ok(Ok(())) => None,
            Ok(Err(m)) => Some(m),
            Err(m) => Some(format!("panic while extending the restarted chain: {}", m)),
        };
        if out.extend.is_some() {
            // reference: a fresh node that is fed the ancestry of that tip, in order, from the
            // pristine blocks; if it cannot extend the same chain either, the restart is not at fault
            // (the producer has defects of its own, e.g. rebroadcast inputs - C07 / C13)
            let mut path = vec![];
            let mut cur = h.tree_blocks.iter().position(|b| b.block.hash == tip_hash);
            while let Some(c) = cur {
                path.push(c);
                cur = h.tree_blocks[c].parent;
            }
            path.reverse();
            let mut r = Node::new(&h.params, 1);
            let mut ok = true;
            for i in path {
                let c = futures_catch(AssertUnwindSafe(r.add_block(h.tree_blocks[i].block.clone()))).await;
                if c != Ok(AddClass::OnChain) {
                    ok = false;
                    break;
                }
            }
            if ok {
                let rr = futures_catch(AssertUnwindSafe(async {
                    let b = make_block(&r, tip_hash, ts + 100_000, vec![], true, 4242).await?;
                    let c = r.add_block(b).await;
                    if c != AddClass::OnChain {
                        return Err(format!("{:?}", c));
                    }
                    Ok(())
                }))
                .await;
                if !matches!(rr, Ok(Ok(()))) {
                    out.extend_ref_fails = true;
                }
            }
        }
    }
    out
}

// ------------------------------------------------------------------ judging

struct Ctx<'a> {
    h: &'a Hist,
    by_hash: BTreeMap<SaitoHash, usize>,
}

impl<'a> Ctx<'a> {
    fn is_ancestor_or_self(&self, a: &SaitoHash, of: &SaitoHash) -> bool {
        let mut cur = self.by_hash.get(of).cloned();
        while let Some(i) = cur {
            if self.h.blocks[i].block.hash == *a {
                return true;
            }
            cur = self.h.blocks[i].parent;
        }
        false
    }
}

/// index of the mark whose step covers journal position k (the step during which the
/// crash happens); `clean` = k is exactly the end of that step and nothing is torn
fn locate(h: &Hist, cp: &CrashPoint) -> (usize, bool) {
    for (i, m) in h.marks.iter().enumerate() {
        if cp.k <= m.journal_len {
            // the LAST mark with this journal length is the state at that point
            let mut j = i;
            if cp.torn.is_none() && cp.k == m.journal_len {
                while j + 1 < h.marks.len() && h.marks[j + 1].journal_len == cp.k {
                    j += 1;
                }
                return (j, true);
            }
            return (j, false);
        }
    }
    (h.marks.len() - 1, false)
}

#[derive(Default)]
struct Verdict {
    failures: Vec<String>,
    known: Vec<(&'static str, String)>,
    tip_class: &'static str,
    lost: u64,
    /// the producer cannot extend this chain on a reference node either
    ext_blocked: bool,
}

fn judge(ctx: &Ctx, cp: &CrashPoint, out: &Result<Outcome, String>) -> Verdict {
    let h = ctx.h;
    let mut v = Verdict::default();
    let (mi, clean) = locate(h, cp);
    let out = match out {
        Ok(o) => o,
        Err(m) => {
            v.failures.push(m.clone());
            v.tip_class = "timeout";
            return v;
        }
    };
    if let Some(m) = &out.panic {
        v.failures.push(format!("restart panicked: {}", m));
        v.tip_class = "panic";
        return v;
    }
    let s = out.snap.as_ref().unwrap();
    let after = &h.marks[mi];
    let before = if mi > 0 { Some(&h.marks[mi - 1]) } else { None };
    let gp = h.params.genesis_period;
    // blocks known to the original node around the crash
    let mut known: BTreeSet<SaitoHash> = BTreeSet::new();
    let mut pre_tips: Vec<SaitoHash> = vec![];
    for m in before.into_iter().chain(std::iter::once(after)) {
        if let Some(ms) = &m.snap {
            for b in &ms.blocks {
                known.insert(b.0);
            }
            pre_tips.push(ms.tip_hash);
        }
    }
    if clean {
        pre_tips = vec![after.snap.as_ref().map(|x| x.tip_hash).unwrap_or([0; 32])];
    }
    // ---- tip
    let tip = s.tip_hash;
    if pre_tips.contains(&tip) {
        v.tip_class = "pre-crash-tip";
    } else if tip == [0u8; 32] {
        if out.intact_on_disk == 0 {
            v.tip_class = "empty(no-intact-file)";
        } else {
            v.tip_class = "empty";
            let w = format!(
                "the restarted node came up with an EMPTY chain although {} intact block files were on disk",
                out.intact_on_disk
            );
            if cp.torn.is_some() {
                v.known.push((ID_WIPE, w));
            } else {
                v.failures.push(w);
            }
        }
    } else if pre_tips.iter().any(|p| ctx.is_ancestor_or_self(&tip, p)) {
        v.tip_class = "ancestor";
        let pid = pre_tips
            .iter()
            .filter_map(|p| ctx.by_hash.get(p))
            .map(|i| h.blocks[*i].block.id)
            .max()
            .unwrap_or(0);
        v.lost = pid.saturating_sub(s.tip_id);
    } else if known.contains(&tip) {
        v.tip_class = "other-known-branch";
    } else {
        v.tip_class = "unknown-block";
        v.failures.push(format!("the restarted tip (id {}) is not a block the node had stored before the crash", s.tip_id));
    }
    // every failure of a restart that replayed a block while its parent was not stored is
    // attributed to that listed finding (as C05 does for the orphan branch of add_block)
    // ... provided the missing parent is explained by one of the listed triggers: its file is on the
    // crashed disk and decodes (it was rejected when replayed), or it is an invalid block (rejected and
    // deleted by an earlier restart of this history), or it lies at / below the oldest height on disk
    // (it was purged: siblings above a purged parent, crash between the deletions of a purge).
    // A parent missing from the MIDDLE of the stored range is not listed.
    let min_disk_id = out.disk_blocks.iter().map(|x| x.1).min().unwrap_or(0);
    let explained = out.orphan_parents.iter().all(|ph| {
        out.disk_blocks.iter().any(|x| x.0 == *ph)
            || ctx
                .by_hash
                .get(ph)
                .map(|i| h.blocks[*i].block.id <= min_disk_id || h.blocks[*i].eff_invalid)
                .unwrap_or(false)
    });
    // listed separately: the parent's file is intact but was never loaded because an undecodable
    // file aborted its batch, while the orphan sits in a later batch
    let batch_gap = !out.orphans.is_empty() && out.orphan_parents.iter().any(|ph| out.batch_skipped.contains(ph));
    if !out.orphans.is_empty() && !explained {
        v.failures.push(format!(
            "blocks with ids {:?} were replayed while their parent was not stored, and the parent is neither a rejected file nor at the purge horizon (oldest id on disk {})",
            out.orphans, min_disk_id
        ));
    }
    let orphaned = !out.orphans.is_empty() && explained;
    // likewise every failure of a node that came up on a competing branch (listed finding): such a
    // branch can be short and partly purged, so its ledger cannot be the replay of what is stored
    let forked = v.tip_class == "other-known-branch";
    let mut fail = |v: &mut Verdict, id: Option<&'static str>, w: String| {
        if batch_gap {
            v.known.push((ID_BATCH, format!("{} (blocks with ids {:?} of a later batch were replayed although the batch holding their parent was aborted)", w, out.orphans)));
        } else if orphaned {
            v.known.push((ID_ORPHAN, format!("{} (blocks with ids {:?} were replayed while their parent was not stored)", w, out.orphans)));
        } else if forked {
            v.known.push((ID_FORK, format!("{} (the node restarted on a competing branch)", w)));
        } else if let Some(id) = id {
            v.known.push((id, w));
        } else {
            v.failures.push(w);
        }
    };
    if v.tip_class == "unknown-block" {
        let w = v.failures.pop().unwrap();
        fail(&mut v, None, w);
    }
    // ---- clean shutdown: same tip, same in-window spendable set, same supply
    if clean {
        if let Some(os) = &after.snap {
            if os.tip_hash != tip {
                let both_known = known.contains(&tip);
                let other_branch = both_known
                    && !ctx.is_ancestor_or_self(&tip, &os.tip_hash)
                    && !ctx.is_ancestor_or_self(&os.tip_hash, &tip);
                let w = format!(
                    "clean restart: tip differs: the node was on block id {} and restarted on block id {} ({})",
                    os.tip_id, s.tip_id, v.tip_class
                );
                fail(&mut v, if other_branch { Some(ID_FORK) } else { None }, w);
            } else {
                let a = in_window_utxo(os, gp);
                let b = in_window_utxo(s, gp);
                if a != b {
                    let w = format!(
                        "clean restart: in-window spendable set differs: {} only before, {} only after",
                        a.difference(&b).count(),
                        b.difference(&a).count()
                    );
                    fail(&mut v, None, w);
                }
                if after.supply != out.supply {
                    let w = format!("clean restart: supply {} before, {} after", after.supply, out.supply);
                    fail(&mut v, None, w);
                }
            }
        }
    }
    // ---- crash point that comes up on a pre-crash tip: the ledger must be the one the node had there
    if !clean {
        for m in before.into_iter().chain(std::iter::once(after)) {
            if let Some(ms) = &m.snap {
                if ms.tip_hash == tip && tip != [0u8; 32] {
                    let a = in_window_utxo(ms, gp);
                    let b = in_window_utxo(s, gp);
                    if a != b {
                        let w = format!(
                            "restarted on the pre-crash tip (id {}) with a different in-window spendable set: {} only before, {} only after",
                            s.tip_id,
                            a.difference(&b).count(),
                            b.difference(&a).count()
                        );
                        fail(&mut v, None, w);
                    }
                    break;
                }
            }
        }
    }
    // ---- valid chain (C03 replay oracle on the restarted node)
    for f in &out.c03 {
        fail(&mut v, None, format!("restarted chain is not valid: {}", f));
    }
    // ---- supply conserved
    if tip != [0u8; 32] && out.supply != h.issued {
        let w = format!(
            "supply of the restarted node is {} but {} was issued (restarted tip id {}: {}, {} blocks behind)",
            out.supply, h.issued, s.tip_id, v.tip_class, v.lost
        );
        let id = if v.tip_class == "other-known-branch" {
            // the node restarted on a competing branch whose window is no longer on disk
            Some(ID_FORK)
        } else if v.tip_class == "ancestor" && cp.torn.is_some() && v.lost >= gp {
            // a torn file made the node discard at least a whole window of later blocks
            Some(ID_WIPE)
        } else {
            None
        };
        fail(&mut v, id, w);
    }
    // ---- can extend
    if let Some(m) = &out.extend {
        if out.extend_ref_fails {
            v.ext_blocked = true;
        } else {
            fail(&mut v, None, format!("cannot extend: {}", m));
        }
    }
    v
}

// ------------------------------------------------------------------ main

fn hist_json(h: &Hist) -> String {
    let blocks: Vec<String> = h
        .blocks
        .iter()
        .enumerate()
        .map(|(i, b)| {
            format!(
                "{{\"block\":{},\"parent\":{},\"id\":{},\"ts\":{},\"txs\":{},\"gt\":{},\"invalid\":{}}}",
                i + 1,
                b.parent.map(|p| (p + 1).to_string()).unwrap_or("null".to_string()),
                b.block.id,
                b.block.timestamp,
                b.block.transactions.len(),
                b.block.has_golden_ticket,
                b.eff_invalid
            )
        })
        .collect();
    let steps: Vec<String> = h
        .marks
        .iter()
        .map(|m| {
            format!(
                "{{\"step\":{},\"result\":{},\"journal_len\":{},\"tip_id\":{}}}",
                jstr(&m.what),
                jstr(&m.class),
                m.journal_len,
                m.snap.as_ref().map(|s| s.tip_id).unwrap_or(0)
            )
        })
        .collect();
    format!(
        "{{\"genesis_period\":{},\"blocks\":[{}],\"steps\":[{}],\"journal_ops\":{}}}",
        h.params.genesis_period,
        blocks.join(","),
        steps.join(","),
        h.journal.len()
    )
}

/// order-preserving interning: index = rank of the real hash, so that the model's numeric
/// order of file keys (timestamp, hash) is the implementation's order of file names
fn rank_interned(h: &Hist) -> chainsim::Interned {
    let mut hs: Vec<SaitoHash> = h.blocks.iter().map(|b| b.block.hash).collect();
    hs.sort();
    hs.dedup();
    let hash_idx: BTreeMap<SaitoHash, u64> = hs.iter().enumerate().map(|(i, x)| (*x, i as u64 + 1)).collect();
    let mut keys = Interner::default();
    for b in &h.blocks {
        for tx in &b.block.transactions {
            for s in tx.from.iter().chain(tx.to.iter()) {
                if s.amount > 0 {
                    keys.get(&s.utxoset_key);
                }
            }
        }
    }
    chainsim::Interned { hash_idx, keys }
}

fn gallina_pblks(h: &Hist, int: &mut chainsim::Interned) -> String {
    let mut items = vec![];
    for b in &h.blocks {
        let blk = &b.block;
        let mut txs = vec![];
        for tx in &blk.transactions {
            let ins: Vec<u64> = tx.from.iter().filter(|s| s.amount > 0).map(|s| int.keys.get(&s.utxoset_key)).collect();
            let outs: Vec<u64> = tx.to.iter().filter(|s| s.amount > 0).map(|s| int.keys.get(&s.utxoset_key)).collect();
            txs.push(format!("({}, {})", gal::nlist(&ins), gal::nlist(&outs)));
        }
        items.push(format!(
            "({}, mkB {} {} {} {} {} {} {})",
            blk.timestamp,
            chainsim::hidx(int, &blk.hash),
            chainsim::hidx(int, &blk.previous_block_hash),
            blk.id,
            blk.burnfee,
            gal::boolean(blk.has_golden_ticket),
            gal::boolean(!b.eff_invalid),
            gal::list(&txs)
        ));
    }
    gal::list(&items)
}

fn name_hash(name: &str) -> SaitoHash {
    // "<dir>/<timestamp>-<64 hex>.sai"
    let base = name.rsplit('/').next().unwrap_or(name);
    let hexpart = base.split('-').nth(1).unwrap_or("").trim_end_matches(".sai");
    let mut out = [0u8; 32];
    if let Ok(v) = hex::decode(hexpart) {
        if v.len() == 32 {
            out.copy_from_slice(&v);
        }
    }
    out
}

fn gallina_journal(h: &Hist, int: &chainsim::Interned) -> String {
    let items: Vec<String> = h
        .journal
        .iter()
        .map(|op| match op {
            DiskOp::Write(n, _) => format!("(1, {})", chainsim::hidx(int, &name_hash(n))),
            DiskOp::Remove(n) => format!("(0, {})", chainsim::hidx(int, &name_hash(n))),
        })
        .collect();
    gal::list(&items)
}

fn impl_rows(int: &mut chainsim::Interned, o: &Outcome) -> Vec<Vec<u64>> {
    if o.panic.is_some() || o.snap.is_none() {
        return vec![vec![9]];
    }
    let mut rows = chainsim::snapshot_rows(int, 0, 0, o.snap.as_ref().unwrap());
    rows.remove(0);
    let mut ops = vec![];
    for (t, n) in &o.ops {
        ops.push(*t);
        ops.push(chainsim::hidx(int, &name_hash(n)));
    }
    rows.push(ops);
    rows.push(o.final_files.iter().map(|n| chainsim::hidx(int, &name_hash(n))).collect());
    rows
}

/// more than 1000 block files: ConsensusThread::on_init loads them in batches of 1000 and an
/// undecodable file aborts only its own batch.  Linear chain of `n` blocks (genesis period large
/// enough that nothing is purged), the file at position `torn_at` (1-based, in name order) torn as by
/// a crash during a start-up rewrite.  Returns (history, crash point).
async fn batch_gap_history(n: usize, torn_at: usize) -> (Hist, CrashPoint) {
    let gp = n as u64;
    let mut params = chainsim::params(gp, false);
    params.prune_after_blocks = 2 * gp;
    let mut node = Node::new(&params, 1);
    let mut h = Hist { params: params.clone(), blocks: vec![], marks: vec![], journal: vec![], issued: 0, notes: vec![] };
    let issuance: Vec<_> = (0..4).map(|k| (node.pk, 1_000_000 + 1000 * k as u64)).collect();
    h.issued = issuance.iter().map(|(_, a)| *a as u128).sum();
    let g = make_genesis(&node, 1_000_000, &issuance).await.expect("genesis");
    h.blocks.push(HBlock { block: g, parent: None, eff_invalid: false });
    deliver(&mut h, &mut node, 0).await;
    for i in 1..n {
        let parent = h.blocks[i - 1].block.clone();
        // a golden ticket in every second block keeps the density rule and the difficulty flat
        let ts = parent.timestamp + 1000;
        let with_gt = i % 2 == 1;
        let mut txs = vec![];
        if !with_gt {
            let sp = spendable(&node);
            if let Some(s) = sp.first() {
                txs.push(make_tx(&[s.clone()], &[(node.pk, s.amount)], &node.sk, ts));
            }
        }
        let with_gt = with_gt || txs.is_empty();
        let blk = make_block(&node, parent.hash, ts, txs, with_gt, i as u64).await;
        let blk = match blk {
            Ok(b) => b,
            Err(e) => {
                h.notes.push(format!("batch-gap history: producer failed at block {}: {}", i + 1, e));
                break;
            }
        };
        h.blocks.push(HBlock { block: blk, parent: Some(i - 1), eff_invalid: false });
        if deliver(&mut h, &mut node, i).await != AddClass::OnChain {
            h.notes.push(format!("batch-gap history: block {} not accepted", i + 1));
            break;
        }
    }
    h.journal = node.disk.lock().unwrap().journal.clone();
    // the start-up rewrite of file `torn_at`, interrupted
    if let Some(DiskOp::Write(name, bytes)) = h.journal.get(torn_at - 1).cloned() {
        h.journal.push(DiskOp::Write(name, bytes));
    }
    let k = h.journal.len();
    (h, CrashPoint { k, torn: Some(("inside-header", 100)) })
}

fn main() {
    verif_harness::common::init_log();
    let args = Args::parse();
    if let Ok(v) = std::env::var("C12_BATCHGAP") {
        let parts: Vec<usize> = v.split(':').map(|x| x.parse().unwrap()).collect();
        let rt = tokio::runtime::Builder::new_current_thread().enable_all().build().unwrap();
        let t0 = std::time::Instant::now();
        let (h, cp) = rt.block_on(batch_gap_history(parts[0], parts[1]));
        eprintln!("built {} blocks in {:?}; notes {:?}", h.blocks.len(), t0.elapsed(), h.notes);
        let ctx = Ctx { h: &h, by_hash: h.blocks.iter().enumerate().map(|(i, b)| (b.block.hash, i)).collect() };
        let shared = Arc::new(HistShared { params: h.params.clone(), journal: h.journal.clone(), tree_blocks: h.blocks.clone() });
        let out = run_crash_point(&shared, &cp, Duration::from_secs(600));
        let v = judge(&ctx, &cp, &out);
        if let Ok(o) = &out {
            eprintln!("outcome: panic {:?} loaded {} intact {} ops {:?} deleted {} supply {} c03 {:?} extend {:?} orphans {:?} tip {:?}", o.panic, o.loaded, o.intact_on_disk, o.restart_ops, o.deleted.len(), o.supply, o.c03, o.extend, o.orphans, o.snap.as_ref().map(|s| (s.tip_id, s.lc_index.len(), s.lc_index.first().cloned().map(|x| x.0), s.blocks.len())));
        }
        eprintln!("verdict {} lost {} failures {:?} known {:?} in {:?}", v.tip_class, v.lost, v.failures, v.known, t0.elapsed());
        let show = |s: &ChainSnapshot| {
            for (k, v) in &s.utxo {
                let sl = Slip::parse_slip_from_utxokey(k).unwrap();
                eprintln!("   utxo blk {} tx {} idx {} amt {} type {:?} spendable {}", sl.block_id, sl.tx_ordinal, sl.slip_index, sl.amount, sl.slip_type, v);
            }
        };
        if let Ok(o) = &out {
            if let Some(s) = &o.snap {
                eprintln!("restarted: lc {:?}", s.lc_index.iter().map(|x| x.0).collect::<Vec<_>>());
                show(s);
            }
        }
        if let Some(s) = &h.marks.last().unwrap().snap {
            eprintln!("original:");
            show(s);
        }
        return;
    }
    let thorough = args.tier == "thorough";
    let mut rng = Rng::new(args.seed);
    let mut summary = Summary::new("C12");
    // phase 1: histories inside the regime of the Coq chain model (every id <= 2 * genesis
    // period): every crash point is also a model case, so case numbers coincide.
    // phase 2: small genesis periods with purging, pruning and rebroadcast: direct oracles only.
    let (n_model, n_purge) = if thorough { (60, 260) } else { (10, 36) };
    let per_hist_budget = if thorough { usize::MAX } else { 120 };
    let rt = tokio::runtime::Builder::new_current_thread().enable_all().build().unwrap();
    let mut case_no = 0usize;
    let mut distinct: BTreeSet<String> = BTreeSet::new();
    let debug = std::env::var("C12_DEBUG").is_ok();
    let mut coq_cases: Vec<String> = vec![];
    let mut torn_rejected = 0u64;
    let mut clean_points = 0u64;
    let scripted = scripts();
    let n_script_model = scripted.iter().filter(|x| x.2).count();
    let n_model = n_model + n_script_model;
    for hi in 0..(n_model + n_purge + scripted.len() - n_script_model) {
        let model = hi < n_model;
        // scripted histories: the model-regime ones come first, the purging ones open phase 2
        let script = if hi < n_script_model {
            Some(scripted.iter().filter(|x| x.2).nth(hi).unwrap().clone())
        } else if hi >= n_model && hi - n_model < scripted.len() - n_script_model {
            Some(scripted.iter().filter(|x| !x.2).nth(hi - n_model).unwrap().clone())
        } else {
            None
        };
        let (gp, steps) = if let Some(sc) = &script {
            (sc.1, sc.3.len())
        } else if model {
            let gp = *rng.pick(&[5u64, 8, 20, 20]);
            (gp, rng.range(4, (2 * gp - 2).min(13)) as usize)
        } else {
            let gp = *rng.pick(&[3u64, 3, 5, 5, 8]);
            let steps = match gp {
                3 => rng.range(6, 16),
                5 => rng.range(8, 20),
                _ => rng.range(12, 28),
            } as usize;
            (gp, steps)
        };
        let o = GenOpts {
            gp,
            steps,
            fork_pct: 25,
            invalid_pct: 15,
            restart_pct: 6,
            script: script.as_ref().map(|x| x.3.clone()),
        };
        let h = rt.block_on(gen_history(&mut rng, &o));
        if let Some(sc) = &script {
            summary.count("scripted_history", sc.0);
        }
        let per_hist_budget = if script.is_some() { usize::MAX } else { per_hist_budget };
        let in_regime = h.blocks.iter().all(|b| b.block.id <= 2 * gp);
        let desc = hist_json(&h);
        if debug {
            eprintln!("history {}: {}", hi, desc);
        }
        for n in &h.notes {
            summary.notes.push(format!("history {}: {}", hi, n));
        }
        // crash points
        let mut points: Vec<CrashPoint> = vec![];
        for k in 0..=h.journal.len() {
            points.push(CrashPoint { k, torn: None });
            if k > 0 {
                if let DiskOp::Write(_, bytes) = &h.journal[k - 1] {
                    for tp in tear_points(bytes) {
                        points.push(CrashPoint { k, torn: Some(tp) });
                    }
                }
            }
        }
        let total_points = points.len();
        if points.len() > per_hist_budget {
            // keep the final clean point, sample the rest
            let mut keep: Vec<CrashPoint> = vec![CrashPoint { k: h.journal.len(), torn: None }];
            let mut rest: Vec<CrashPoint> =
                points.into_iter().filter(|p| !(p.k == h.journal.len() && p.torn.is_none())).collect();
            while keep.len() < per_hist_budget && !rest.is_empty() {
                let i = rng.below(rest.len() as u64) as usize;
                keep.push(rest.swap_remove(i));
            }
            points = keep;
        }
        let ctx = Ctx { h: &h, by_hash: h.blocks.iter().enumerate().map(|(i, b)| (b.block.hash, i)).collect() };
        let shared = Arc::new(HistShared {
            params: h.params.clone(),
            journal: h.journal.clone(),
            tree_blocks: h.blocks.clone(),
        });
        let has_fork = h.blocks.iter().enumerate().any(|(i, b)| {
            h.blocks.iter().skip(i + 1).any(|c| c.parent == b.parent && b.parent.is_some())
        });
        let purged = h.journal.iter().any(|op| matches!(op, DiskOp::Remove(_)));
        let mut int = rank_interned(&h);
        let (g_blocks, g_journal) = if model && in_regime {
            (gallina_pblks(&h, &mut int), gallina_journal(&h, &int))
        } else {
            (String::new(), String::new())
        };
        if model && !in_regime {
            summary.notes.push(format!("history {} left the regime of the chain model; harness error", hi));
            eprintln!("harness: model history {} has an id above 2*gp", hi);
            std::process::exit(2);
        }
        for cp in &points {
            if let Ok(only) = std::env::var("C12_ONLY") {
                if only != format!("{}:{}", hi, cp.k) {
                    continue;
                }
            }
            // (c) a torn block file must be rejected by the decoder (C10)
            let cp_desc = format!(
                "{{\"history\":{},\"crash_after_ops\":{},\"last_op\":{},\"history_desc\":{}}}",
                hi,
                cp.k,
                match cp.torn {
                    None => "\"complete\"".to_string(),
                    Some((c, m)) => format!("{{\"torn\":{},\"bytes_written\":{}}}", jstr(c), m),
                },
                desc
            );
            if let Some((class, m)) = cp.torn {
                if let DiskOp::Write(_, bytes) = &h.journal[cp.k - 1] {
                    let r = std::panic::catch_unwind(|| Block::deserialize_from_net(&bytes[..m]));
                    match r {
                        Ok(Err(_)) => torn_rejected += 1,
                        Ok(Ok(_)) => summary.oracle_failure(
                            case_no,
                            &format!("torn block file ({}: {} of {} bytes) was decoded as a block", class, m, bytes.len()),
                            &cp_desc,
                        ),
                        Err(_) => summary.oracle_failure(
                            case_no,
                            &format!("decoder panicked on a torn block file ({}: {} of {} bytes)", class, m, bytes.len()),
                            &cp_desc,
                        ),
                    }
                }
            }
            let out = run_crash_point(&shared, cp, Duration::from_secs(20));
            let v = judge(&ctx, cp, &out);
            if std::env::var("C12_ONLY").is_ok() {
                if std::env::var("C12_DUMP").is_ok() {
                    for (i, op) in h.journal.iter().enumerate() {
                        if let DiskOp::Write(n, bytes) = op {
                            eprintln!("op {} write {} ({} bytes)", i, n, bytes.len());
                            if let Ok(b) = Block::deserialize_from_net(bytes) {
                                for (ti, tx) in b.transactions.iter().enumerate() {
                                    eprintln!("   tx {} type {:?} from {:?} to {:?}", ti, tx.transaction_type,
                                        tx.from.iter().map(|s| (s.block_id, s.tx_ordinal, s.slip_index, s.amount)).collect::<Vec<_>>(),
                                        tx.to.iter().map(|s| (s.block_id, s.tx_ordinal, s.slip_index, s.amount)).collect::<Vec<_>>());
                                }
                            }
                        }
                    }
                    for (i, b) in h.blocks.iter().enumerate() {
                        for (ti, tx) in b.block.transactions.iter().enumerate() {
                            eprintln!(" pristine block {} tx {} type {:?} from {:?} to {:?}", i + 1, ti, tx.transaction_type,
                                tx.from.iter().map(|s| (s.block_id, s.tx_ordinal, s.slip_index, s.amount)).collect::<Vec<_>>(),
                                tx.to.iter().map(|s| (s.block_id, s.tx_ordinal, s.slip_index, s.amount)).collect::<Vec<_>>());
                        }
                    }
                }
                let (mi, clean) = locate(&h, cp);
                eprintln!("crash point {:?} mark {} clean {}", cp, mi, clean);
                if let Ok(o) = &out {
                    eprintln!("outcome: panic {:?} loaded {} intact {} ops {:?} deleted {:?} supply {} c03 {:?} extend {:?} orphans {:?}", o.panic, o.loaded, o.intact_on_disk, o.restart_ops, o.deleted, o.supply, o.c03, o.extend, o.orphans);
                    let show = |s: &ChainSnapshot| {
                        eprintln!(" tip {} lc {:?}", s.tip_id, s.lc_index.iter().map(|x| x.0).collect::<Vec<_>>());
                        eprintln!(" blocks {:?}", s.blocks.iter().map(|b| (b.1, b.2)).collect::<Vec<_>>());
                        for (k, v) in &s.utxo {
                            let sl = Slip::parse_slip_from_utxokey(k).unwrap();
                            eprintln!("   utxo blk {} tx {} idx {} amt {} type {:?} spendable {}", sl.block_id, sl.tx_ordinal, sl.slip_index, sl.amount, sl.slip_type, v);
                        }
                    };
                    if let Some(s) = &o.snap {
                        eprintln!("restarted:");
                        show(s);
                    }
                    if let Some(s) = &h.marks[mi].snap {
                        eprintln!("original at mark {} (supply {}):", mi, h.marks[mi].supply);
                        show(s);
                    }
                }
                eprintln!("verdict: failures {:?} known {:?}", v.failures, v.known);
            }
            if debug && (!v.failures.is_empty() || !v.known.is_empty()) {
                eprintln!("case {} h{} k={} torn={:?}: {:?} {:?}", case_no, hi, cp.k, cp.torn, v.failures, v.known);
            }
            for f in &v.failures {
                summary.oracle_failure(case_no, f, &cp_desc);
            }
            for (id, w) in &v.known {
                summary.known_hit(id, case_no, w);
            }
            if model {
                // model case: Coq's k = number of complete operations
                let (ck, ct) = match cp.torn {
                    None => (cp.k, false),
                    Some(_) => (cp.k - 1, true),
                };
                let rows = match &out {
                    Ok(o) => impl_rows(&mut int, o),
                    Err(_) => vec![vec![7]],
                };
                coq_cases.push(format!(
                    "((({}, false), {}, {}, ({}, {})), {})",
                    gp,
                    g_blocks,
                    g_journal,
                    ck,
                    gal::boolean(ct),
                    gal::nllist(&rows)
                ));
            }
            let (_, clean) = locate(&h, cp);
            if clean {
                clean_points += 1;
            }
            summary.count("gp", &gp.to_string());
            summary.count("last_op", match cp.torn {
                None => "complete",
                Some((c, _)) => c,
            });
            summary.count("clean_shutdown_point", &clean.to_string());
            summary.count("restarted_tip", v.tip_class);
            summary.count("blocks_lost", &v.lost.min(9).to_string());
            summary.count("extension", if v.ext_blocked { "producer-fails-on-reference-node-too" } else { "checked" });
            summary.count("history_has_fork", &has_fork.to_string());
            summary.count("history_purged", &purged.to_string());
            summary.count("compared_with_model", &model.to_string());
            if let Ok(o) = &out {
                summary.count("restart_deletes", &o.restart_ops.1.min(9).to_string());
                summary.count("orphan_deliveries_at_restart", &o.orphans.len().min(3).to_string());
            }
            let nontrivial = cp.k > 1 && (has_fork || purged || cp.torn.is_some());
            if nontrivial && distinct.insert(format!("{}:{}:{:?}", hi, cp.k, cp.torn)) {
                summary.nontrivial += 1;
            }
            if summary.samples.len() < 3 && cp.torn.is_some() && hi % 5 == 0 {
                summary.samples.push(cp_desc.clone());
            }
            summary.case_descs.push(cp_desc);
            case_no += 1;
        }
        summary.count("crash_points_of_history", &format!("{}+", (total_points / 50) * 50));
    }
    // ---- more than 1000 files: one linear history of 1004 blocks, the start-up rewrite of the 2nd /
    // 3rd / 500th file torn (selected crash points only)
    if std::env::var("C12_ONLY").is_err() {
        let (base, _) = rt.block_on(batch_gap_history(1004, 2));
        for n in &base.notes {
            summary.notes.push(n.clone());
        }
        let n_writes = base.journal.len() - 1;
        for torn_at in [2usize, 3, 500] {
            let mut h = base.clone();
            h.journal.truncate(n_writes);
            if let Some(DiskOp::Write(name, bytes)) = h.journal.get(torn_at - 1).cloned() {
                h.journal.push(DiskOp::Write(name, bytes));
            }
            let ctx = Ctx { h: &h, by_hash: h.blocks.iter().enumerate().map(|(i, b)| (b.block.hash, i)).collect() };
            let shared = Arc::new(HistShared { params: h.params.clone(), journal: h.journal.clone(), tree_blocks: h.blocks.clone() });
            let mut pts = vec![CrashPoint { k: h.journal.len(), torn: Some(("inside-header", 100)) }];
            if torn_at == 2 {
                pts.push(CrashPoint { k: n_writes, torn: None });
                pts.push(CrashPoint { k: h.journal.len(), torn: Some(("one-byte-short", 700)) });
            }
            for cp in &pts {
                let cp_desc = format!(
                    "{{\"history\":\"linear chain of {} blocks (genesis period {}, golden ticket in every second block, a transfer in the others), then the start-up rewrite of file number {} (name order)\",\"crash_after_ops\":{},\"last_op\":{}}}",
                    h.blocks.len(),
                    h.params.genesis_period,
                    torn_at,
                    cp.k,
                    match cp.torn {
                        None => "\"complete\"".to_string(),
                        Some((c, m)) => format!("{{\"torn\":{},\"bytes_written\":{}}}", jstr(c), m),
                    }
                );
                let out = run_crash_point(&shared, cp, Duration::from_secs(120));
                let v = judge(&ctx, cp, &out);
                if debug {
                    eprintln!("case {} long history torn_at {} cp {:?}: {} lost {} {:?} {:?}", case_no, torn_at, cp, v.tip_class, v.lost, v.failures, v.known);
                }
                for f in &v.failures {
                    summary.oracle_failure(case_no, f, &cp_desc);
                }
                for (id, w) in &v.known {
                    summary.known_hit(id, case_no, w);
                }
                summary.count("gp", &h.params.genesis_period.to_string());
                summary.count("scripted_history", "more-than-1000-files");
                summary.count("restarted_tip", v.tip_class);
                summary.count("blocks_lost", &v.lost.min(9).to_string());
                if let Ok(o) = &out {
                    summary.count("orphan_deliveries_at_restart", &o.orphans.len().min(3).to_string());
                    summary.count("restart_deletes", &o.restart_ops.1.min(9).to_string());
                }
                summary.nontrivial += 1;
                summary.case_descs.push(cp_desc);
                case_no += 1;
            }
        }
    }
    summary.evaluations = case_no as u64;
    summary.notes.push(format!(
        "restart is driven through the real ConsensusThread::on_init (a ConsensusThread constructed over the rebuilt disk); {} crash points, {} of them clean shutdown points (journal position at the end of a step, nothing torn); {} torn files offered to Block::deserialize_from_net, all rejected unless listed as failure; {} crash points lie in histories inside the regime of the Coq chain model and were compared with Storage.restart (state, the restart's own storage operations, final directory)",
        case_no, clean_points, torn_rejected, coq_cases.len()
    ));
    let header = "From Saito Require Import Base Chain Storage.\n\
        Definition check (c : ((N * bool) * list (N * blk) * list (N * N) * (N * bool)) * list (list N)) : bool :=\n\
        let '((cfg, ps, j, (k, torn)), expected) := c in eqb_llN (case_rows cfg ps j k torn) expected.";
    if std::env::var("C12_ONLY").is_err() {
        let files = gal::write_shards(
            &format!("{}/cases", args.out),
            "C12",
            header,
            "((N * bool) * list (N * blk) * list (N * N) * (N * bool)) * list (list N)",
            &coq_cases,
            args.shards,
        )
        .unwrap();
        summary.case_files = files;
    }
    summary.write(&args.out);
}
