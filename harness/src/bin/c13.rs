//! C13 — automatic rebroadcast at the retention-window edge.
//! Random histories with dust / spent / unspent outputs and genesis periods 3/4/5/8 (the
//! window wraps several times) plus scripted adversarial blocks on the real node.  Every
//! step goes to the Coq model (CVRun.check, the same replay as C02: the ATR transactions
//! Block::create builds, the verdict of add_block, the in-window utxo set); the direct
//! oracle evaluates the property on the implementation: unspent outputs of the block that
//! left the window <-> rebroadcast transactions of the new block one to one (same owner,
//! amount*multiplier - fee as the code defines them), too-small ones -> fees, nothing else,
//! nothing twice, originals and outputs older than the window unspendable (tried on the
//! pool and in a block).
use std::collections::BTreeSet;
use std::panic::AssertUnwindSafe;

use saito_core::core::consensus::block::Block;
use saito_core::core::consensus::slip::{Slip, SlipType};
use saito_core::core::consensus::transaction::{Transaction, TransactionType};
use verif_harness::chainsim::futures_catch;
use verif_harness::common::{Args, Summary};
use verif_harness::gal;
use verif_harness::rng::Rng;
use verif_harness::world::*;

#[path = "../cvsim.rs"]
mod cvsim;
use cvsim::*;

fn jpairs(v: &[(usize, u64)]) -> Vec<Vec<u64>> {
    v.iter().map(|(k, a)| vec![*k as u64, *a]).collect()
}

fn utxo_keys(sim: &Sim) -> BTreeSet<Vec<u8>> {
    sim.node.blockchain.utxoset.iter().filter(|(_, f)| **f).map(|(k, _)| k.to_vec()).collect()
}

#[derive(Default)]
struct Tally {
    capped: usize,
    expiring: usize,
    rebroadcast: usize,
    dust: usize,
    branches: Branches,
}

/// an honest step followed by the C13 oracle; returns the verdict and whether the history can go on
async fn checked_step(
    sim: &mut Sim,
    ts: u64,
    gt: Option<Transaction>,
    txs: &[Transaction],
    case: usize,
    summary: &mut Summary,
    desc: &str,
    tally: &mut Tally,
) -> (CreateOutcome, StepResult, bool) {
    let next_id = sim.tip().id + 1;
    let (co, sr, rep, mult) = atr_checked_step(sim, ts, gt, txs).await;
    let mut alive = true;
    match (&co, &sr.add) {
        (CreateOutcome::Ok, Some(AddClass::OnChain)) => {
            let rep = rep.unwrap();
            if rep.capped {
                tally.capped += 1;
            }
            tally.expiring += rep.expiring_unspent;
            tally.rebroadcast += rep.rebroadcast;
            tally.dust += rep.dust;
            tally.branches.note(sim.tip(), &rep, mult);
            for f in &rep.failures {
                summary.oracle_failure(case, f, desc);
            }
        }
        (CreateOutcome::Ok, Some(AddClass::Invalid)) => {
            summary.oracle_failure(case, &format!("block {} built by the real producer was rejected (payout multiplier {})", next_id, mult), desc);
            alive = false;
        }
        (CreateOutcome::Ok, Some(AddClass::Panicked)) => {
            summary.oracle_failure(case, &format!("add_block panicked on an honest block: {}", sr.panic_msg.clone().unwrap_or_default()), desc);
            alive = false;
        }
        (CreateOutcome::Panic(p), _) => {
            summary.oracle_failure(case, &format!("Block::create panicked on valid input (payout multiplier {}): {}", mult, p), desc);
            alive = false;
        }
        (CreateOutcome::Err(e), _) => {
            summary.oracle_failure(case, &format!("Block::create failed on valid input: {}", e), desc);
            alive = false;
        }
        _ => {
            alive = false;
        }
    }
    (co, sr, alive)
}

async fn random_history(hrng: &mut Rng, gpar: &GenParams, case: usize, summary: &mut Summary) -> (Sim, String, Tally) {
    let issuance = gen_issuance(hrng, gpar.nkeys, false);
    let mut sim = Sim::new(gpar.gp, gpar.pab, gpar.nkeys, &issuance, 1_000_000).await;
    let desc = format!(
        "{{\"case\":{},\"kind\":\"random\",\"genesis_period\":{},\"prune_after_blocks\":{},\"blocks\":{},\"fee_mode\":{},\"hops\":{},\"issuance\":{:?}}}",
        case, gpar.gp, gpar.pab, gpar.blocks, gpar.fee_mode, gpar.hops, jpairs(&issuance)
    );
    let mut tally = Tally::default();
    for i in 0..gpar.blocks {
        let ts = sim.tip().timestamp + 2 * HEARTBEAT + hrng.below(5000);
        let spendable = sim.spendable();
        let ntx = if spendable.is_empty() { 0 } else { hrng.below(4) as usize };
        let mut used = BTreeSet::new();
        let mut txs = vec![];
        for _ in 0..ntx {
            let k = hrng.below(spendable.len() as u64) as usize;
            if !used.insert(k) {
                continue;
            }
            txs.push(gen_payment(&sim, hrng, &spendable[k], gpar.fee_mode, gpar.hops, ts));
        }
        let with_gt = want_gt(&sim, hrng, txs.is_empty());
        let gt = if with_gt {
            let parent = sim.tip().clone();
            let miner = sim.keys[hrng.below(sim.keys.len() as u64) as usize].0;
            Some(gt_tx_for(&sim.node, &parent, miner, i as u64 * 31 + case as u64).await)
        } else {
            None
        };
        let (_co, _sr, alive) = checked_step(&mut sim, ts, gt, &txs, case, summary, &desc, &mut tally).await;
        if !alive {
            break;
        }
        // entries older than the window that are still marked spendable
        let stale = stale_entries(&sim.node);
        summary.count("stale_spendable_entries_after_block", &format!("{}", stale.len().min(9)));
    }
    summary.count("genesis_period", &gpar.gp.to_string());
    summary.count("fee_mode", &gpar.fee_mode.to_string());
    summary.count("window_wraps", &format!("{}", (sim.chain.len() as u64 - 1) / (gpar.gp + 1)));
    summary.count("expiring_unspent_outputs_per_history", &format!("{}", tally.expiring / 10 * 10));
    summary.count("rebroadcast_outputs_per_history", &format!("{}", tally.rebroadcast / 10 * 10));
    summary.count("dust_outputs_per_history", &format!("{}", tally.dust.min(20) / 5 * 5));
    (sim, desc, tally)
}

const ISS: &[(usize, u64)] = &[(0, 3_000_000), (0, 500_000), (1, 700), (1, 90_000), (2, 5), (1, 333_000), (3, 44_000)];

/// deterministic block: the producer moves its largest output paying `fee`; golden ticket every other block
async fn det_block(sim: &mut Sim, fee: u64, extra: Vec<Transaction>, k: u64, case: usize, summary: &mut Summary, desc: &str, tally: &mut Tally) -> (StepResult, bool) {
    let ts = sim.tip().timestamp + 2 * HEARTBEAT + 1000;
    let mut sp: Vec<_> = sim.spendable().into_iter().filter(|s| s.public_key == sim.keys[0].0 && s.slip_type == SlipType::Normal).collect();
    sp.sort_by_key(|s| s.amount);
    let mut txs = extra;
    if let Some(s) = sp.last() {
        if s.amount > fee + 100_000 {
            txs.push(make_tx(&[s.clone()], &[(sim.keys[0].0, s.amount - fee)], &sim.keys[0].1, ts));
        }
    }
    let with_gt = !sim.tip().has_golden_ticket || txs.is_empty();
    let gt = if with_gt {
        let parent = sim.tip().clone();
        Some(gt_tx_for(&sim.node, &parent, sim.keys[1].0, 100 + k).await)
    } else {
        None
    };
    let (_co, sr, alive) = checked_step(sim, ts, gt, &txs, case, summary, desc, tally).await;
    (sr, alive)
}

/// the honest next block (deterministic kind), not delivered
async fn det_candidate(sim: &Sim, fee: u64, k: u64) -> (u64, Option<Transaction>, Vec<Transaction>, Block) {
    let ts = sim.tip().timestamp + 2 * HEARTBEAT + 1000;
    let mut sp: Vec<_> = sim.spendable().into_iter().filter(|s| s.public_key == sim.keys[0].0 && s.slip_type == SlipType::Normal).collect();
    sp.sort_by_key(|s| s.amount);
    let mut txs = vec![];
    if let Some(s) = sp.last() {
        if s.amount > fee + 100_000 {
            txs.push(make_tx(&[s.clone()], &[(sim.keys[0].0, s.amount - fee)], &sim.keys[0].1, ts));
        }
    }
    let with_gt = !sim.tip().has_golden_ticket || txs.is_empty();
    let gt = if with_gt {
        let parent = sim.tip().clone();
        Some(gt_tx_for(&sim.node, &parent, sim.keys[1].0, 100 + k).await)
    } else {
        None
    };
    let b = create_block(&sim.node, sim.tip().hash, ts, &txs, gt.clone()).await.unwrap().unwrap();
    (ts, gt, txs, b)
}

/// offers a transaction to the real pool; true = it was pooled
async fn pool_accepts(sim: &mut Sim, tx: &Transaction) -> Result<bool, String> {
    let sig = tx.signature;
    let t = tx.clone();
    let r = futures_catch(AssertUnwindSafe(sim.node.mempool.add_transaction_if_validates(t, &sim.node.blockchain))).await;
    match r {
        Ok(()) => {
            let inside = sim.node.mempool.transactions.contains_key(&sig);
            sim.node.mempool.transactions.clear();
            sim.node.mempool.rebuild_utxo_map();
            Ok(inside)
        }
        Err(m) => Err(m),
    }
}

async fn scripted(name: &str, case: usize, summary: &mut Summary) -> (Sim, String) {
    let desc = format!("{{\"case\":{},\"kind\":\"scripted\",\"scenario\":\"{}\",\"genesis_period\":3,\"issuance\":{:?}}}", case, name, jpairs(ISS));
    let mut tally = Tally::default();
    let mut sim;
    match name {
        // treasury >= genesis_period * average rebroadcast volume: the multiplier exceeds 1
        "payout-multiplier" => {
            let iss: &[(usize, u64)] = &[(0, 3_000_000), (1, 60_000), (2, 5)];
            sim = Sim::new(3, 8, 4, iss, 1_000_000).await;
            let mut halted = false;
            for k in 0..30 {
                let (_sr, alive) = det_block(&mut sim, 50_000, vec![], k, case, summary, &desc, &mut tally).await;
                if !alive {
                    halted = true;
                    break;
                }
            }
            summary.count("scripted", &format!("{}:{}:capped-blocks-{}", name, if halted { "halted" } else { "alive-after-30" }, tally.capped.min(9)));
            if halted || sim.tip().treasury < sim.gp * sim.tip().avg_nolan_rebroadcast_per_block {
                summary.oracle_failure(case, &format!("coverage / liveness: payout-multiplier scenario: halted {} at tip {} (treasury {}, avg rebroadcast {}; the scenario needs treasury >= genesis_period * average volume)", halted, sim.tip().id, sim.tip().treasury, sim.tip().avg_nolan_rebroadcast_per_block), &desc);
            }
        }
        // deterministic scenario in which the rebroadcast section pays out of the treasury: multiplier >= 2
        // without the cap, the cap with an adjusted factor >= 2, NFT groups in both, an NFT payload as dust
        "atr-payout-positive" => {
            sim = Sim::new(3, 8, 4, PAYOUT_ISS, 1_000_000).await;
            for k in 0..PAYOUT_BLOCKS {
                let ts = sim.tip().timestamp + 2 * HEARTBEAT + 1000;
                let txs = payout_scenario_txs(&sim, k, ts);
                let with_gt = !sim.tip().has_golden_ticket || txs.is_empty();
                let gt = if with_gt {
                    let parent = sim.tip().clone();
                    Some(gt_tx_for(&sim.node, &parent, sim.keys[PAYOUT_MINER].0, 400 + k as u64).await)
                } else {
                    None
                };
                let (_co, _sr, alive) = checked_step(&mut sim, ts, gt, &txs, case, summary, &desc, &mut tally).await;
                if std::env::var("VERIF_TRACE").is_ok() {
                    let b = sim.tip();
                    eprintln!("k={} id={} T={} avg_nolan={} avg_fpb={} pay_atr={} fees_atr={} atrs={} br={:?}", k, b.id, b.treasury, b.avg_nolan_rebroadcast_per_block, b.avg_fee_per_byte, b.total_payout_atr, b.total_fees_atr, b.transactions.iter().filter(|t| t.transaction_type == TransactionType::ATR).count(), tally.branches);
                }
                if !alive {
                    break;
                }
            }
            let br = tally.branches.clone();
            summary.count("atr_branch:uncapped_payout_positive", &br.uncapped_positive.min(9).to_string());
            summary.count("atr_branch:capped", &br.capped.min(9).to_string());
            summary.count("atr_branch:capped_factor_ge_2", &br.capped_factor2.min(9).to_string());
            summary.count("atr_branch:capped_nft", &br.capped_nft.min(9).to_string());
            summary.count("atr_branch:uncapped_nft_payout", &br.uncapped_nft.min(9).to_string());
            summary.count("atr_branch:nft_dust", &br.nft_dust.min(9).to_string());
            for m in br.missing() {
                summary.oracle_failure(case, &format!("coverage: the deterministic scenario atr-payout-positive no longer reaches the branch: {} ({:?})", m, br), &desc);
            }
        }
        // the original of a rebroadcast output, and an output whose value was collected as fees, are spent afterwards
        "spend-original-after-rebroadcast" | "spend-collected-output" | "spend-dust-in-collecting-block" => {
            sim = Sim::new(3, 8, 4, ISS, 1_000_000).await;
            // the last variant offers the spend for block 5 itself: the first height the age rule forbids,
            // where the output would be spent and collected at once
            let prefix = if name == "spend-dust-in-collecting-block" { 3 } else { 4 };
            for k in 0..prefix {
                det_block(&mut sim, 50_000, vec![], k, case, summary, &desc, &mut tally).await;
            }
            // block 5 handles the outputs of the genesis block: 90_000 is rebroadcast, 700 collected
            let want = if name == "spend-original-after-rebroadcast" { 90_000 } else { 700 };
            let g = sim.chain[0].clone();
            let s: Slip = g.transactions.iter().flat_map(|t| t.to.iter()).find(|s| s.amount == want).unwrap().clone();
            let owner = sim.key_index(&s.public_key).unwrap();
            let ts = sim.tip().timestamp + 2 * HEARTBEAT + 1000;
            let tx = make_tx(&[s.clone()], &[(s.public_key, s.amount)], &sim.keys[owner].1, ts);
            match pool_accepts(&mut sim, &tx).await {
                Ok(true) => {
                    let what = format!("the pool of a node at tip {} accepts a transaction spending output 1:{}:{} ({}), which leaves the window at block 5", sim.tip().id, s.tx_ordinal, s.slip_index, s.amount);
                    summary.oracle_failure(case, &what, &desc);
                }
                Ok(false) => {}
                Err(m) => summary.oracle_failure(case, &format!("pool intake panicked: {}", m), &desc),
            }
            let (_co, sr) = sim.honest_step(ts, None, &[tx]).await;
            match sr.add {
                Some(AddClass::Invalid) => {}
                other => {
                    let what = format!(
                        "block {} spending output 1:{}:{} ({}), which leaves the window at block 5, is not rejected: {:?} {}",
                        sim.tip().id + 1,
                        s.tx_ordinal,
                        s.slip_index,
                        s.amount,
                        other,
                        sr.panic_msg.clone().unwrap_or_default()
                    );
                    summary.oracle_failure(case, &what, &desc);
                }
            }
        }
        // a pooled transaction spends an output in the very block that rebroadcasts it
        "spend-in-rebroadcasting-block" => {
            sim = Sim::new(3, 8, 4, ISS, 1_000_000).await;
            for k in 0..3 {
                det_block(&mut sim, 50_000, vec![], k, case, summary, &desc, &mut tally).await;
            }
            let g = sim.chain[0].clone();
            let s: Slip = g.transactions.iter().flat_map(|t| t.to.iter()).find(|s| s.amount == 90_000).unwrap().clone();
            let owner = sim.key_index(&s.public_key).unwrap();
            let ts = sim.tip().timestamp + 2 * HEARTBEAT + 1000;
            let tx = make_tx(&[s.clone()], &[(s.public_key, s.amount)], &sim.keys[owner].1, ts);
            let pooled = pool_accepts(&mut sim, &tx).await;
            let (co, _sr) = sim.honest_step(ts, None, &[tx]).await;
            summary.count("scripted", &format!("{}:pool={:?}:create={}", name, pooled, match co { CreateOutcome::Ok => "ok", CreateOutcome::Err(_) => "err", _ => "panic" }));
            // classification: producer-side only (C14 failed-create-drains-pool); no block can carry both
            // the spend and the rebroadcast, so the ledger is safe. Not a C13 failure.
        }
        // edits of the rebroadcast section of an otherwise honest block: all must be rejected
        "atr-omitted" | "atr-duplicated" | "atr-owner-changed" | "atr-amount-plus-one" | "atr-extra-for-spent-output" | "atr-input-substituted" | "block-id-jump" => {
            sim = Sim::new(3, 8, 4, ISS, 1_000_000).await;
            // block 4 pays key 1 a second 90_000 output (same owner, amount, index and type as 1:3:0)
            for k in 0..3 {
                let extra = if k == 2 {
                    let s = sim.spendable().into_iter().find(|s| s.public_key == sim.keys[3].0 && s.amount == 44_000);
                    let big = sim.spendable().into_iter().find(|s| s.public_key == sim.keys[0].0 && s.amount == 500_000).unwrap();
                    let _ = s;
                    let ts = sim.tip().timestamp + 2 * HEARTBEAT + 1000;
                    vec![make_tx(&[big.clone()], &[(sim.keys[1].0, 90_000), (sim.keys[0].0, 410_000)], &sim.keys[0].1, ts)]
                } else {
                    vec![]
                };
                det_block(&mut sim, 50_000, extra, k, case, summary, &desc, &mut tally).await;
            }
            let (ts, gt, txs, created) = det_candidate(&sim, 50_000, 50).await;
            let mut edited = created.clone();
            let atr_pos: Vec<usize> = edited.transactions.iter().enumerate().filter(|(_, t)| t.transaction_type == TransactionType::ATR).map(|(i, _)| i).collect();
            summary.count("scripted", &format!("{}:atr-txs-{}", name, atr_pos.len()));
            match name {
                "atr-omitted" => {
                    edited.transactions.remove(atr_pos[0]);
                }
                "atr-duplicated" => {
                    let t = edited.transactions[atr_pos[0]].clone();
                    edited.transactions.insert(atr_pos[0], t);
                }
                "atr-owner-changed" => {
                    edited.transactions[atr_pos[0]].to[0].public_key = sim.keys[3].0;
                }
                "atr-amount-plus-one" => {
                    edited.transactions[atr_pos[0]].to[0].amount += 1;
                }
                "atr-extra-for-spent-output" => {
                    // rebroadcast of the producer's 3_000_000 genesis output, spent in block 2
                    let g = sim.chain[0].clone();
                    let orig = &g.transactions[0];
                    let mut to = orig.to[0].clone();
                    to.slip_type = SlipType::ATR;
                    let t = Transaction::create_rebroadcast_transaction(orig, to, orig.to[0].clone());
                    edited.transactions.insert(atr_pos[0], t);
                }
                "atr-input-substituted" => {
                    // the 90_000 of key 1 at 1:3:0 is rebroadcast; name its twin in block 4 instead
                    let twin = sim.spendable().into_iter().find(|s| s.public_key == sim.keys[1].0 && s.amount == 90_000 && s.block_id == 4);
                    let pos = atr_pos.iter().find(|p| edited.transactions[**p].from[0].amount == 90_000).cloned();
                    match (twin, pos) {
                        (Some(tw), Some(p)) if tw.slip_index == edited.transactions[p].from[0].slip_index => {
                            edited.transactions[p].from[0].block_id = tw.block_id;
                            edited.transactions[p].from[0].tx_ordinal = tw.tx_ordinal;
                            summary.count("scripted", &format!("{}:twin-found", name));
                        }
                        _ => {
                            summary.count("scripted", &format!("{}:twin-not-found", name));
                        }
                    }
                }
                "block-id-jump" => {
                    // the honest block 5 rebroadcasts block 1; the same block numbered 6 looks at block 2
                    let (ts2, gt2, txs2, mut b) = (ts, gt.clone(), txs.clone(), created.clone());
                    let _ = (ts2, gt2, txs2);
                    b.transactions.retain(|t| t.transaction_type != TransactionType::ATR);
                    edited = b;
                    edited.id += 1;

                }
                _ => unreachable!(),
            }
            if name == "block-id-jump" {
                // header consistent with the edited id: let the real generate_consensus_values say what it expects
                edited.merkle_root = [0; 32];
                let _ = edited.generate();
                let cv = edited.generate_consensus_values(&sim.node.blockchain, &sim.node.storage, &sim.node.cfg).await;
                edited.total_fees_atr = cv.total_fees_atr;
                edited.total_fees = cv.total_fees;
                edited.total_fees_cumulative = cv.total_fees_cumulative;
                edited.avg_total_fees = cv.avg_total_fees;
                edited.avg_total_fees_atr = cv.avg_total_fees_atr;
                edited.avg_nolan_rebroadcast_per_block = cv.avg_nolan_rebroadcast_per_block;
                edited.total_payout_atr = cv.total_payout_atr;
                edited.avg_payout_atr = cv.avg_payout_atr;
                let mut keep: Vec<Transaction> = edited.transactions.iter().filter(|t| t.transaction_type != TransactionType::Fee).cloned().collect();
                let fee: Vec<Transaction> = edited.transactions.iter().filter(|t| t.transaction_type == TransactionType::Fee).cloned().collect();
                let mut rbs = cv.rebroadcasts.clone();
                keep.append(&mut rbs);
                keep.extend(fee);
                edited.transactions = keep;
            }
            reseal(&mut edited, &sim.keys[0].1);
            let before = utxo_keys(&sim);
            let sr = sim.step(ts, gt, &txs, CreateOutcome::Ok, Some(created.clone()), Some(edited.clone())).await;
            let _ = before;
            if sr.add != Some(AddClass::Invalid) {
                summary.oracle_failure(case, &format!("edited block ({}) is not rejected: {:?} {}", name, sr.add, sr.panic_msg.clone().unwrap_or_default()), &desc);
            }
            // after a rejected edit the honest block must still be accepted and pass the oracle
            if sr.add == Some(AddClass::Invalid) {
                let mut t2 = Tally::default();
                det_block(&mut sim, 50_000, vec![], 50, case, summary, &desc, &mut t2).await;
            }
        }
        // an NFT group leaves the window; the hand-edited block re-points the PAYLOAD input of the 3-input
        // rebroadcast (from[1]) to a twin output (same key, amount 300_000, slip index 1, type): must be rejected
        "nft-payload-input-substituted" => {
            sim = Sim::new(3, 8, 4, ISS, 1_000_000).await;
            for k in 0..4 {
                let ts = sim.tip().timestamp + 2 * HEARTBEAT + 1000;
                let extra = if k == 0 {
                    let s = sim.spendable().into_iter().find(|s| s.public_key == sim.keys[1].0 && s.amount == 333_000).unwrap();
                    vec![nft_create(&sim, &s, 300_000, 33_000, ts)]
                } else if k == 2 {
                    // block 4: the twin, output index 1 of a payment of the producer to key 2
                    let big = sim.spendable().into_iter().find(|s| s.public_key == sim.keys[0].0 && s.amount == 500_000).unwrap();
                    vec![make_tx(&[big.clone()], &[(sim.keys[0].0, 150_000), (sim.keys[1].0, 300_000)], &sim.keys[0].1, ts)]
                } else {
                    vec![]
                };
                det_block(&mut sim, 50_000, extra, k, case, summary, &desc, &mut tally).await;
            }
            // block 6 rebroadcasts the group created in block 2
            let (ts, gt, txs, created) = det_candidate(&sim, 50_000, 60).await;
            let mut edited = created.clone();
            let pos = edited.transactions.iter().position(|t| t.transaction_type == TransactionType::ATR && t.from.len() == 3 && t.from[0].slip_type == SlipType::Bound);
            let twin = sim.spendable().into_iter().find(|s| s.public_key == sim.keys[1].0 && s.amount == 300_000 && s.block_id == 4 && s.slip_index == 1);
            match (pos, twin) {
                (Some(p), Some(tw)) if edited.transactions[p].from[1].amount == tw.amount && edited.transactions[p].from[1].slip_index == tw.slip_index => {
                    edited.transactions[p].from[1].block_id = tw.block_id;
                    edited.transactions[p].from[1].tx_ordinal = tw.tx_ordinal;
                    summary.count("scripted", &format!("{}:group-and-twin-found", name));
                    reseal(&mut edited, &sim.keys[0].1);
                    let before = utxo_keys(&sim);
                    let sr = sim.step(ts, gt, &txs, CreateOutcome::Ok, Some(created.clone()), Some(edited.clone())).await;
                    if sr.add != Some(AddClass::Invalid) {
                        summary.oracle_failure(case, &format!("block 6 whose NFT-group rebroadcast names the twin output 4:{}:1 (300_000) instead of the payload 2:{}:1 is not rejected: {:?} {}", tw.tx_ordinal, created.transactions[p].from[1].tx_ordinal, sr.add, sr.panic_msg.clone().unwrap_or_default()), &desc);
                        if sr.add == Some(AddClass::OnChain) {
                            let (mult, fpb) = (1u128, sim.chain[sim.chain.len() - 2].avg_fee_per_byte as u128);
                            let e = sim.chain.iter().find(|b| b.id == 2).cloned();
                            let rep = atr_oracle(&mut sim, &edited, e.as_ref(), &before, mult, fpb, u128::MAX);
                            for f in rep.failures.iter().take(3) {
                                summary.oracle_failure(case, f, &desc);
                            }
                        }
                    } else {
                        let mut t2 = Tally::default();
                        det_block(&mut sim, 50_000, vec![], 60, case, summary, &desc, &mut t2).await;
                    }
                }
                (p, t) => {
                    summary.oracle_failure(case, &format!("coverage: scenario {} did not find the group rebroadcast ({:?}) or the twin ({:?})", name, p, t.map(|s| (s.block_id, s.tx_ordinal, s.slip_index))), &desc);
                }
            }
        }
        // an NFT group (Bound, payload, Bound) that stays unspent for more than two windows, fee per
        // byte 0 (tiny fees): it must travel together at the first AND at the second rebroadcast
        "nft-two-windows" => {
            sim = Sim::new(3, 8, 4, ISS, 1_000_000).await;
            let mut triples = 0;
            for k in 0..11 {
                let extra = if k == 0 {
                    let ts = sim.tip().timestamp + 2 * HEARTBEAT + 1000;
                    let s = sim.spendable().into_iter().find(|s| s.public_key == sim.keys[1].0 && s.amount == 333_000).unwrap();
                    vec![nft_create(&sim, &s, 300_000, 33_000, ts)]
                } else {
                    vec![]
                };
                let before = tally.expiring;
                let (_sr, alive) = det_block(&mut sim, 10, extra, k, case, summary, &desc, &mut tally).await;
                let _ = before;
                if !alive {
                    break;
                }
                let b = sim.tip();
                if b.transactions.iter().any(|t| t.transaction_type == TransactionType::ATR && t.to.len() == 3 && t.to[0].slip_type == SlipType::Bound) {
                    triples += 1;
                }
            }
            summary.count("scripted", &format!("{}:group-rebroadcasts-{}", name, triples));
        }
        // the age test adds genesis_period to the block id an input slip CLAIMS: a transaction naming
        // block id 2^64 - 1 (signed by its owner, the output does not exist) must simply be rejected
        "input-block-id-overflow" => {
            sim = Sim::new(3, 8, 4, ISS, 1_000_000).await;
            for k in 0..2 {
                det_block(&mut sim, 50_000, vec![], k, case, summary, &desc, &mut tally).await;
            }
            let g = sim.chain[0].clone();
            let mut s: Slip = g.transactions.iter().flat_map(|t| t.to.iter()).find(|s| s.amount == 90_000).unwrap().clone();
            s.block_id = u64::MAX;
            let owner = sim.key_index(&s.public_key).unwrap();
            let ts = sim.tip().timestamp + 2 * HEARTBEAT + 1000;
            let tx = make_tx(&[s.clone()], &[(s.public_key, s.amount)], &sim.keys[owner].1, ts);
            match pool_accepts(&mut sim, &tx).await {
                Ok(true) => summary.oracle_failure(case, "the pool accepts a transaction spending a non-existent output at block id 2^64-1", &desc),
                Ok(false) => {}
                Err(m) => summary.oracle_failure(case, &format!("Mempool::add_transaction_if_validates panics on a transaction whose input names block id 2^64-1: {}", m), &desc),
            }
            let (_co, sr) = sim.honest_step(ts, None, &[tx]).await;
            match sr.add {
                Some(AddClass::Invalid) => {}
                other => summary.oracle_failure(case, &format!("a block carrying a transaction whose input names block id 2^64-1 is not rejected: {:?}", other), &desc),
            }
        }
        _ => unreachable!(),
    }
    summary.count("scripted", name);
    (sim, desc)
}

#[tokio::main(flavor = "current_thread")]
async fn main() {
    verif_harness::common::init_log();
    let args = Args::parse();
    if std::env::var("VERIF_PANICS").is_err() {
        std::panic::set_hook(Box::new(|_| {}));
    }
    let thorough = args.tier == "thorough";
    let mut rng = Rng::new(args.seed ^ 0x13);
    let mut summary = Summary::new("C13");
    let mut coq_cases: Vec<String> = vec![];
    let mut descs: Vec<String> = vec![];
    let mut keys: Vec<String> = vec![];

    for name in [
        "payout-multiplier",
        "atr-payout-positive",
        "spend-original-after-rebroadcast",
        "spend-collected-output",
        "spend-dust-in-collecting-block",
        "spend-in-rebroadcasting-block",
        "atr-omitted",
        "atr-duplicated",
        "atr-owner-changed",
        "atr-amount-plus-one",
        "atr-extra-for-spent-output",
        "atr-input-substituted",
        "block-id-jump",
        "nft-two-windows",
        "nft-payload-input-substituted",
        "input-block-id-overflow",
    ] {
        let case = descs.len();
        let r = futures_catch(AssertUnwindSafe(scripted(name, case, &mut summary))).await;
        let (sim, desc) = match r {
            Ok(x) => x,
            Err(msg) => {
                let desc = format!("{{\"case\":{},\"kind\":\"scripted\",\"scenario\":\"{}\"}}", case, name);
                summary.oracle_failure(case, &format!("scenario {} could not be carried out on this tree: {}", name, msg), &desc);
                (Sim::new(3, 8, 2, &[(0, 1000)], 1).await, desc)
            }
        };
        coq_cases.push(sim.history_literal());
        descs.push(desc);
        keys.push(format!("scripted:{}", name));
    }

    let n_hist = if thorough { 300 } else { 45 };
    for h in 0..n_hist {
        let case = descs.len();
        let mut hrng = rng.fork();
        let gp = *hrng.pick(&[3u64, 4, 5, 8]);
        let gpar = GenParams {
            gp,
            pab: *hrng.pick(&[8u64, 8, 6, 20]),
            nkeys: hrng.range(3, 6) as u8,
            blocks: if thorough { hrng.range(30, 90) as usize } else { hrng.range(16, 40) as usize },
            fee_mode: [2u64, 1, 2, 0][h % 4],
            hops: hrng.chance(1, 3),
        };
        let (sim, desc, tally) = random_history(&mut hrng, &gpar, case, &mut summary).await;
        coq_cases.push(sim.history_literal());
        descs.push(desc);
        keys.push(format!(
            "random:gp{}:fee{}:rb{}:dust{}",
            gp,
            gpar.fee_mode,
            if tally.rebroadcast > 0 { "+" } else { "0" },
            if tally.dust > 0 { "+" } else { "0" }
        ));
    }

    // forks across the window edge (the twin that saw only the winning chain goes to the model)
    let n_fork = if thorough { 24 } else { 4 };
    for h in 0..n_fork {
        let case = descs.len();
        let mut hrng = rng.fork();
        let gp = [3u64, 4, 5, 8][h % 4];
        // every other fork is 3 blocks deep on a node that drops transactions from memory after 2 blocks
        let (pab, extra) = if h % 2 == 1 { (2u64, 2usize) } else { (8u64, 0usize) };
        let r = futures_catch(AssertUnwindSafe(fork_history_atr_deep(&mut hrng, gp, pab, extra, case))).await;
        match r {
            Ok((sim, desc, fails, delivery)) => {
                for f in &fails {
                    summary.oracle_failure(case, f, &desc);
                }
                summary.count("fork_delivery", &delivery);
                coq_cases.push(sim.history_literal());
                descs.push(desc);
                keys.push(format!("fork:gp{}:depth{}", gp, 1 + extra));
            }
            Err(msg) => {
                let desc = format!("{{\"case\":{},\"kind\":\"fork\",\"genesis_period\":{}}}", case, gp);
                summary.oracle_failure(case, &format!("fork history panicked: {}", msg), &desc);
                coq_cases.push(Sim::new(3, 8, 2, &[(0, 1000)], 1).await.history_literal());
                descs.push(desc);
                keys.push(format!("fork:gp{}", gp));
            }
        }
    }

    // non-trivial: scripted cases, and random histories in which at least one unspent output left the window
    let mut distinct = BTreeSet::new();
    for k in &keys {
        if k.starts_with("scripted") || k.starts_with("fork") || k.contains("rb+") || k.contains("dust+") {
            distinct.insert(k.clone());
        }
    }
    summary.nontrivial = distinct.len() as u64;
    summary.evaluations = descs.len() as u64;
    summary.case_descs = descs.clone();
    for d in descs.iter().take(3) {
        summary.samples.push(d.clone());
    }
    let header = "From Saito Require Import Base CV CVFloat Supply CVRun.\nDefinition check (c : history) : bool := CVRun.check c.";
    let files = gal::write_shards(&format!("{}/cases", args.out), "C13", header, "history", &coq_cases, args.shards).unwrap();
    summary.case_files = files;
    summary.notes.push(format!(
        "{} histories replayed through CVRun.check; profile {}",
        coq_cases.len(),
        if dbg_profile() { "debug (overflow checks)" } else { "release (wrapping)" }
    ));
    summary.write(&args.out);
}
