//! C14 — transaction pool vs ledger.  Runs interleavings of transaction
//! arrivals (valid / conflicting / duplicate / invalid / repeated-input /
//! producer-only types), golden tickets, local bundles (succeeding, failing,
//! followed by a failed addition), peer blocks (confirming / conflicting /
//! unrelated / invalid), own invalid candidates, off-chain blocks and
//! reorganisations on a real in-memory node (`world.rs`), with a long or a short
//! (5 blocks: rebroadcasts) window; records after every operation the pool's
//! transaction ids, the reservation index (`utxo_map`), the cached routing work and
//! the golden-ticket pool, writes Coq case files comparing them with
//! `Mempool.trace`, and evaluates the property (I1..I5 of DESIGN §8 C14) directly
//! on the implementation.  No listed finding is left at this commit; the histories
//! of the fixed ones are the scripted cases.
use std::collections::{BTreeMap, BTreeSet};
use std::panic::{catch_unwind, AssertUnwindSafe};

use saito_core::core::consensus::block::Block;
use saito_core::core::consensus::burnfee::BurnFee;
use saito_core::core::consensus::golden_ticket::GoldenTicket;
use saito_core::core::consensus::slip::{Slip, SlipType};
use saito_core::core::consensus::transaction::{Transaction, TransactionType};
use saito_core::core::defs::{
    SaitoHash, SaitoPrivateKey, SaitoPublicKey, SaitoSignature, SaitoUTXOSetKey,
};
use saito_core::core::util::crypto::hash;
use verif_harness::common::{jstr, Args, Summary};
use verif_harness::gal;
use verif_harness::rng::Rng;
use verif_harness::world::*;

const NODE_KEY: u8 = 1;
const BUILDER_KEY: u8 = 2;
const GAP: u64 = 120_000;

/// listed findings an oracle failure can fall into: none at this commit (every class
/// reproduced on earlier trees is fixed; see known_findings.txt)
#[derive(Clone, Copy, PartialEq, Eq, Debug, PartialOrd, Ord)]
enum Class {}
impl Class {
    fn id(&self) -> &'static str {
        match *self {}
    }
}

#[derive(Clone)]
struct Snap {
    /// signature -> (inputs (key, amount), type, total_work_for_me)
    txs: BTreeMap<SaitoSignature, (Vec<(SaitoUTXOSetKey, u64)>, TransactionType, u64)>,
    umap: BTreeSet<SaitoUTXOSetKey>,
    work: u64,
    gts: BTreeMap<SaitoHash, SaitoSignature>,
}
impl Snap {
    fn same_pool(&self, o: &Snap) -> bool {
        self.txs.keys().eq(o.txs.keys()) && self.umap == o.umap && self.work == o.work && self.gts == o.gts
    }
    fn sum_work(&self) -> u64 {
        self.txs.values().fold(0u64, |a, t| a.wrapping_add(t.2))
    }
    /// value-carrying input key -> spending pooled transactions
    fn spenders(&self) -> BTreeMap<SaitoUTXOSetKey, Vec<SaitoSignature>> {
        let mut m: BTreeMap<SaitoUTXOSetKey, Vec<SaitoSignature>> = BTreeMap::new();
        for (sig, (inputs, _, _)) in &self.txs {
            let mut seen = BTreeSet::new();
            for (k, a) in inputs {
                if *a > 0 && seen.insert(*k) {
                    m.entry(*k).or_default().push(*sig);
                }
            }
        }
        m
    }
    fn all_input_keys(&self) -> BTreeSet<SaitoUTXOSetKey> {
        self.txs.values().flat_map(|t| t.0.iter().map(|x| x.0)).collect()
    }
    /// would Block::create detect a double spend on these pooled transactions?
    fn has_dup_spend(&self) -> bool {
        let mut seen = BTreeSet::new();
        for (inputs, ty, _) in self.txs.values() {
            if *ty == TransactionType::Fee {
                continue;
            }
            for (k, a) in inputs {
                if *a > 0 && !seen.insert(*k) {
                    return true;
                }
            }
        }
        false
    }
}

#[derive(Clone, Copy, PartialEq, Eq, Debug)]
enum OpKind {
    Submit,
    AddGt,
    BundleNone,
    BundleSome,
    BlockAdded,
    BlockFailedMine,
    BlockFailedPeer,
}

struct Ctx {
    node: Node,
    builder: Node,
    params: Params,
    keys: Vec<(SaitoPublicKey, SaitoPrivateKey)>,
    it: Interner,
    /// blocks as they were handed over (before add_block set in-memory flags), by hash
    given: BTreeMap<SaitoHash, Block>,
    nonce: u64,
    genesis_ledger: Vec<u64>,
    ops: Vec<String>,
    exp: Vec<Vec<Vec<u64>>>,
    descs: Vec<String>,
    /// outputs that were an input of some pooled transaction at some time
    touched: BTreeSet<SaitoUTXOSetKey>,
    /// signatures of pooled golden-ticket transactions built NOT to solve their target
    bad_gts: BTreeSet<SaitoSignature>,
    /// Gallina literal of the pool the case starts from (transactions written straight into
    /// the pub map Mempool.transactions by the harness; empty_pool otherwise)
    initial_pool: String,
    /// 0 = nothing injected; 1 = conflicting transactions injected, index not rebuilt since;
    /// 2 = injected and rebuilt
    inject_phase: u8,
    injected: BTreeSet<SaitoSignature>,
    /// transactions that were pooled once and left the pool through a block addition
    dead_txs: Vec<Transaction>,
    // oracle state
    /// (what, Some(known class) | None = violation)
    findings: Vec<(String, Option<Class>)>,
    // statistics
    stats: BTreeMap<String, u64>,
    pooled_ever: bool,
    block_with_pool: bool,
    debug: bool,
}

fn ty_code(t: TransactionType) -> &'static str {
    match t {
        TransactionType::Normal => "TNormal",
        TransactionType::Fee => "TFee",
        TransactionType::GoldenTicket => "TGoldenTicket",
        TransactionType::BlockStake => "TBlockStake",
        TransactionType::SPV => "TSPV",
        TransactionType::ATR => "TATR",
        TransactionType::Issuance => "TIssuance",
        _ => "TOther",
    }
}

fn key_of(s: &Slip) -> SaitoUTXOSetKey {
    s.get_utxoset_key()
}

impl Ctx {
    async fn new(debug: bool, heartbeat: u64, genesis_period: u64) -> Ctx {
        let params = Params { genesis_period, heartbeat, ..Params::default() };
        let mut node = Node::new(&params, NODE_KEY);
        let mut builder = Node::new(&params, BUILDER_KEY);
        let keys: Vec<_> = (1..=4u8).map(keypair).collect();
        let mut issuance = vec![];
        for round in 0..6u64 {
            for (i, (pk, _)) in keys.iter().enumerate() {
                issuance.push((*pk, 100_000 + 1000 * round + 10 * i as u64));
            }
        }
        let g = make_genesis(&builder, 1_000_000, &issuance).await.expect("genesis");
        assert_eq!(node.add_block(g.clone()).await, AddClass::OnChain);
        assert_eq!(builder.add_block(g.clone()).await, AddClass::OnChain);
        let mut c = Ctx {
            node,
            builder,
            params,
            keys,
            it: Interner::default(),
            given: BTreeMap::new(),
            touched: BTreeSet::new(),
            bad_gts: BTreeSet::new(),
            initial_pool: "empty_pool".to_string(),
            inject_phase: 0,
            injected: BTreeSet::new(),
            dead_txs: vec![],
            nonce: 0,
            genesis_ledger: vec![],
            ops: vec![],
            exp: vec![],
            descs: vec![],
            findings: vec![],
            stats: BTreeMap::new(),
            pooled_ever: false,
            block_with_pool: false,
            debug,
        };
        c.genesis_ledger = c.ledger();
        c.given.insert(g.hash, g);
        c
    }

    fn stat(&mut self, k: &str) {
        *self.stats.entry(k.to_string()).or_insert(0) += 1;
    }

    // ------------------------------------------------------------ abstraction
    fn ledger(&mut self) -> Vec<u64> {
        let mut keys: Vec<SaitoUTXOSetKey> =
            self.node.blockchain.utxoset.iter().filter(|(_, v)| **v).map(|(k, _)| *k).collect();
        keys.sort();
        let mut v: Vec<u64> = keys.iter().map(|k| self.it.get(k)).collect();
        v.sort();
        v
    }

    fn coq_tx(&mut self, tx: &Transaction, work: u64, ok: bool) -> String {
        let id = self.it.get(&tx.signature);
        let inputs: Vec<String> = tx
            .from
            .iter()
            .map(|s| format!("({}, {})", self.it.get(&key_of(s)), s.amount))
            .collect();
        let target = if tx.transaction_type == TransactionType::GoldenTicket && tx.data.len() == 97 {
            let gt = GoldenTicket::deserialize_from_net(&tx.data);
            self.it.get(&gt.target)
        } else {
            0
        };
        // the block the age rule of Transaction::validate looks at
        let oldest = tx
            .from
            .iter()
            .filter(|s| s.amount > 0 && s.slip_type != SlipType::Bound)
            .map(|s| s.block_id)
            .min();
        let own = tx.from.iter().all(|s| s.public_key == self.node.pk);
        format!(
            "mkTx {} {} {} {} {} {} {} {}",
            id,
            gal::list(&inputs),
            work,
            ty_code(tx.transaction_type),
            gal::boolean(ok),
            target,
            match oldest {
                Some(b) => format!("(Some {})", b),
                None => "None".to_string(),
            },
            gal::boolean(own)
        )
    }

    /// abstraction of a transaction as the pool would see it on arrival
    fn coq_arrival(&mut self, tx: &Transaction) -> String {
        let mut c = tx.clone();
        c.generate(&self.node.pk, 0, 0);
        let ok = c.validate(&self.node.blockchain.utxoset, &self.node.blockchain, false);
        self.coq_tx(&c, c.total_work_for_me, ok)
    }

    fn coq_block_txs(&mut self, block: &Block) -> String {
        let mut v = vec![];
        for tx in &block.transactions {
            let ok = if tx.transaction_type == TransactionType::Normal {
                tx.validate(&self.node.blockchain.utxoset, &self.node.blockchain, false)
            } else {
                true
            };
            v.push(format!("({})", self.coq_tx(tx, tx.total_work_for_me, ok)));
        }
        gal::list(&v)
    }

    fn snap(&self) -> Snap {
        let m = &self.node.mempool;
        let mut txs = BTreeMap::new();
        for (sig, tx) in m.transactions.iter() {
            txs.insert(
                *sig,
                (
                    tx.from.iter().map(|s| (s.utxoset_key, s.amount)).collect::<Vec<_>>(),
                    tx.transaction_type,
                    tx.total_work_for_me,
                ),
            );
        }
        Snap {
            txs,
            umap: m.utxo_map.keys().cloned().collect(),
            work: m.get_routing_work_available(),
            gts: m.golden_tickets.iter().map(|(h, (tx, _))| (*h, tx.signature)).collect(),
        }
    }

    fn observe(&mut self, s: &Snap) -> Vec<Vec<u64>> {
        let mut ids: Vec<u64> = s.txs.keys().map(|k| self.it.get(k)).collect();
        ids.sort();
        let mut um: Vec<u64> = s.umap.iter().map(|k| self.it.get(k)).collect();
        um.sort();
        let mut gt: Vec<u64> = s.gts.keys().map(|k| self.it.get(k)).collect();
        gt.sort();
        let mut gi: Vec<u64> = s.gts.values().map(|k| self.it.get(k)).collect();
        gi.sort();
        vec![ids, um, vec![s.work], gt, gi]
    }

    // ------------------------------------------------------------ oracle
    fn finding(&mut self, what: String, class: Option<Class>) {
        if self.debug {
            eprintln!("   finding [{:?}] {}", class, what);
        }
        if self.findings.len() < 64 {
            self.findings.push((what, class));
        }
    }

    /// I1, I2, I3 (index form), I5 on the implementation after an operation.
    fn check_invariants(&mut self, kind: OpKind, _pre: &Snap, post: &Snap, _block_sigs: &BTreeSet<SaitoSignature>) {
        // a pool the harness wrote conflicting transactions into: I1 is broken by the harness;
        // index and cache are only meaningful after the first rebuild
        if self.inject_phase == 1 && post.all_input_keys() == post.umap && post.work == post.sum_work() {
            // some rebuild (failed Block::create, block addition) has brought them in line
            self.inject_phase = 2;
        }
        let skip_index = self.inject_phase == 1;
        // I1: no two pooled transactions share a value-carrying input
        for (key, sp) in post.spenders() {
            if sp.len() > 1 && !sp.iter().any(|s| self.injected.contains(s)) {
                let k = self.it.get(&key);
                let ids: Vec<u64> = sp.iter().map(|s| self.it.get(s)).collect();
                self.finding(format!("I1: pooled transactions {:?} all spend output {} after {:?}", ids, k, kind), None);
            }
        }
        // I2: every pooled transaction validates against the ledger -- the utxoset lookup and
        // Transaction::validate as a whole (age rule included)
        let mut bad: Vec<SaitoSignature> = vec![];
        for (sig, tx) in self.node.mempool.transactions.iter() {
            if !tx.validate_against_utxoset(&self.node.blockchain.utxoset)
                || !tx.validate(&self.node.blockchain.utxoset, &self.node.blockchain, true)
            {
                bad.push(*sig);
            }
        }
        for sig in bad {
            let id = self.it.get(&sig);
            let what = format!("I2: pooled transaction {} does not validate against the ledger after {:?}", id, kind);
            self.finding(what, None);
        }
        // I3: every reservation belongs to a pooled transaction, every input of a pooled
        // transaction is reserved
        let owned = if skip_index { post.umap.clone() } else { post.all_input_keys() };
        for k in post.umap.difference(&owned) {
            let kk = self.it.get(k);
            self.finding(format!("I3: reservation of output {} has no pooled transaction after {:?}", kk, kind), None);
        }
        for k in owned.difference(&post.umap) {
            let kk = self.it.get(k);
            self.finding(format!("I1: input {} of a pooled transaction is not reserved after {:?}", kk, kind), None);
        }
        // I5: cached routing work = sum over the pooled transactions
        if !skip_index && post.work != post.sum_work() {
            self.finding(
                format!("I5: cached routing work {} but pooled transactions carry {} after {:?}", post.work, post.sum_work(), kind),
                None,
            );
        }
        if !post.txs.is_empty() {
            self.pooled_ever = true;
        }
        self.touched.extend(post.all_input_keys());
    }

    fn record(&mut self, coq_op: String, desc: String, obs: Vec<Vec<u64>>) {
        if self.debug {
            eprintln!("op {:2}: {}  -> {:?}", self.ops.len(), desc, obs);
        }
        self.ops.push(coq_op);
        self.descs.push(desc);
        self.exp.push(obs);
    }

    // ------------------------------------------------------------ building blocks
    fn free_outputs(&self) -> Vec<Slip> {
        let mut keys: Vec<SaitoUTXOSetKey> =
            self.node.blockchain.utxoset.iter().filter(|(_, v)| **v).map(|(k, _)| *k).collect();
        keys.sort();
        let mut v = vec![];
        for k in keys {
            if let Ok(s) = Slip::parse_slip_from_utxokey(&k) {
                if s.slip_type == SlipType::Normal && s.amount > 0 && self.keys.iter().any(|(pk, _)| *pk == s.public_key) {
                    v.push(s);
                }
            }
        }
        v
    }

    fn sk_of(&self, pk: &SaitoPublicKey) -> SaitoPrivateKey {
        self.keys.iter().find(|(p, _)| p == pk).map(|(_, s)| *s).unwrap()
    }

    /// a signed Normal transaction spending `inputs` (all owned by the first input's key)
    fn build_tx(&mut self, inputs: &[Slip], fee: u64, to: usize, hop: bool) -> Transaction {
        self.nonce += 1;
        let owner = inputs[0].public_key;
        let sk = self.sk_of(&owner);
        let total: u64 = inputs.iter().map(|s| s.amount).sum();
        let out = total.saturating_sub(fee);
        let to_pk = self.keys[to % self.keys.len()].0;
        let outputs = if out > 10 && self.nonce % 3 == 0 {
            vec![(to_pk, out / 2), (owner, out - out / 2)]
        } else {
            vec![(to_pk, out)]
        };
        let mut tx = make_tx(inputs, &outputs, &sk, 2_000_000 + self.nonce);
        if hop && owner != self.node.pk {
            tx.add_hop(&sk, &owner, &self.node.pk);
        }
        tx
    }

    /// writes transactions straight into the pub map Mempool.transactions (no reservation,
    /// no work): the only way to confront Block::create with a double spend now that intake
    /// refuses every conflict.  Only before the first operation of a case.
    fn inject(&mut self, txs: Vec<Transaction>) {
        assert!(self.ops.is_empty());
        let mut lits = vec![];
        for mut tx in txs {
            tx.generate(&self.node.pk, 0, 0);
            let ok = tx.validate(&self.node.blockchain.utxoset, &self.node.blockchain, false);
            let lit = self.coq_tx(&tx, tx.total_work_for_me, ok);
            lits.push(format!("({})", lit));
            self.injected.insert(tx.signature);
            self.node.mempool.transactions.insert(tx.signature, tx);
        }
        lits.reverse();
        self.initial_pool = format!("(mkP {} [] 0 false [])", gal::list(&lits));
        self.inject_phase = 1;
        self.pooled_ever = true;
        self.stat("inject:conflicting-pair");
    }

    /// a transaction that moves no value: one zero-amount input slip of `owner`, one
    /// zero-amount output (reservation check skips amount 0, Block::create skips it too)
    fn build_data_tx(&mut self, owner: usize, hop: bool) -> Transaction {
        self.nonce += 1;
        let (pk, sk) = self.keys[owner % self.keys.len()];
        let mut tx = Transaction::default();
        tx.transaction_type = TransactionType::Normal;
        tx.timestamp = 2_000_000 + self.nonce;
        tx.data = self.nonce.to_be_bytes().to_vec();
        let mut i = Slip::default();
        i.public_key = pk;
        i.amount = 0;
        i.generate_utxoset_key();
        tx.add_from_slip(i);
        let mut o = Slip::default();
        o.public_key = pk;
        o.amount = 0;
        tx.add_to_slip(o);
        tx.sign(&sk);
        if hop && pk != self.node.pk {
            tx.add_hop(&sk, &pk, &self.node.pk);
        }
        tx
    }

    /// a BlockStake transaction of the inputs' owner: one staking output, the rest as change
    fn build_stake_tx(&mut self, inputs: &[Slip], stake: u64) -> Transaction {
        self.nonce += 1;
        let owner = inputs[0].public_key;
        let sk = self.sk_of(&owner);
        let total: u64 = inputs.iter().map(|s| s.amount).sum();
        let mut tx = Transaction::default();
        tx.transaction_type = TransactionType::BlockStake;
        tx.timestamp = 2_000_000 + self.nonce;
        for s in inputs {
            let mut s = s.clone();
            s.generate_utxoset_key();
            tx.add_from_slip(s);
        }
        let mut o = Slip::default();
        o.public_key = owner;
        o.amount = stake.min(total);
        o.slip_type = SlipType::BlockStake;
        tx.add_to_slip(o);
        if total > stake {
            let mut ch = Slip::default();
            ch.public_key = owner;
            ch.amount = total - stake;
            ch.slip_type = SlipType::Normal;
            tx.add_to_slip(ch);
        }
        tx.sign(&sk);
        tx
    }

    // ------------------------------------------------------------ operations
    /// Submits a transaction.  The oracle derives by itself whether the pool must take it
    /// (I3, user-visible form): it validates against the ledger, its signature is not
    /// pooled, and none of its value inputs is an input of a pooled transaction.
    /// `intent` only documents what the generator meant to build.
    async fn op_submit(&mut self, tx: Transaction, label: &str, intent: bool) {
        let pre = self.snap();
        let coq = format!("OAddTx ({})", self.coq_arrival(&tx));
        let sig = tx.signature;
        let vin: Vec<SaitoUTXOSetKey> = tx.from.iter().filter(|s| s.amount > 0).map(key_of).collect();
        let valid_full = {
            let mut c = tx.clone();
            c.generate(&self.node.pk, 0, 0);
            c.validate(&self.node.blockchain.utxoset, &self.node.blockchain, true)
        };
        let is_issuance = tx.transaction_type == TransactionType::Issuance;
        let is_foreign_stake = tx.transaction_type == TransactionType::BlockStake
            && !tx.from.iter().all(|s| s.public_key == self.node.pk);
        let claimed = pre.all_input_keys();
        let must_accept = valid_full
            && tx.transaction_type == TransactionType::Normal
            && !pre.txs.contains_key(&sig)
            && vin.iter().all(|k| !claimed.contains(k));
        self.node.mempool.add_transaction_if_validates(tx, &self.node.blockchain).await;
        let post = self.snap();
        let accepted = post.txs.contains_key(&sig) && !pre.txs.contains_key(&sig);
        self.stat(&format!("submit:{}:{}", label, if accepted { "pooled" } else { "not-pooled" }));
        if must_accept != intent {
            self.stat(&format!("submit:{}:oracle-expects-{}", label, if must_accept { "accept" } else { "reject" }));
        }
        let id = self.it.get(&sig);
        if must_accept && !accepted {
            let blocking: Vec<SaitoUTXOSetKey> = vin.iter().filter(|k| pre.umap.contains(*k)).cloned().collect();
            let ks: Vec<u64> = blocking.iter().map(|k| self.it.get(k)).collect();
            self.finding(
                format!("I3: funds locked: fresh valid transaction {} spending unspent output(s) {:?}, which no pooled transaction spends, is rejected", id, ks),
                None,
            );
        }
        if accepted && is_issuance {
            self.finding(format!("intake: issuance transaction {} was pooled on a running chain (issuance is valid in block 1 only)", id), None);
        }
        if accepted && is_foreign_stake {
            self.finding(format!("intake: staking transaction {} with an input of another key was pooled (a block carries its producer's own staking transaction only)", id), None);
        }
        if accepted && !valid_full {
            self.finding(format!("I2: transaction {} does not validate but was pooled", id), None);
        }
        self.check_invariants(OpKind::Submit, &pre, &post, &BTreeSet::new());
        let obs = self.observe(&post);
        self.record(coq, format!("submit {} tx {} (must_accept={}) -> {}", label, id, must_accept, if accepted { "pooled" } else { "not pooled" }), obs);
    }

    async fn op_add_gt(&mut self, target: SaitoHash, seed: u64) {
        let pre = self.snap();
        let difficulty = self.node.blockchain.get_block(&target).map(|b| b.difficulty).unwrap_or(0);
        let gttx = golden_ticket_tx(target, difficulty, &self.node.pk, &self.node.sk, seed).await;
        let coq = format!("OAddGT {} {}", self.it.get(&target), self.it.get(&gttx.signature));
        self.node.mempool.add_golden_ticket(gttx).await;
        let post = self.snap();
        self.stat("add_gt");
        self.check_invariants(OpKind::AddGt, &pre, &post, &BTreeSet::new());
        let obs = self.observe(&post);
        let t = self.it.get(&target);
        self.record(coq, format!("golden ticket for block {}", t), obs);
    }

    /// pools a golden ticket for `target` that Block::validate would refuse (add_golden_ticket
    /// looks at neither the solution nor the key)
    async fn op_add_bad_gt(&mut self, target: SaitoHash, seed: u64) -> bool {
        let difficulty = self.node.blockchain.get_block(&target).map(|b| b.difficulty).unwrap_or(0);
        // either a ticket whose hash misses the difficulty (needs difficulty > 0), or one that
        // solves the target but names the all-zero key (Block::validate refuses both; 6a5c788)
        let gt = if difficulty == 0 || seed % 2 == 0 {
            self.stat("add_gt:zero-key");
            mine_golden_ticket(target, difficulty, [0; 33], seed)
        } else {
            let mut r = hash(&seed.to_be_bytes());
            loop {
                let gt = GoldenTicket::create(target, r, self.node.pk);
                if !gt.validate(difficulty) {
                    break gt;
                }
                r = hash(&r);
            }
        };
        let pre = self.snap();
        let gttx = saito_core::core::consensus::wallet::Wallet::create_golden_ticket_transaction(gt, &self.node.pk, &self.node.sk).await;
        let coq = format!("OAddGT {} {}", self.it.get(&target), self.it.get(&gttx.signature));
        self.bad_gts.insert(gttx.signature);
        self.node.mempool.add_golden_ticket(gttx).await;
        let post = self.snap();
        self.stat("add_gt:not-solving");
        self.check_invariants(OpKind::AddGt, &pre, &post, &BTreeSet::new());
        let obs = self.observe(&post);
        let t = self.it.get(&target);
        self.record(coq, format!("golden ticket for block {} that does not solve it", t), obs);
        true
    }

    fn tip(&self) -> Block {
        self.node.blockchain.get_latest_block().expect("tip").clone()
    }

    /// hands a block to the node under test; valid blocks also go to the builder
    async fn op_give_block(&mut self, block: Block, label: &str, expect_valid: bool) -> AddClass {
        let pre = self.snap();
        let pre_full: BTreeMap<SaitoSignature, Transaction> =
            self.node.mempool.transactions.iter().map(|(k, v)| (*k, v.clone())).collect();
        let mut b = block.clone();
        let _ = b.generate();
        let sigs: BTreeSet<SaitoSignature> = b
            .transactions
            .iter()
            .filter(|t| t.transaction_type != TransactionType::GoldenTicket)
            .map(|t| t.signature)
            .collect();
        let btxs = self.coq_block_txs(&b);
        let mine = b.creator == self.node.pk;
        let bh = self.it.get(&b.hash);
        if !pre.txs.is_empty() {
            self.block_with_pool = true;
        }
        self.given.insert(b.hash, block.clone());
        let r = self.node.add_block(block.clone()).await;
        let post = self.snap();
        self.stat(&format!("block:{}:{:?}", label, r));
        let (coq, kind) = match r {
            AddClass::OnChain | AddClass::OffChain => {
                let rb = self.builder.add_block(block).await;
                if rb != r {
                    self.finding(format!("second node classifies block {} as {:?}, node under test as {:?}", bh, rb, r), None);
                }
                let l = self.ledger();
                let latest = self.node.blockchain.get_latest_block_id();
                (format!("OBlockAdded {} {} {}", gal::nlist(&l), latest, btxs), OpKind::BlockAdded)
            }
            AddClass::Invalid => (
                format!("OBlockFailed {} {} {}", bh, gal::boolean(mine), btxs),
                if mine { OpKind::BlockFailedMine } else { OpKind::BlockFailedPeer },
            ),
            _ => {
                // exists / retry: the pool is not touched
                if !pre.same_pool(&post) {
                    self.finding(format!("pool changed by a block answered {:?}", r), None);
                }
                return r;
            }
        };
        if expect_valid && r == AddClass::Invalid {
            self.finding(format!("block {} ({}) expected to be valid was rejected", bh, label), None);
        }
        if kind == OpKind::BlockAdded {
            for sig in pre.txs.keys() {
                if !post.txs.contains_key(sig) && self.dead_txs.len() < 8 {
                    if let Some(t) = pre_full.get(sig) {
                        self.dead_txs.push(t.clone());
                    }
                }
            }
        }
        self.check_invariants(kind, &pre, &post, &sigs);
        let obs = self.observe(&post);
        self.record(coq, format!("{} block {} with {} txs -> {:?}", label, bh, b.transactions.len(), r), obs);
        r
    }

    fn needs_gt(node: &Node, parent: SaitoHash) -> bool {
        !node.blockchain.is_golden_ticket_count_valid(parent, false, false, false)
    }

    /// block by the second node on the current tip
    async fn op_peer_block(&mut self, txs: Vec<Transaction>, want_gt: bool, tamper: bool, label: &str) -> Option<AddClass> {
        let tip = self.tip();
        let with_gt = want_gt || Ctx::needs_gt(&self.builder, tip.hash);
        self.nonce += 1;
        let b = make_block(&self.builder, tip.hash, tip.timestamp + GAP, txs, with_gt, self.nonce).await;
        let mut b = match b {
            Ok(b) => b,
            Err(_) => {
                self.stat("block:peer:create-failed");
                return None;
            }
        };
        if tamper {
            b.burnfee += 1;
            let sk = self.builder.sk;
            resign(&mut b, &sk);
            // sometimes a golden ticket naming the candidate itself is pooled first:
            // add_block_failure -> Mempool::delete_block must remove it
            if self.nonce % 2 == 0 {
                let seed = self.nonce;
                self.op_add_gt(b.hash, seed).await;
                self.stat("add_gt:for-invalid-candidate");
            }
        }
        Some(self.op_give_block(b, label, !tamper).await)
    }

    /// an invalid candidate of the node's own making that carries pooled transactions
    async fn op_own_invalid_candidate(&mut self, txs: Vec<Transaction>) -> Option<AddClass> {
        let tip = self.tip();
        let with_gt = Ctx::needs_gt(&self.node, tip.hash);
        self.nonce += 1;
        let b = make_block(&self.node, tip.hash, tip.timestamp + GAP, txs, with_gt, self.nonce).await;
        let mut b = match b {
            Ok(b) => b,
            Err(_) => {
                self.stat("block:own:create-failed");
                return None;
            }
        };
        b.burnfee += 1;
        let sk = self.node.sk;
        resign(&mut b, &sk);
        Some(self.op_give_block(b, "own-invalid", false).await)
    }

    /// the rebroadcast (ATR) transactions Block::create adds on the current tip, found by
    /// letting the second node (same chain) create an empty block that is thrown away
    async fn rebroadcasts_on_tip(&mut self, ts: u64) -> Vec<Transaction> {
        let tip = self.tip();
        self.nonce += 1;
        match make_block(&self.builder, tip.hash, ts, vec![], false, self.nonce).await {
            Ok(b) => b.transactions.into_iter().filter(|t| t.transaction_type == TransactionType::ATR).collect(),
            Err(_) => vec![],
        }
    }

    /// Mempool::bundle_block as the consensus thread calls it; `after`: 0 = add the block,
    /// 1 = corrupt it first (the addition fails and add_block_failure runs)
    async fn op_bundle(&mut self, gap: u64, after: u8) -> Option<AddClass> {
        let pre = self.snap();
        let tip = self.tip();
        let ts = tip.timestamp + gap;
        let gt_tx = self.node.mempool.golden_tickets.get(&tip.hash).map(|(t, _)| t.clone());
        let fresh_before = self.node.mempool.new_tx_added;
        let ts_ok = ts > tip.timestamp;
        // a pooled ticket that does not solve the tip is dropped by bundle_block (e0300b2)
        let bad_gt = match &gt_tx {
            Some(t) if self.bad_gts.contains(&t.signature) => Some(self.it.get(&tip.hash)),
            _ => None,
        };
        let gt_used = if bad_gt.is_some() { None } else { gt_tx.clone() };
        // the conditions of can_bundle_block that do not read the pool
        let gt_ok = self.node.blockchain.is_golden_ticket_count_valid(tip.hash, gt_used.is_some(), false, false);
        let mut h: Vec<u8> = self.node.pk.to_vec();
        h.extend_from_slice(&tip.hash);
        let hh = hash(&h);
        let value = (u128::from_be_bytes(hh[16..32].try_into().unwrap()) % 5000) as u64;
        let env_ok = !self.node.blockchain.blocks.is_empty()
            && self.node.mempool.blocks_queue.is_empty()
            && gt_ok
            && !(ts < tip.timestamp + value);
        let work_needed = BurnFee::return_routing_work_needed_to_produce_block_in_nolan(
            tip.burnfee,
            ts,
            tip.timestamp,
            self.params.heartbeat,
        );
        // the staking transaction bundle_block will build (stake requirement 0: no wallet slip is touched)
        let stake = {
            let mut w = self.node.wallet_lock.write().await;
            w.create_staking_transaction(
                self.node.blockchain.social_stake_requirement,
                self.node.blockchain.get_latest_unlocked_stake_block_id(),
                (self.node.blockchain.get_latest_block_id() + 1).saturating_sub(self.params.genesis_period),
            )
            .ok()
        };
        let stake_coq = match &stake {
            Some(t) => format!("(Some ({}))", self.coq_arrival(t)),
            None => "None".to_string(),
        };
        let mut pre_plus = pre.clone();
        if let Some(t) = &stake {
            pre_plus.txs.entry(t.signature).or_insert((vec![], t.transaction_type, 0));
        }
        let atr = if ts_ok { self.rebroadcasts_on_tip(ts).await } else { vec![] };
        let atr_keys: BTreeSet<SaitoUTXOSetKey> =
            atr.iter().flat_map(|t| t.from.iter().filter(|s| s.amount > 0).map(key_of)).collect();
        let block = self
            .node
            .mempool
            .bundle_block(&self.node.blockchain, ts, gt_tx.clone(), &self.node.cfg, &self.node.storage)
            .await;
        let post = self.snap();
        // transactions Block::create added besides the pool's
        let mut extra: Vec<String> = vec![];
        let mut res_obs: Vec<u64> = vec![0];
        match &block {
            Some(b) => {
                for tx in &b.transactions {
                    if !pre_plus.txs.contains_key(&tx.signature) {
                        let s = self.coq_tx(tx, tx.total_work_for_me, true);
                        extra.push(format!("({})", s));
                    }
                }
                let mut ids: Vec<u64> = b.transactions.iter().map(|t| self.it.get(&t.signature)).collect();
                ids.sort();
                res_obs = vec![1];
                res_obs.extend(ids);
            }
            None => {
                if let Some(g) = &gt_used {
                    let s = self.coq_tx(g, 0, true);
                    extra.push(format!("({})", s));
                }
                for t in &atr {
                    let s = self.coq_tx(t, 0, true);
                    extra.push(format!("({})", s));
                }
            }
        }
        let coq = format!(
            "OBundle {} {} {} {} {} {}",
            gal::boolean(ts_ok),
            match bad_gt {
                Some(t) => format!("(Some {})", t),
                None => "None".to_string(),
            },
            gal::boolean(env_ok),
            work_needed,
            stake_coq,
            gal::list(&extra)
        );
        if bad_gt.is_some() && ts_ok {
            self.stat("bundle:dropped-non-solving-ticket");
        }
        self.stat(&format!(
            "bundle-conditions:ts_ok={}:env={}:work_needed={}:pool={}:{}",
            ts_ok,
            env_ok,
            if work_needed == 0 { "0" } else if work_needed <= pre.work { "<=cache" } else { ">cache" },
            if pre.txs.is_empty() { "empty" } else { "nonempty" },
            if block.is_some() { "block" } else { "none" }
        ));
        // I4: a block and exactly its transactions gone, or nothing changed
        let kind;
        let mut left_out_work: u64 = 0;
        match &block {
            None => {
                kind = OpKind::BundleNone;
                // allowed change: the non-solving golden ticket for the tip is dropped
                let mut expect = pre.clone();
                if bad_gt.is_some() && ts_ok {
                    expect.gts.remove(&tip.hash);
                }
                if self.inject_phase > 0 {
                    // Block::create failed on the injected double spend: it must hand every
                    // drained transaction back
                    for sig in pre.txs.keys() {
                        if !post.txs.contains_key(sig) {
                            let id = self.it.get(sig);
                            self.finding(format!("I4: bundle_block produced no block and pooled transaction {} is lost", id), None);
                        }
                    }
                    // Block::create was reached (every gate of can_bundle_block was open) and
                    // failed: from here on index and cache must be in line with the pool again
                    if env_ok && ts_ok && !pre.txs.is_empty() && fresh_before && pre.work >= work_needed && stake.is_some() {
                        self.inject_phase = 2;
                    }
                    self.stat("bundle:none-injected-conflict");
                } else if !expect.same_pool(&post) {
                    self.finding(
                        format!(
                            "I4: bundle_block produced no block but changed the pool: {} -> {} transactions, {} -> {} reservations, cached work {} -> {}",
                            pre.txs.len(),
                            post.txs.len(),
                            pre.umap.len(),
                            post.umap.len(),
                            pre.work,
                            post.work
                        ),
                        None,
                    );
                    self.stat("bundle:none-but-changed");
                } else {
                    self.stat("bundle:none-unchanged");
                }
            }
            Some(b) => {
                kind = OpKind::BundleSome;
                self.stat("bundle:some");
                let bs: BTreeSet<SaitoSignature> = b.transactions.iter().map(|t| t.signature).collect();
                // outputs that this very block rebroadcasts
                let rk: BTreeSet<SaitoUTXOSetKey> = b
                    .transactions
                    .iter()
                    .filter(|t| t.transaction_type == TransactionType::ATR)
                    .flat_map(|t| t.from.iter().filter(|s| s.amount > 0).map(key_of))
                    .collect();
                for (sig, (inputs, _, _)) in pre.txs.iter() {
                    if !bs.contains(sig) {
                        let id = self.it.get(sig);
                        // the one exception of I4: the transaction spends an output that the
                        // block rebroadcasts (Block::create leaves it out; it is doomed)
                        if inputs.iter().any(|(k, a)| *a > 0 && rk.contains(k)) {
                            self.stat("bundle:left-out-rebroadcast-spender");
                            left_out_work = left_out_work.wrapping_add(pre.txs[sig].2);
                        } else {
                            self.finding(format!("I4: pooled transaction {} neither in the bundled block nor left in the pool", id), None);
                        }
                    }
                }
                for sig in post.txs.keys() {
                    if bs.contains(sig) {
                        let id = self.it.get(sig);
                        self.finding(format!("I4: bundled transaction {} is still in the pool", id), None);
                    }
                }
                // what Block::create adds itself is taken from the block for the model; check it
                // independently: a rebroadcast consumes a spendable output of block tip - gp
                for t in b.transactions.iter().filter(|t| t.transaction_type == TransactionType::ATR) {
                    for sl in t.from.iter().filter(|sl| sl.amount > 0) {
                        let spendable = self.node.blockchain.utxoset.get(&key_of(sl)).copied().unwrap_or(false);
                        if !spendable || sl.block_id + self.params.genesis_period != tip.id {
                            let k = self.it.get(&key_of(sl));
                            self.finding(
                                format!("I4: the bundled block rebroadcasts output {} of block {} (tip {}, genesis period {}, spendable {})", k, sl.block_id, tip.id, self.params.genesis_period, spendable),
                                None,
                            );
                        }
                    }
                }
                if gt_used.is_none() && b.transactions.iter().any(|t| t.transaction_type == TransactionType::GoldenTicket) {
                    self.finding("I4: the block carries a golden ticket that does not solve the tip".to_string(), None);
                }
            }
        }
        let _ = &atr_keys;
        self.check_invariants(kind, &pre, &post, &BTreeSet::new());
        let mut obs = vec![res_obs];
        obs.extend(self.observe(&post));
        self.record(
            coq,
            format!("bundle at +{}ms (env_ok={}, work_needed={}, gt={}) -> {}", gap, env_ok, work_needed, gt_tx.is_some(), if block.is_some() { "block" } else { "no block" }),
            obs,
        );
        let mut block = block?;
        if after == 1 {
            block.burnfee += 1;
            let sk = self.node.sk;
            resign(&mut block, &sk);
            Some(self.op_give_block(block, "bundled-then-corrupted", false).await)
        } else {
            // "yields a valid block": the node and the second node must accept it
            let _ = left_out_work;
            Some(self.op_give_block(block, "bundled", true).await)
        }
    }

    /// fork of two blocks from the parent of the tip: the first is added off the
    /// longest chain, the second reorganises
    async fn op_reorg(&mut self, txs1: Vec<Transaction>, txs2: Option<Vec<Transaction>>) -> bool {
        // chain of the node, genesis first
        let mut chain: Vec<Block> = vec![];
        let mut h = self.node.blockchain.get_latest_block_hash();
        while let Some(b) = self.node.blockchain.get_block(&h) {
            match self.given.get(&b.hash) {
                Some(g) => chain.push(g.clone()),
                None => return false,
            }
            h = b.previous_block_hash;
            if h == [0; 32] {
                break;
            }
        }
        chain.reverse();
        if chain.len() < 2 {
            return false;
        }
        let mut forker = Node::new(&self.params, BUILDER_KEY);
        for b in &chain[..chain.len() - 1] {
            let r = forker.add_block(b.clone()).await;
            if r != AddClass::OnChain {
                if self.debug { eprintln!("reorg: replay {:?}", r); }
                return false;
            }
        }
        let parent = chain[chain.len() - 2].clone();
        let tip = chain[chain.len() - 1].clone();
        self.nonce += 1;
        let gt1 = Ctx::needs_gt(&forker, parent.hash);
        let c1 = match make_block(&forker, parent.hash, tip.timestamp + 1000, txs1, gt1, self.nonce).await {
            Ok(b) => b,
            Err(e) => { if self.debug { eprintln!("reorg: c1 {}", e); } return false },
        };
        if forker.add_block(c1.clone()).await != AddClass::OnChain {
            if self.debug { eprintln!("reorg: c1 not on chain"); }
            return false;
        }
        let txs2 = match txs2 {
            Some(t) => t,
            None => {
                let r1 = self.op_give_block(c1, "fork-1", true).await;
                self.stat(&format!("offchain:{:?}", r1));
                return r1 == AddClass::OffChain;
            }
        };
        self.nonce += 1;
        let c2 = match make_block(&forker, c1.hash, c1.timestamp + GAP, txs2, true, self.nonce).await {
            Ok(b) => b,
            Err(e) => { if self.debug { eprintln!("reorg: c2 {}", e); } return false },
        };
        let r1 = self.op_give_block(c1, "fork-1", true).await;
        let r2 = self.op_give_block(c2, "fork-2", true).await;
        self.stat(&format!("reorg:{:?}/{:?}", r1, r2));
        r2 == AddClass::OnChain
    }
}

// ---------------------------------------------------------------- scenarios

fn pooled_clone(c: &Ctx, n: usize) -> Vec<Transaction> {
    let mut sigs: Vec<SaitoSignature> = c.node.mempool.transactions.keys().cloned().collect();
    sigs.sort();
    sigs.iter()
        .filter(|s| c.node.mempool.transactions[*s].transaction_type == TransactionType::Normal)
        .take(n)
        .map(|s| c.node.mempool.transactions[s].clone())
        .collect()
}

/// unspent outputs of one owner that no pooled transaction spends
fn unclaimed(c: &Ctx) -> Vec<Slip> {
    let claimed = c.snap().all_input_keys();
    c.free_outputs().into_iter().filter(|s| !claimed.contains(&key_of(s))).collect()
}

fn same_owner(v: &[Slip], n: usize, rng: &mut Rng) -> Vec<Slip> {
    if v.is_empty() {
        return vec![];
    }
    let first = v[rng.below(v.len() as u64) as usize].clone();
    let mut out = vec![first.clone()];
    for s in v {
        if out.len() >= n {
            break;
        }
        if s.public_key == first.public_key && key_of(s) != key_of(&first) {
            out.push(s.clone());
        }
    }
    out
}

async fn scripted(c: &mut Ctx, which: u64) {
    let mut rng = Rng::new(77 + which);
    let free = unclaimed(c);
    // owner with several outputs that is not the node's key (so hops carry work)
    let owner = c.keys[2].0;
    let mine: Vec<Slip> = free.iter().filter(|s| s.public_key == owner).cloned().collect();
    match which {
        // a peer block spends one of the two inputs of a pooled transaction: the
        // transaction is dropped, the reservation of its other input stays
        0 => {
            let a = c.build_tx(&mine[0..2], 50, 0, true);
            c.op_submit(a, "valid", true).await;
            let b = c.build_tx(&mine[0..1], 10, 1, false);
            c.op_peer_block(vec![b], false, false, "peer-conflicting").await;
            let f = c.build_tx(&mine[1..2], 10, 1, true);
            c.op_submit(f, "valid", true).await;
        }
        // a peer block confirms a pooled transaction, a reorganisation unwinds the
        // confirming block: the outputs are unspent again but stay reserved
        1 => {
            let a = c.build_tx(&mine[0..1], 50, 0, true);
            c.op_submit(a.clone(), "valid", true).await;
            c.op_peer_block(vec![a], false, false, "peer-confirming").await;
            let other: Vec<Slip> = free.iter().filter(|s| s.public_key == c.keys[3].0).cloned().collect();
            let t1 = c.build_tx(&other[0..1], 10, 0, false);
            let t2 = c.build_tx(&other[1..2], 10, 0, false);
            if c.op_reorg(vec![t1], Some(vec![t2])).await {
                let f = c.build_tx(&mine[0..1], 20, 1, true);
                c.op_submit(f, "valid", true).await;
            }
        }
        // a transaction naming the same input twice (pooled before fix 0fedb86 of
        // Transaction::validate; then Block::create fails after draining the pool)
        2 => {
            let a = c.build_tx(&mine[0..1], 50, 0, true);
            c.op_submit(a, "valid", true).await;
            let d = c.build_tx(&[mine[1].clone(), mine[1].clone()], 70, 0, true);
            c.op_submit(d, "repeated-input", false).await;
            c.op_bundle(GAP, 0).await;
            let f = c.build_tx(&mine[0..1], 20, 1, true);
            c.op_submit(f, "valid", true).await;
            let g = c.build_tx(&mine[2..3], 20, 1, true);
            c.op_submit(g, "valid", true).await;
        }
        // bundled block fails to be added: its transactions come back unreserved
        // and uncounted; a conflicting transaction is then admitted
        3 => {
            let a = c.build_tx(&mine[0..1], 50, 0, true);
            c.op_submit(a, "valid", true).await;
            c.op_bundle(GAP, 1).await;
            let b = c.build_tx(&mine[0..1], 30, 1, true);
            c.op_submit(b, "conflicting", false).await;
            // the pool now holds a double spend: Block::create fails after the drain
            c.op_bundle(GAP, 0).await;
            let f = c.build_tx(&mine[0..1], 20, 2, true);
            c.op_submit(f, "valid", true).await;
        }
        // a block off the longest chain contains a pooled transaction: the transaction is
        // deleted from the pool although nothing confirmed it, its input stays reserved
        4 => {
            let other: Vec<Slip> = free.iter().filter(|s| s.public_key == c.keys[3].0).cloned().collect();
            let t0 = c.build_tx(&other[0..1], 10, 0, false);
            c.op_peer_block(vec![t0], false, false, "peer-unrelated").await;
            let a = c.build_tx(&mine[0..1], 50, 0, true);
            c.op_submit(a.clone(), "valid", true).await;
            if c.op_reorg(vec![a], None).await {
                let f = c.build_tx(&mine[0..1], 20, 1, true);
                c.op_submit(f, "valid", true).await;
            }
        }
        // window edge (genesis period 5).  At tip 5 outputs of block 1 may still be spent
        // (age rule of Transaction::validate); transactions doing so are pooled, a peer block
        // moves the tip to 6: the revalidation drops them (they stayed pooled before the repair
        // of aged-tx-stays-pooled; the node's next block, 7, rebroadcasts what they spend).  6: one spends only such an output, another is unrelated (before 1214e31 the
        // whole pool was lost; now the unrelated one is bundled).  7: one spends such an output
        // AND a young output; the bundled block is corrupted so that its addition fails, then
        // the young output is spent by a fresh transaction (it stayed reserved before ffb4da9)
        6 | 7 => {
            let other: Vec<Slip> = free.iter().filter(|s| s.public_key == c.keys[3].0).cloned().collect();
            let gp = c.params.genesis_period;
            let mut k = 0;
            while c.tip().id < gp && k < other.len() {
                let t = c.build_tx(&other[k..k + 1], 10, 2, false);
                k += 1;
                c.op_peer_block(vec![t], false, false, "peer-unrelated").await;
            }
            let old: Vec<Slip> = unclaimed(c).into_iter().filter(|s| s.block_id == 1 && s.public_key == c.keys[2].0).collect();
            let young: Vec<Slip> = unclaimed(c).into_iter().filter(|s| s.block_id > 1 && s.public_key == c.keys[2].0).collect();
            if c.tip().id == gp && !old.is_empty() && young.len() >= 2 && k < other.len() {
                let unrelated = c.build_tx(&young[0..1], 5, 0, true);
                c.op_submit(unrelated, "valid", true).await;
                let edge = if which == 6 {
                    c.build_tx(&old[0..1], 20, 1, true)
                } else {
                    c.build_tx(&[old[0].clone(), young[1].clone()], 20, 1, true)
                };
                c.op_submit(edge, "valid-window-edge", true).await;
                let t = c.build_tx(&other[k..k + 1], 10, 2, false);
                c.op_peer_block(vec![t], false, false, "peer-unrelated").await;
                // a new arrival spending an output of block 1 is refused now
                if old.len() > 1 {
                    let late = c.build_tx(&old[1..2], 20, 1, true);
                    c.op_submit(late, "too-old-input", false).await;
                }
                let tip = c.tip();
                if Ctx::needs_gt(&c.node, tip.hash) {
                    c.op_add_gt(tip.hash, 900).await;
                }
                if which == 6 {
                    c.op_bundle(GAP, 0).await;
                } else {
                    c.op_bundle(GAP, 1).await;
                    let f = c.build_tx(&young[1..2], 7, 1, true);
                    c.op_submit(f, "valid", true).await;
                }
            }
        }
        // Block::create's double-spend detection and hand-back (block.rs) and bundle_block's
        // Err arm: two conflicting transactions are written straight into Mempool.transactions,
        // a third arrives normally; the bundle must fail and lose nothing; index and cache are
        // rebuilt; a peer block then confirms one of the pair
        9 => {
            let a = c.build_tx(&mine[0..1], 50, 0, true);
            let b = c.build_tx(&mine[0..1], 30, 1, true);
            c.inject(vec![a.clone(), b]);
            let t = c.build_tx(&mine[1..2], 20, 1, true);
            c.op_submit(t, "valid", true).await;
            c.op_bundle(GAP, 0).await;
            c.op_bundle(GAP, 0).await;
            c.op_peer_block(vec![a], false, false, "peer-confirming").await;
            c.op_bundle(GAP, 0).await;
        }
        // add_block_transactions_back's validate filter: a pooled transaction is evicted by a
        // peer block that spends one of its inputs; an invalid candidate of the node's own
        // making carries it together with a pooled one: only the latter may come back
        10 => {
            let a = c.build_tx(&mine[0..2], 50, 0, true);
            c.op_submit(a.clone(), "valid", true).await;
            let b = c.build_tx(&mine[0..1], 10, 1, false);
            c.op_peer_block(vec![b], false, false, "peer-conflicting").await;
            let t = c.build_tx(&mine[2..3], 20, 1, true);
            c.op_submit(t.clone(), "valid", true).await;
            let mut t2 = t.clone();
            t2.generate(&c.node.pk, 0, 0);
            c.op_own_invalid_candidate(vec![a, t2]).await;
        }
        // staking transactions from outside: one of another key (refused since 9879695), one
        // of the node's own key (taken), then a bundle
        11 => {
            let theirs: Vec<Slip> = free.iter().filter(|s| s.public_key == c.keys[3].0).cloned().collect();
            let ours: Vec<Slip> = free.iter().filter(|s| s.public_key == c.node.pk).cloned().collect();
            let f = c.build_stake_tx(&theirs[0..1], 1000);
            c.op_submit(f, "stake-foreign", false).await;
            let o = c.build_stake_tx(&ours[0..1], 1000);
            c.op_submit(o, "stake-own", false).await;
            let t = c.build_tx(&mine[0..1], 20, 1, true);
            c.op_submit(t, "valid", true).await;
            c.op_bundle(GAP, 0).await;
        }
        // transactions without value: the same zero-amount input in two transactions of one
        // sender is no conflict, a resubmission is stopped by the signature check only
        12 => {
            let d1 = c.build_data_tx(2, true);
            let d2 = c.build_data_tx(2, true);
            let d3 = c.build_data_tx(3, false);
            c.op_submit(d1.clone(), "data", true).await;
            c.op_submit(d2, "data", true).await;
            c.op_submit(d1, "data-duplicate", false).await;
            c.op_submit(d3, "data", true).await;
            c.op_bundle(GAP, 0).await;
        }
        // partial conflict: X = [s0] pooled, Y = [s1, s0] refused for s0 -- s1 must not stay
        // reserved: Z = [s1] is taken
        13 => {
            let x = c.build_tx(&mine[0..1], 50, 0, true);
            c.op_submit(x, "valid", true).await;
            let y = c.build_tx(&[mine[1].clone(), mine[0].clone()], 30, 1, true);
            c.op_submit(y, "conflicting", false).await;
            let z = c.build_tx(&mine[1..2], 20, 1, true);
            c.op_submit(z, "valid", true).await;
        }
        // plain life cycle: arrivals, conflict and duplicate rejected, bundle, peer block
        _ => {
            let a = c.build_tx(&mine[0..2], 50, 0, true);
            c.op_submit(a.clone(), "valid", true).await;
            let b = c.build_tx(&mine[1..2], 30, 1, true);
            c.op_submit(b, "conflicting", false).await;
            c.op_submit(a, "duplicate", false).await;
            c.op_bundle(GAP, 0).await;
            let d = c.build_tx(&mine[2..3], 30, 1, true);
            c.op_submit(d, "valid", true).await;
            let e = c.build_tx(&mine[3..4], 30, 1, false);
            c.op_peer_block(vec![e], true, false, "peer-unrelated").await;
            let _ = rng.next();
        }
    }
}

async fn random_case(c: &mut Ctx, rng: &mut Rng, len: usize) {
    let mut steps = 0;
    if rng.chance(1, 12) {
        // start from a pool with a double spend written into it
        let free = unclaimed(c);
        let ins = same_owner(&free, 1, rng);
        if !ins.is_empty() {
            let a = c.build_tx(&ins, 40, rng.below(4) as usize, rng.chance(1, 2));
            let b = c.build_tx(&ins, 25, rng.below(4) as usize, rng.chance(1, 2));
            c.inject(vec![a, b]);
        }
    }
    while c.ops.len() < len && steps < 3 * len {
        steps += 1;
        let r = rng.below(100);
        let free = unclaimed(c);
        let pooled = pooled_clone(c, 8);
        if r < 30 {
            // fresh valid transaction; prefers outputs under a stale reservation
            // prefers outputs that some transaction spent or reserved earlier in the case
            let touched: Vec<Slip> = free.iter().filter(|s| c.touched.contains(&key_of(s))).cloned().collect();
            let pick_from = if !touched.is_empty() && rng.chance(1, 2) { touched } else { free.clone() };
            let mut ins = same_owner(&pick_from, 1, rng);
            if ins.is_empty() {
                continue;
            }
            if rng.chance(1, 3) {
                let more = same_owner(&free.iter().filter(|s| s.public_key == ins[0].public_key && key_of(s) != key_of(&ins[0])).cloned().collect::<Vec<_>>(), 1, rng);
                ins.extend(more);
            }
            let fee = *rng.pick(&[0u64, 10, 50, 300]);
            let to = rng.below(4) as usize;
            let hop = rng.chance(3, 4);
            let tx = c.build_tx(&ins, fee, to, hop);
            c.op_submit(tx, "valid", true).await;
        } else if r < 40 {
            // conflicting: spends an input of a pooled transaction
            if pooled.is_empty() {
                continue;
            }
            let victim = rng.pick(&pooled).clone();
            let vin: Vec<Slip> = victim.from.iter().filter(|s| s.amount > 0).cloned().collect();
            if vin.is_empty() {
                continue;
            }
            let mut ins = vec![rng.pick(&vin).clone()];
            if rng.chance(1, 2) {
                let more: Vec<Slip> = free.iter().filter(|s| s.public_key == ins[0].public_key).cloned().collect();
                if !more.is_empty() {
                    ins.push(rng.pick(&more).clone());
                    // the reserved input first or last: a partial conflict must leave nothing behind
                    if rng.chance(1, 2) {
                        ins.reverse();
                    }
                }
            }
            let tx = c.build_tx(&ins, 20, rng.below(4) as usize, rng.chance(1, 2));
            c.op_submit(tx, "conflicting", false).await;
        } else if r < 46 {
            // a transaction without value, or a duplicate
            if rng.chance(1, 4) {
                let tx = c.build_data_tx(rng.below(4) as usize, rng.chance(1, 2));
                c.op_submit(tx, "data", true).await;
                continue;
            }
            // duplicate (same signature; sometimes with a different routing path)
            if pooled.is_empty() {
                continue;
            }
            let mut tx = rng.pick(&pooled).clone();
            if rng.chance(1, 3) {
                tx.path.clear();
            }
            c.op_submit(tx, "duplicate", false).await;
        } else if r < 52 {
            // invalid: unknown input / overspend / broken signature
            let ins = same_owner(&free, 1, rng);
            if ins.is_empty() {
                continue;
            }
            match rng.below(5) {
                4 => {
                    // staking transactions arriving from outside: of another key / the node's
                    let stake = *rng.pick(&[0u64, 500, 1_000_000_000]);
                    let tx = c.build_stake_tx(&ins, stake);
                    let label = if ins[0].public_key == c.node.pk { "stake-own" } else { "stake-foreign" };
                    c.op_submit(tx, label, false).await;
                }
                3 if rng.chance(1, 3) => {
                    // an issuance transaction arriving on a running chain (taken only while
                    // there is no chain at all)
                    c.nonce += 1;
                    let mut tx = Transaction::create_issuance_transaction(ins[0].public_key, 1000 + c.nonce);
                    tx.timestamp = 2_000_000 + c.nonce;
                    let sk = c.sk_of(&ins[0].public_key);
                    tx.sign(&sk);
                    c.op_submit(tx, "issuance-on-running-chain", false).await;
                }
                3 => {
                    // producer-only types arriving from outside
                    let mut tx = c.build_tx(&ins, 10, 0, false);
                    tx.transaction_type = *rng.pick(&[TransactionType::Fee, TransactionType::ATR, TransactionType::SPV]);
                    let sk = c.sk_of(&ins[0].public_key);
                    tx.sign(&sk);
                    c.op_submit(tx, "producer-only-type", false).await;
                }
                0 => {
                    let mut s = ins[0].clone();
                    s.tx_ordinal += 1000;
                    let tx = c.build_tx(&[s], 10, 0, false);
                    c.op_submit(tx, "unknown-input", false).await;
                }
                1 => {
                    let sk = c.sk_of(&ins[0].public_key);
                    c.nonce += 1;
                    let tx = make_tx(&ins, &[(c.keys[0].0, ins[0].amount + 5)], &sk, 2_000_000 + c.nonce);
                    c.op_submit(tx, "overspend", false).await;
                }
                _ => {
                    let mut tx = c.build_tx(&ins, 10, 0, false);
                    tx.signature[5] ^= 0x40;
                    c.op_submit(tx, "bad-signature", false).await;
                }
            }
        } else if r < 55 {
            // the same input twice in one transaction
            let ins = same_owner(&free, 1, rng);
            if ins.is_empty() {
                continue;
            }
            let tx = c.build_tx(&[ins[0].clone(), ins[0].clone()], 30, rng.below(4) as usize, rng.chance(1, 2));
            c.op_submit(tx, "repeated-input", false).await;
        } else if r < 60 {
            let tip = c.tip();
            let target = if rng.chance(4, 5) { tip.hash } else { tip.previous_block_hash };
            if target == [0; 32] {
                continue;
            }
            c.nonce += 1;
            let seed = c.nonce;
            if rng.chance(1, 3) && !c.node.mempool.golden_tickets.contains_key(&target) {
                if !c.op_add_bad_gt(target, seed).await {
                    c.op_add_gt(target, seed).await;
                }
            } else {
                c.op_add_gt(target, seed).await;
            }
        } else if r < 78 {
            // peer block: confirming / conflicting / unrelated, sometimes several transactions
            let mut txs = vec![];
            let mut label = "peer-unrelated";
            let mode = rng.below(4);
            if mode == 0 && !pooled.is_empty() {
                let n = 1 + rng.below(2) as usize;
                let mut seen = BTreeSet::new();
                for t in pooled.iter().take(n) {
                    // never put two pooled transactions that share an input into one block
                    if t.from.iter().all(|s| seen.insert(key_of(s))) {
                        txs.push(t.clone());
                    }
                }
                label = "peer-confirming";
            } else if mode == 1 && !pooled.is_empty() {
                let victim = rng.pick(&pooled).clone();
                let vin: Vec<Slip> = victim.from.iter().filter(|s| s.amount > 0).cloned().collect();
                if !vin.is_empty() {
                    let s = rng.pick(&vin).clone();
                    if c.node.blockchain.utxoset.get(&key_of(&s)).copied().unwrap_or(false) {
                        txs.push(c.build_tx(&[s], 10, rng.below(4) as usize, false));
                        label = "peer-conflicting";
                    }
                }
            }
            if txs.is_empty() || rng.chance(1, 3) {
                let ins = same_owner(&free, 1, rng);
                if !ins.is_empty() {
                    txs.push(c.build_tx(&ins, 10, rng.below(4) as usize, false));
                }
            }
            if txs.is_empty() {
                continue;
            }
            let gt = rng.chance(1, 3);
            c.op_peer_block(txs, gt, false, label).await;
        } else if r < 90 {
            // local bundle; make a golden ticket available when the chain needs one
            let tip = c.tip();
            if Ctx::needs_gt(&c.node, tip.hash) && !c.node.mempool.golden_tickets.contains_key(&tip.hash) && rng.chance(9, 10) {
                c.nonce += 1;
                let seed = c.nonce;
                c.op_add_gt(tip.hash, seed).await;
            }
            let gap = *rng.pick(&[GAP, GAP, GAP, 30_000, 9000, 6000, 5200, 150, 0]);
            let after = if rng.chance(1, 4) { 1 } else { 0 };
            c.op_bundle(gap, after).await;
        } else if r < 94 {
            // invalid candidate: from the peer, or of the node's own making
            if rng.chance(1, 2) {
                let mut txs = pooled_clone(c, 1);
                let ins = same_owner(&free, 1, rng);
                if !ins.is_empty() {
                    txs.push(c.build_tx(&ins, 10, 0, false));
                }
                if txs.is_empty() {
                    continue;
                }
                c.op_peer_block(txs, false, true, "peer-invalid").await;
            } else {
                let mut txs = pooled_clone(c, 2);
                if c.snap().has_dup_spend() {
                    continue;
                }
                // sometimes the candidate also carries a transaction that left the pool
                // through an earlier block (confirmed or invalidated): it must not come back
                if rng.chance(1, 2) {
                    if let Some(d) = c.dead_txs.last().cloned() {
                        let mut seen: BTreeSet<SaitoUTXOSetKey> = txs.iter().flat_map(|t| t.from.iter().map(key_of)).collect();
                        if d.from.iter().all(|s| seen.insert(key_of(s))) {
                            txs.push(d);
                            c.stat("own-invalid:carries-dead-tx");
                        }
                    }
                }
                if txs.is_empty() {
                    continue;
                }
                c.op_own_invalid_candidate(txs).await;
            }
        } else {
            // reorganisation by a two-block fork; its transactions spend outputs that
            // already exist at the fork point
            let tip_id = c.tip().id;
            let free: Vec<Slip> = free.into_iter().filter(|s| s.block_id < tip_id).collect();
            let ins1 = same_owner(&free, 1, rng);
            if ins1.is_empty() {
                continue;
            }
            let rest: Vec<Slip> = free.iter().filter(|s| key_of(s) != key_of(&ins1[0])).cloned().collect();
            let ins2 = same_owner(&rest, 1, rng);
            if ins2.is_empty() {
                continue;
            }
            let mut txs1 = vec![c.build_tx(&ins1, 10, rng.below(4) as usize, false)];
            let t2 = c.build_tx(&ins2, 10, rng.below(4) as usize, false);
            if rng.chance(1, 3) {
                // the fork carries a pooled transaction whose inputs exist at the fork point
                for t in pooled.iter().take(1) {
                    if t.from.iter().all(|s| s.block_id < tip_id && key_of(s) != key_of(&ins1[0]) && key_of(s) != key_of(&ins2[0]))
                        && t.from.iter().map(key_of).collect::<BTreeSet<_>>().len() == t.from.len()
                    {
                        txs1.push(t.clone());
                    }
                }
            }
            let second = if rng.chance(1, 4) { None } else { Some(vec![t2]) };
            c.op_reorg(txs1, second).await;
        }
    }
}

struct CaseOut {
    coq: String,
    desc: String,
    findings: Vec<(String, Option<Class>)>,
    stats: BTreeMap<String, u64>,
    nontrivial: bool,
    nops: usize,
}

async fn run_case(kind: u64, seed: u64, len: usize, debug: bool) -> CaseOut {
    let mut rng = Rng::new(seed);
    // a long heartbeat keeps the burn-fee curve above zero for 20 s, so that
    // can_bundle_block's work comparison matters
    let heartbeat = if kind >= 100 && rng.chance(1, 2) { 10_000 } else { 100 };
    // a short window brings rebroadcasts (ATR) into reach of a short case
    let genesis_period = if kind == 6 || kind == 7 || (kind >= 100 && rng.chance(1, 4)) { 5 } else { 100 };
    let mut c = Ctx::new(debug, heartbeat, genesis_period).await;
    if kind < 100 {
        scripted(&mut c, kind).await;
    } else {
        random_case(&mut c, &mut rng, len).await;
    }
    let exp = gal::nlllist(&c.exp);
    let coq = format!(
        "(({}, {}), {}, {}, {})",
        gal::nlist(&c.genesis_ledger),
        c.params.genesis_period,
        c.initial_pool,
        gal::list(&c.ops),
        exp
    );
    let desc = format!(
        "{{\"kind\": {}, \"seed\": {}, \"ops\": [{}]}}",
        if kind < 100 { format!("\"scripted-{}\"", kind) } else { "\"random\"".to_string() },
        seed,
        c.descs.iter().map(|d| jstr(d)).collect::<Vec<_>>().join(", ")
    );
    CaseOut {
        coq,
        desc,
        findings: c.findings.clone(),
        stats: c.stats.clone(),
        nontrivial: c.pooled_ever && c.block_with_pool,
        nops: c.ops.len(),
    }
}

fn main() {
    verif_harness::common::init_log();
    let args = Args::parse();
    let debug = std::env::var("C14_DEBUG").is_ok();
    let mut summary = Summary::new("C14");
    let mut rng = Rng::new(args.seed);
    let nrandom: u64 = match std::env::var("C14_CASES") {
        Ok(v) => v.parse().unwrap(),
        Err(_) => {
            if args.tier == "thorough" {
                12000
            } else {
                1500
            }
        }
    };
    let mut plan: Vec<(u64, u64, usize)> = (0..15u64).map(|k| (k, 0, 0)).collect();
    for _ in 0..nrandom {
        let len = rng.range(6, 22) as usize;
        plan.push((100, rng.next(), len));
    }
    let rt = tokio::runtime::Builder::new_current_thread().enable_all().build().unwrap();
    let mut coq_cases = vec![];
    let mut distinct = BTreeSet::new();
    if !debug {
        std::panic::set_hook(Box::new(|_| {}));
    }
    let only: Option<usize> = std::env::var("C14_ONLY").ok().map(|v| v.parse().unwrap());
    for (idx, (kind, seed, len)) in plan.iter().enumerate() {
        if only.is_some() && only != Some(idx) {
            continue;
        }
        let out = catch_unwind(AssertUnwindSafe(|| rt.block_on(run_case(*kind, *seed, *len, debug))));
        match out {
            Ok(o) => {
                for (k, v) in &o.stats {
                    for _ in 0..*v {
                        summary.count("event", k);
                    }
                }
                summary.count("ops_per_case", &format!("{:02}", (o.nops / 5) * 5));
                let mut seen_known = BTreeSet::new();
                for (what, class) in &o.findings {
                    match class {
                        Some(cl) => {
                            summary.count("known_class", cl.id());
                            if seen_known.insert((cl.id(), what.split(':').next().unwrap_or("").to_string())) {
                                summary.known_hit(cl.id(), idx, what);
                            }
                        }
                        None => summary.oracle_failure(idx, what, &o.desc),
                    }
                }
                if o.nontrivial && distinct.insert(o.coq.clone()) {
                    summary.nontrivial += 1;
                }
                if summary.samples.len() < 4 && o.nops > 3 {
                    summary.samples.push(o.desc.clone());
                }
                summary.case_descs.push(o.desc);
                coq_cases.push(o.coq);
            }
            Err(e) => {
                let msg = e
                    .downcast_ref::<String>()
                    .cloned()
                    .or_else(|| e.downcast_ref::<&str>().map(|s| s.to_string()))
                    .unwrap_or_default();
                if debug { eprintln!("PANIC in case {}: {}", idx, msg); }
                let desc = format!("{{\"kind\": {}, \"seed\": {}, \"panic\": {}}}", kind, seed, jstr(&msg));
                summary.oracle_failure(idx, &format!("panic while running the case: {}", msg), &desc);
                summary.case_descs.push(desc);
                coq_cases.push("(([], 1), empty_pool, [], [])".to_string());
            }
        }
        summary.evaluations += 1;
    }
    // a case: ((spendable keys after genesis, genesis period), initial pool, operations,
    // expected trace); the genesis block has id 1; the initial pool is empty_pool unless the
    // harness wrote transactions straight into Mempool.transactions before the first operation
    let header = "From Saito Require Import Base Mempool.\n\
        Definition check (c : (list N * N) * pool * list op * list (list (list N))) : bool :=\n\
        let '((g, gp), p0, ops, expected) := c in eqb_lllN (trace (mkS p0 (mkC g 1 gp)) ops) expected.";
    let files = gal::write_shards(
        &format!("{}/cases", args.out),
        "C14",
        header,
        "(list N * N) * pool * list op * list (list (list N))",
        &coq_cases,
        args.shards,
    )
    .unwrap();
    summary.case_files = files;
    summary.write(&args.out);
}
