//! C15 — a node that syncs from a peer converges to the peer's chain.
//!
//! Part 1 (fork id): real `Blockchain::generate_fork_id` /
//! `generate_last_shared_ancestor` on (a) chains built with the real producer and
//! (b) real `Blockchain` objects whose by-height index is filled with synthetic
//! (id, hash) chains, compared with the Coq model (`ForkId.v`) and with the true
//! fork point (direct oracle).
//!
//! Part 2 (protocol): two real in-process nodes A (syncing) and B (honest, longer
//! chain), each with the real `RoutingThread`, `VerificationThread`(s) and
//! `ConsensusThread` objects, wired by the harness: network messages, block
//! fetches, inter-thread channel events and timer ticks are delivered one at a
//! time in an order chosen by the harness scheduler (bounded exhaustive DFS for
//! small cases, PRNG otherwise).  Oracle: A ends on B's tip whenever feeding B's
//! blocks in order to a copy of A reaches B's tip; every needed block requested.
use std::collections::{BTreeMap, BTreeSet, VecDeque};
use std::panic::AssertUnwindSafe;
use std::sync::atomic::{AtomicU64, Ordering};
use std::sync::{Arc, Mutex};
use std::time::Duration;

use saito_core::core::consensus::block::Block;
use saito_core::core::consensus::blockchain::Blockchain;
use saito_core::core::consensus::blockchain_sync_state::BlockchainSyncState;
use saito_core::core::consensus::mempool::Mempool;
use saito_core::core::consensus::peers::peer_collection::PeerCollection;
use saito_core::core::consensus::slip::Slip;
use saito_core::core::consensus::wallet::Wallet;
use saito_core::core::consensus_thread::{ConsensusEvent, ConsensusStats, ConsensusThread};
use saito_core::core::defs::{SaitoHash, StatVariable, STAT_BIN_COUNT};
use saito_core::core::io::network::Network;
use saito_core::core::io::network_event::NetworkEvent;
use saito_core::core::io::storage::Storage;
use saito_core::core::mining_thread::MiningEvent;
use saito_core::core::msg::message::Message;
use saito_core::core::process::keep_time::{KeepTime, Timer};
use saito_core::core::process::process_event::ProcessEvent;
use saito_core::core::routing_thread::{RoutingEvent, RoutingStats, RoutingThread};
use saito_core::core::util::configuration::{Configuration, PeerConfig};
use saito_core::core::verification_thread::{VerificationThread, VerifyRequest};
use tokio::sync::mpsc::Receiver;
use tokio::sync::RwLock;
use verif_harness::chainsim::{futures_catch, params};
use verif_harness::common::{Args, Summary};
use verif_harness::gal;
use verif_harness::rng::Rng;
use verif_harness::world::*;

// =====================================================================================
// real chains
// =====================================================================================

/// a chain built with the real producer: blocks[i] has id i+1; spends[i] = outputs a
/// child of blocks[i] may spend (the running transfer)
#[derive(Clone)]
struct Built {
    blocks: Vec<Block>,
    spends: Vec<Vec<Slip>>,
}

/// loads `base.blocks[..upto]` into a fresh producer node and appends `extra` blocks
/// with inter-block time `dt` (different `dt` / `salt` give different hashes)
async fn extend(gp: u64, base: &Built, upto: usize, extra: usize, dt: u64, salt: u64) -> Option<Built> {
    extend_opt(gp, base, upto, extra, dt, salt, 0).await
}

/// `pay_a_every` > 0: every such block's transfer also pays 1 to node A's key (key 2), so
/// that a lite node A has transactions of its own in those blocks
async fn extend_opt(gp: u64, base: &Built, upto: usize, extra: usize, dt: u64, salt: u64, pay_a_every: usize) -> Option<Built> {
    let mut node = Node::new(&params(gp, false), 1);
    let mut out = Built { blocks: base.blocks[..upto].to_vec(), spends: base.spends[..upto].to_vec() };
    for b in &out.blocks {
        if node.add_block(b.clone()).await != AddClass::OnChain {
            return None;
        }
    }
    for _k in 0..extra {
        let n = out.blocks.len();
        let b = if n == 0 {
            make_genesis(&node, 1_000_000 + salt, &[(node.pk, 1_000_000), (node.pk, 1_000_000 + salt)])
                .await
                .ok()?
        } else {
            let parent = &out.blocks[n - 1];
            let ts = parent.timestamp + dt;
            let spend = &out.spends[n - 1];
            let tx = if pay_a_every > 0 && n % pay_a_every == 0 && spend[0].amount > 10 {
                make_tx(&spend[0..1], &[(node.pk, spend[0].amount - 1), (keypair(2).0, 1)], &node.sk, ts)
            } else {
                make_tx(&spend[0..1], &[(node.pk, spend[0].amount)], &node.sk, ts)
            };
            // a golden ticket in every second block keeps the difficulty flat and the
            // 2-of-6 density satisfied
            make_block(&node, parent.hash, ts, vec![tx], n % 2 == 1, salt * 1000 + n as u64)
                .await
                .ok()?
        };
        if node.add_block(b.clone()).await != AddClass::OnChain {
            return None;
        }
        let idx = b.transactions.iter().position(|t| t.transaction_type as u8 == 0 && !t.from.is_empty());
        let spend = match idx {
            Some(i) => outputs_of(&b, i),
            None => outputs_of(&b, 0),
        };
        out.spends.push(spend);
        out.blocks.push(b);
    }
    Some(out)
}

fn windows(h: &SaitoHash) -> Vec<u64> {
    (0..16).map(|i| ((h[2 * i] as u64) << 8) | h[2 * i + 1] as u64).collect()
}

/// the protocol constant (copy used by the direct oracle only)
const WEIGHTS: [u64; 16] = [0, 10, 10, 10, 10, 10, 25, 25, 100, 300, 500, 4000, 10000, 20000, 50000, 100000];

/// by-height index as the functions see it
fn index_of(bc: &Blockchain, lo: u64, hi: u64) -> BTreeMap<u64, SaitoHash> {
    let mut m = BTreeMap::new();
    for id in lo..=hi {
        if let Some(h) = bc.blockring.get_longest_chain_block_hash_at_block_id(id) {
            m.insert(id, h);
        }
    }
    m
}

#[derive(Clone)]
struct View {
    latest: u64,
    index: BTreeMap<u64, SaitoHash>,
    fid: SaitoHash,
    /// None = explicit index (table case); Some = arithmetic description
    synth: Option<(u64, u64, u64, u64, u64)>,
}

fn segs_gallina(index: &BTreeMap<u64, SaitoHash>, intern: &mut BTreeMap<SaitoHash, u64>, rows: &mut Vec<Vec<u64>>) -> String {
    let mut segs: Vec<(u64, Vec<u64>)> = vec![];
    for (id, h) in index {
        let k = match intern.get(h) {
            Some(k) => *k,
            None => {
                let k = rows.len() as u64;
                intern.insert(*h, k);
                rows.push(windows(h));
                k
            }
        };
        match segs.last_mut() {
            Some((s, v)) if *s + v.len() as u64 == *id => v.push(k),
            _ => segs.push((*id, vec![k])),
        }
    }
    gal::list(&segs.iter().map(|(s, v)| format!("({}, {})", s, gal::nlist(v))).collect::<Vec<_>>())
}

fn view_gallina(v: &View, intern: &mut BTreeMap<SaitoHash, u64>, rows: &mut Vec<Vec<u64>>) -> String {
    match v.synth {
        Some((lo, fork, tip, f, g)) => format!("([], [({}, {}, {}, {}, {})])", lo, fork, tip, f, g),
        None => format!("({}, [])", segs_gallina(&v.index, intern, rows)),
    }
}

struct FidOutcome {
    est: u64,
    fork_point: u64,
    collision: bool,
    failures: Vec<String>,
    aligned: bool,
    imprecise: bool,
}

/// direct oracle for one (mine, peer) pair; `est` is what the real function answered
fn judge(mine: &View, peer: &View, est: u64) -> FidOutcome {
    let mut fp = 0;
    for (id, h) in &mine.index {
        if peer.index.get(id) == Some(h) {
            fp = fp.max(*id);
        }
    }
    let fidw = windows(&peer.fid);
    let behind = peer.latest < mine.latest;
    let start = if behind { peer.latest - peer.latest % 10 } else { mine.latest - mine.latest % 10 };
    let mut positions = vec![];
    let mut s = 0u64;
    for (i, w) in WEIGHTS.iter().enumerate() {
        s += w;
        if s > start {
            break;
        }
        positions.push((i, start - s));
    }
    let mut failures = vec![];
    let mut collision = false;
    if est > fp {
        // only a 16-bit window collision at a visited position explains this
        for (i, p) in &positions {
            if *p == est {
                if let Some(h) = mine.index.get(p) {
                    if windows(h)[*i] == fidw[*i] {
                        collision = true;
                    }
                }
            }
        }
        if !collision {
            failures.push(format!(
                "ancestor estimate {} is later than the true fork point {} and no 16-bit window collision explains it",
                est, fp
            ));
        }
    }
    // needed blocks (held by mine above the fork point) lie in the streamed range
    for (id, _) in mine.index.range(fp + 1..) {
        if *id < est && !collision {
            failures.push(format!("needed block id {} lies below the streamed range (estimate {})", id, est));
            break;
        }
    }
    // precision in the aligned branch: highest visited checkpoint the peer sampled where both agree
    let mut imprecise = false;
    if behind {
        let pstart = peer.latest - peer.latest % 10;
        let mut s = 0u64;
        let mut cur = pstart;
        for (i, w) in WEIGHTS.iter().enumerate() {
            if cur <= *w {
                break;
            }
            cur -= w;
            s += w;
            let _ = s;
            match peer.index.get(&cur) {
                Some(h) => {
                    if mine.index.get(&cur) == Some(h) {
                        if est < cur {
                            imprecise = true;
                        }
                        break;
                    }
                    let _ = i;
                }
                None => break,
            }
        }
    }
    FidOutcome { est, fork_point: fp, collision, failures, aligned: behind, imprecise }
}

fn synth_hash(fam: u64, id: u64) -> SaitoHash {
    let k = (fam << 32) + id;
    let mut h = [0u8; 32];
    for i in 0..16u64 {
        // Coq: synth_window i k = (k * 40503 + i * 9973 + (k / 2^32) * 7) mod 65536
        let w = ((k as u128 * 40503 + i as u128 * 9973 + (k >> 32) as u128 * 7) % 65536) as u64;
        h[2 * i as usize] = (w >> 8) as u8;
        h[2 * i as usize + 1] = (w & 255) as u8;
    }
    h
}

/// a real Blockchain whose by-height index holds ids lo..=tip: family f up to `fork`, g above.
/// `via_ghost`: through the public lite-client entry point add_ghost_block, else through
/// the public BlockRing calls add_ghost_block itself makes.
fn synth_blockchain(gp: u64, lo: u64, fork: u64, tip: u64, f: u64, g: u64, via_ghost: bool) -> Blockchain {
    let (pk, sk) = keypair(1);
    let wallet = Arc::new(RwLock::new(Wallet::new(sk, pk)));
    let mut bc = Blockchain::new(wallet, gp, 0, 60);
    let mut prev = [0u8; 32];
    for id in lo..=tip {
        let h = synth_hash(if id <= fork { f } else { g }, id);
        if via_ghost {
            bc.add_ghost_block(id, prev, id * 1000, [0; 32], false, h);
        } else {
            let mut b = Block::new();
            b.id = id;
            b.hash = h;
            bc.blockring.add_block(&b);
            bc.blockring.on_chain_reorganization(id, h, true);
        }
        prev = h;
    }
    bc
}

struct Part1 {
    /// (case number, Gallina case)
    coq_cases: Vec<(usize, String)>,
}

const CASE_TYPE: &str = "list (list N) * (list (N * list N) * list (N * N * N * N * N)) * N * (list (N * list N) * list (N * N * N * N * N)) * N * list N * N";

fn coq_header() -> String {
    "From Saito Require Import Base ForkId.\n\
     Definition lookup_of (d : list (N * list N) * list (N * N * N * N * N)) : N -> option N :=\n\
       match snd d with\n\
       | (lo, fork, tip, f, g) :: _ => synth_lookup (mkSC lo fork tip f g)\n\
       | [] => seg_lookup (fst d)\n\
       end.\n\
     Definition check (c : list (list N) * (list (N * list N) * list (N * N * N * N * N)) * N * (list (N * list N) * list (N * N * N * N * N)) * N * list N * N) : bool :=\n\
       let '(table, peerd, peer_latest, mined, my_latest, fid, est) := c in\n\
       eqb_lN (generate_fork_id FORK_ID_WEIGHTS (table_h16 table) (lookup_of peerd) peer_latest) fid\n\
       && (generate_last_shared_ancestor FORK_ID_WEIGHTS (table_h16 table) (lookup_of mined) my_latest peer_latest fid =? est)."
        .to_string()
}

fn coq_case(mine: &View, peer: &View, est: u64) -> String {
    let mut intern = BTreeMap::new();
    let mut rows: Vec<Vec<u64>> = vec![vec![0; 16]];
    let explicit = mine.synth.is_none() || peer.synth.is_none();
    let (mine, peer) = if explicit {
        // one window table per case: never mix table rows with arithmetic identities
        (View { synth: None, ..mine.clone() }, View { synth: None, ..peer.clone() })
    } else {
        (mine.clone(), peer.clone())
    };
    let (mine, peer) = (&mine, &peer);
    let pd = view_gallina(peer, &mut intern, &mut rows);
    let md = view_gallina(mine, &mut intern, &mut rows);
    let table = if explicit { gal::nllist(&rows) } else { "[]".to_string() };
    format!(
        "({}, {}, {}, {}, {}, {}, {})",
        table,
        pd,
        peer.latest,
        md,
        mine.latest,
        gal::nlist(&windows(&peer.fid)),
        est
    )
}

fn real_view(bc: &Blockchain) -> View {
    let latest = bc.get_latest_block_id();
    View {
        latest,
        index: index_of(bc, 0, latest + 1),
        fid: bc.generate_fork_id(latest).unwrap_or([0; 32]),
        synth: None,
    }
}

/// records a judged pair: summary counters, oracle failures, optionally a Coq case
#[allow(clippy::too_many_arguments)]
fn record_pair(
    summary: &mut Summary,
    p1: &mut Part1,
    distinct: &mut BTreeSet<String>,
    kind: &str,
    desc: String,
    mine: &View,
    peer: &View,
    est: u64,
    to_coq: bool,
) {
    let case_no = summary.case_descs.len();
    let o = judge(mine, peer, est);
    for f in &o.failures {
        summary.oracle_failure(case_no, f, &desc);
    }
    summary.count("p1_kind", kind);
    summary.count("p1_branch", if o.aligned { "peer-behind" } else { "peer-ahead-or-equal" });
    summary.count(
        "p1_estimate",
        if o.collision {
            "window-collision"
        } else if o.est == 0 && o.fork_point == 0 {
            "0=fork-point-0"
        } else if o.est == 0 {
            "0<fork-point"
        } else if o.est == o.fork_point {
            "=fork-point"
        } else {
            "<fork-point"
        },
    );
    if o.imprecise {
        summary.count("p1_imprecise", "estimate below highest shared checkpoint");
    }
    let sampled = windows(&peer.fid).iter().filter(|w| **w != 0).count();
    summary.count("p1_fork_id_entries_set", &format!("{}", sampled));
    if to_coq {
        p1.coq_cases.push((case_no, coq_case(mine, peer, est)));
    }
    // non-trivial: the peer's fork id has at least one entry set and the chains differ
    if sampled > 0 && mine.index != peer.index && distinct.insert(desc.clone()) {
        summary.nontrivial += 1;
    }
    if summary.samples.len() < 2 && o.est > 0 && o.est < mine.latest {
        summary.samples.push(desc.clone());
    }
    summary.case_descs.push(desc);
}

async fn part1(args: &Args, rng: &mut Rng, summary: &mut Summary, distinct: &mut BTreeSet<String>) -> Part1 {
    let thorough = args.tier == "thorough";
    let mut p1 = Part1 { coq_cases: vec![] };

    // ---- (a) chains built with the real producer ----
    // gp 60: nothing pruned up to 60 blocks; gp 12: pruning / purging visible
    let plans: Vec<(u64, usize)> = if thorough { vec![(60, 118), (12, 70), (200, 230)] } else { vec![(60, 78), (12, 47)] };
    for (gp, n) in plans {
        progress(&format!("part1 real gp {} n {}", gp, n));
        let empty = Built { blocks: vec![], spends: vec![] };
        let main = extend(gp, &empty, 0, n, 300, 0).await.expect("main chain");
        // forks: depths around the checkpoints and elsewhere, suffix lengths short / long
        let mut forks: Vec<(usize, Built)> = vec![];
        let mut depths: Vec<usize> = vec![0, 1, 2, 9, 10, 11, 19, 20, 21, 29, 30, 35, 40, 41, 50, 59, 60, 69, 70];
        if thorough {
            depths.extend([5, 15, 25, 45, 75, 80, 90, 99, 100, 101, 110]);
        }
        for (j, d) in depths.iter().enumerate() {
            if *d >= n {
                continue;
            }
            let max_s = (n - d + 12).min(if thorough { 80 } else { 45 });
            let s = match j % 4 {
                0 => 1 + rng.below(3) as usize,
                1 => rng.range(4, 14) as usize,
                2 => rng.range(10, max_s.max(11) as u64) as usize,
                _ => max_s,
            };
            if let Some(f) = extend(gp, &main, *d, s, 200 + 100 * (j as u64 % 3) + 1000 * (j as u64 % 2), 7 + j as u64).await {
                forks.push((*d, f));
            }
        }
        // every chain grown step by step in a real node; a view (latest, index, fork id) per length
        let mut chains: Vec<(String, usize, &Built)> = vec![("main".to_string(), n, &main)];
        for (d, f) in &forks {
            chains.push((format!("fork@{}+{}", d, f.blocks.len() - d), *d, f));
        }
        let mut views: Vec<Vec<View>> = vec![];
        let mut nodes: Vec<Node> = vec![];
        for (_, _, c) in &chains {
            let mut node = Node::new(&params(gp, false), 1);
            let mut vs = vec![real_view(&node.blockchain)];
            for b in &c.blocks {
                node.add_block(b.clone()).await;
                vs.push(real_view(&node.blockchain));
            }
            views.push(vs);
            nodes.push(node);
        }
        // queries need a live object per `mine` length: regrow each chain and ask
        let per_len = if thorough { 10 } else { 5 };
        for (ci, (cname, _, c)) in chains.iter().enumerate() {
            let mut node = Node::new(&params(gp, false), 1);
            for len in 0..=c.blocks.len() {
                if len > 0 {
                    node.add_block(c.blocks[len - 1].clone()).await;
                }
                let mine = &views[ci][len];
                for _ in 0..per_len {
                    let cj = if rng.chance(1, 2) { 0 } else { rng.below(chains.len() as u64) as usize };
                    let plen = match rng.below(4) {
                        0 => len.min(views[cj].len() - 1),
                        1 => (len + 10 - len % 10).min(views[cj].len() - 1),
                        _ => rng.below(views[cj].len() as u64) as usize,
                    };
                    let peer = &views[cj][plen];
                    let est = node.blockchain.generate_last_shared_ancestor(peer.latest, peer.fid);
                    // the fork id the real node would send is generate_fork_id(latest): also
                    // check the stored field against it where the code keeps one
                    let desc = format!(
                        "{{\"part\":1,\"kind\":\"real\",\"genesis_period\":{},\"mine\":\"{} len {}\",\"peer\":\"{} len {}\",\"estimate\":{}}}",
                        gp, cname, len, chains[cj].0, plen, est
                    );
                    // the Coq model is evaluated on a sample of the real-chain pairs (each case carries the
                    // window table of every block of both chains); the direct oracle runs on all
                    // (larger tables are sampled more thinly: the case files stay near 1 MB per shard)
                    let den = (if thorough { 10 } else { 12 }) * (1 + (mine.index.len() + peer.index.len()) as u64 / 100);
                    let to_coq = rng.chance(1, den);
                    record_pair(summary, &mut p1, distinct, &format!("real gp{}", gp), desc, mine, peer, est, to_coq);
                }
            }
        }
        drop(nodes);
    }

    progress("part1 synthetic");
    // ---- (b) synthetic (id, hash) chains in real Blockchain objects ----
    let n_synth = if thorough { 6000 } else { 1500 };
    for k in 0..n_synth {
        let (gp, max_tip) = match k % 10 {
            0..=5 => (150u64, 140u64),
            6..=8 => (1500, 2600),
            _ => (4000, 7900),
        };
        let tip_m = rng.range(0, max_tip);
        let tip_p = match rng.below(5) {
            0 => tip_m,
            1 => tip_m.saturating_sub(rng.below(12)),
            2 => (tip_m + rng.below(12)).min(max_tip),
            _ => rng.range(0, max_tip),
        };
        let lo_m = if rng.chance(1, 4) { rng.range(1, tip_m.max(1)) } else { 1 };
        let lo_p = if rng.chance(1, 4) { rng.range(1, tip_p.max(1)) } else { 1 };
        // ring holds 2*gp ids: keep the visible span inside it
        let lo_m = lo_m.max(tip_m.saturating_sub(2 * gp - 2)).max(1);
        let lo_p = lo_p.max(tip_p.saturating_sub(2 * gp - 2)).max(1);
        let fork = match rng.below(6) {
            0 => 0,
            1 => tip_m.min(tip_p),
            2 => {
                let b = tip_m.min(tip_p);
                (b - b % 10).saturating_sub(*rng.pick(&[0u64, 1, 9, 10, 11, 50, 51, 100]))
            }
            _ => rng.range(0, tip_m.min(tip_p).max(1)),
        };
        let via_ghost = k % 7 == 0 && max_tip < 200;
        let mine_bc = synth_blockchain(gp, lo_m, fork, tip_m, 1, 2, via_ghost);
        let peer_bc = synth_blockchain(gp, lo_p, fork, tip_p, 1, 3, via_ghost);
        let mut mine = real_view(&mine_bc);
        let mut peer = real_view(&peer_bc);
        // (an empty chain is the arithmetic chain with lo > tip)
        mine.synth = Some((lo_m, fork, tip_m, 1, 2));
        peer.synth = Some((lo_p, fork, tip_p, 1, 3));
        let est = mine_bc.generate_last_shared_ancestor(peer.latest, peer.fid);
        let desc = format!(
            "{{\"part\":1,\"kind\":\"synthetic\",\"genesis_period\":{},\"mine\":{{\"ids\":[{},{}],\"family\":[1,2]}},\"peer\":{{\"ids\":[{},{}],\"family\":[1,3]}},\"families_fork_after_id\":{},\"estimate\":{}}}",
            gp, lo_m, tip_m, lo_p, tip_p, fork, est
        );
        record_pair(summary, &mut p1, distinct, "synthetic", desc, &mine, &peer, est, true);
    }
    // deliberate 16-bit window collisions (the hypothesis NoWindowCollision is needed):
    // mine holds another block at a sampled height whose window equals the peer's
    for k in 0..(if thorough { 80u64 } else { 24 }) {
        // odd k: only the FIRST byte of the window coincides - not a collision of the 16-bit
        // window, the estimate must stay at or below the fork point
        let half = k % 2 == 1;
        let gp = 150u64;
        let tip_p = 20 + 10 * (k % 6) + rng.below(10);
        let tip_m = tip_p + 1 + rng.below(30);
        let fork = rng.below(tip_p - tip_p % 10);
        let base = tip_p - tip_p % 10;
        // index i of the sample at which the collision is planted
        let samples: Vec<(usize, u64)> = {
            let mut v = vec![];
            let mut cur = base;
            for (i, w) in WEIGHTS.iter().enumerate() {
                if cur <= *w {
                    break;
                }
                cur -= w;
                v.push((i, cur));
            }
            v
        };
        let above: Vec<&(usize, u64)> = samples.iter().filter(|(_, id)| *id > fork).collect();
        if above.is_empty() {
            continue;
        }
        let (ci, cid) = **rng.pick(&above);
        let (pk, sk) = keypair(1);
        let mk = |tip: u64, fam: u64, collide: bool| -> Blockchain {
            let wallet = Arc::new(RwLock::new(Wallet::new(sk, pk)));
            let mut bc = Blockchain::new(wallet, gp, 0, 60);
            for id in 1..=tip {
                let mut h = synth_hash(if id <= fork { 1 } else { fam }, id);
                if collide && id == cid {
                    let other = synth_hash(3, id);
                    h[2 * ci] = other[2 * ci];
                    h[2 * ci + 1] = if half { other[2 * ci + 1] ^ 0x5a } else { other[2 * ci + 1] };
                }
                let mut b = Block::new();
                b.id = id;
                b.hash = h;
                bc.blockring.add_block(&b);
                bc.blockring.on_chain_reorganization(id, h, true);
            }
            bc
        };
        let mine_bc = mk(tip_m, 2, true);
        let peer_bc = mk(tip_p, 3, false);
        let mine = real_view(&mine_bc);
        let peer = real_view(&peer_bc);
        let est = mine_bc.generate_last_shared_ancestor(peer.latest, peer.fid);
        let desc = format!(
            "{{\"part\":1,\"kind\":\"{}\",\"mine_tip\":{},\"peer_tip\":{},\"families_fork_after_id\":{},\"collision_at_id\":{},\"window\":{},\"estimate\":{}}}",
            if half { "planted-first-byte-only" } else { "planted-collision" },
            tip_m, tip_p, fork, cid, ci, est
        );
        record_pair(summary, &mut p1, distinct, if half { "planted-first-byte-only" } else { "planted-collision" }, desc, &mine, &peer, est, true);
    }
    progress("part1 deep");
    // one deep pair reaching every weight of the table (ring of 400_000 slots)
    {
        let gp = 200_000u64;
        let tip_m = 185_137u64;
        let tip_p = 185_019u64;
        // (second half: roles swapped, so that the peer-ahead branch walks all 16 weights too)
        for (fork, swap) in [(0u64, false), (12_000, false), (185_000, false), (0, true), (12_000, true), (185_000, true)] {
            let (tip_m, tip_p) = if swap { (tip_p, tip_m) } else { (tip_m, tip_p) };
            let mine_bc = synth_blockchain(gp, 1, fork, tip_m, 1, 2, false);
            let peer_bc = synth_blockchain(gp, 1, fork, tip_p, 1, 3, false);
            let latest_m = mine_bc.get_latest_block_id();
            let latest_p = peer_bc.get_latest_block_id();
            let fid = peer_bc.generate_fork_id(latest_p).unwrap_or([0; 32]);
            let est = mine_bc.generate_last_shared_ancestor(latest_p, fid);
            // index maps restricted to the ids the oracle looks at (all multiples of 1 are too many)
            let mut mi = BTreeMap::new();
            let mut pi = BTreeMap::new();
            let mut s = 0;
            for w in WEIGHTS.iter() {
                s += w;
                for base in [tip_m - tip_m % 10, tip_p - tip_p % 10] {
                    if base > s {
                        let id = base - s;
                        if let Some(h) = mine_bc.blockring.get_longest_chain_block_hash_at_block_id(id) {
                            mi.insert(id, h);
                        }
                        if let Some(h) = peer_bc.blockring.get_longest_chain_block_hash_at_block_id(id) {
                            pi.insert(id, h);
                        }
                    }
                }
            }
            let mine = View { latest: latest_m, index: mi, fid: [0; 32], synth: Some((1, fork, tip_m, 1, 2)) };
            let peer = View { latest: latest_p, index: pi, fid, synth: Some((1, fork, tip_p, 1, 3)) };
            let desc = format!(
                "{{\"part\":1,\"kind\":\"synthetic-deep\",\"mine_tip\":{},\"peer_tip\":{},\"families_fork_after_id\":{},\"estimate\":{}}}",
                tip_m, tip_p, fork, est
            );
            record_pair(summary, &mut p1, distinct, "synthetic-deep", desc, &mine, &peer, est, true);
        }
    }
    p1
}

// =====================================================================================
// part 2: two real nodes
// =====================================================================================

struct Clock(AtomicU64);
impl KeepTime for Clock {
    fn get_timestamp_in_ms(&self) -> u64 {
        self.0.load(Ordering::SeqCst)
    }
}

struct Sim {
    blockchain: Arc<RwLock<Blockchain>>,
    mempool: Arc<RwLock<Mempool>>,
    cfg_plain: Cfg,
    disk: Arc<Mutex<Disk>>,
    clock: Arc<Clock>,
    routing: RoutingThread,
    consensus: ConsensusThread,
    verifiers: Vec<VerificationThread>,
    rx_verif: Vec<Receiver<VerifyRequest>>,
    rx_cons: Receiver<ConsensusEvent>,
    rx_router: Receiver<RoutingEvent>,
    rx_miner: Receiver<MiningEvent>,
    rx_stat: Receiver<String>,
    q_verif: Vec<VecDeque<VerifyRequest>>,
    q_cons: VecDeque<ConsensusEvent>,
    q_router: VecDeque<RoutingEvent>,
    /// outputs already taken from the MemIo journal
    sent_seen: usize,
    bcast_seen: usize,
    fetch_seen: usize,
}

#[allow(clippy::too_many_arguments)]
fn new_sim(key: u8, gp: u64, loading_completed: bool, batch: usize, n_verifiers: usize, fetch_url: &str, static_peer: bool) -> Sim {
    new_sim_ext(key, gp, loading_completed, batch, n_verifiers, fetch_url, static_peer, false, (0, 0, 0))
}

#[allow(clippy::too_many_arguments)]
fn new_sim_ext(
    key: u8,
    gp: u64,
    loading_completed: bool,
    batch: usize,
    n_verifiers: usize,
    fetch_url: &str,
    static_peer: bool,
    spv: bool,
    wallet_version: (u8, u8, u16),
) -> Sim {
    let (pk, sk) = keypair(key);
    let mut wal = Wallet::new(sk, pk);
    wal.wallet_version = saito_core::core::process::version::Version::new(wallet_version.0, wallet_version.1, wallet_version.2);
    let wallet = Arc::new(RwLock::new(wal));
    let mut c = params(gp, loading_completed).cfg();
    c.fetch_url = fetch_url.to_string();
    c.spv = spv;
    if static_peer {
        c.peers.push(PeerConfig {
            host: "nodeb".to_string(),
            port: 12101,
            protocol: "http".to_string(),
            synctype: "full".to_string(),
        });
    }
    let cfg_plain = c.clone();
    let cfg: Arc<RwLock<dyn Configuration + Send + Sync>> = Arc::new(RwLock::new(c));
    let peers = Arc::new(RwLock::new(PeerCollection::default()));
    let disk = Arc::new(Mutex::new(Disk::default()));
    let clock = Arc::new(Clock(AtomicU64::new(10_000)));
    let timer = Timer { time_reader: clock.clone(), hasten_multiplier: 1, start_time: 0 };
    let blockchain = Arc::new(RwLock::new(Blockchain::new(wallet.clone(), gp, 0, 60)));
    let mempool = Arc::new(RwLock::new(Mempool::new(wallet.clone())));
    let cap = 200_000;
    let (tx_cons, rx_cons) = tokio::sync::mpsc::channel(cap);
    let (tx_router, rx_router) = tokio::sync::mpsc::channel(cap);
    let (tx_miner, rx_miner) = tokio::sync::mpsc::channel(cap);
    let (tx_stat, rx_stat) = tokio::sync::mpsc::channel(cap);
    let mut tx_verif = vec![];
    let mut rx_verif = vec![];
    let mut verifiers = vec![];
    for _ in 0..n_verifiers {
        let (t, r) = tokio::sync::mpsc::channel(cap);
        tx_verif.push(t);
        rx_verif.push(r);
        verifiers.push(VerificationThread {
            sender_to_consensus: tx_cons.clone(),
            blockchain_lock: blockchain.clone(),
            peer_lock: peers.clone(),
            wallet_lock: wallet.clone(),
            processed_txs: StatVariable::new("v::txs".to_string(), STAT_BIN_COUNT, tx_stat.clone()),
            processed_blocks: StatVariable::new("v::blocks".to_string(), STAT_BIN_COUNT, tx_stat.clone()),
            processed_msgs: StatVariable::new("v::msgs".to_string(), STAT_BIN_COUNT, tx_stat.clone()),
            invalid_txs: StatVariable::new("v::invalid".to_string(), STAT_BIN_COUNT, tx_stat.clone()),
            stat_sender: tx_stat.clone(),
        });
    }
    let routing = RoutingThread {
        blockchain_lock: blockchain.clone(),
        mempool_lock: mempool.clone(),
        sender_to_consensus: tx_cons.clone(),
        sender_to_miner: tx_miner.clone(),
        config_lock: cfg.clone(),
        timer: timer.clone(),
        wallet_lock: wallet.clone(),
        network: Network::new(Box::new(MemIo::new(disk.clone())), peers.clone(), wallet.clone(), cfg.clone(), timer.clone()),
        storage: Storage::new(Box::new(MemIo::new(disk.clone()))),
        reconnection_timer: 0,
        peer_removal_timer: 0,
        peer_file_write_timer: 0,
        last_emitted_block_fetch_count: 0,
        stats: RoutingStats::new(tx_stat.clone()),
        senders_to_verification: tx_verif,
        last_verification_thread_index: 0,
        stat_sender: tx_stat.clone(),
        blockchain_sync_state: BlockchainSyncState::new(batch),
    };
    let consensus = ConsensusThread {
        mempool_lock: mempool.clone(),
        blockchain_lock: blockchain.clone(),
        wallet_lock: wallet.clone(),
        generate_genesis_block: false,
        sender_to_router: tx_router.clone(),
        sender_to_miner: tx_miner.clone(),
        block_producing_timer: 0,
        timer: timer.clone(),
        network: Network::new(Box::new(MemIo::new(disk.clone())), peers.clone(), wallet.clone(), cfg.clone(), timer.clone()),
        storage: Storage::new(Box::new(MemIo::new(disk.clone()))),
        stats: ConsensusStats::new(tx_stat.clone()),
        txs_for_mempool: vec![],
        stat_sender: tx_stat.clone(),
        config_lock: cfg.clone(),
        produce_blocks_by_timer: false,
        delete_old_blocks: false,
    };
    Sim {
        blockchain,
        mempool,
        cfg_plain,
        disk,
        clock,
        routing,
        consensus,
        q_verif: (0..n_verifiers).map(|_| VecDeque::new()).collect(),
        verifiers,
        rx_verif,
        rx_cons,
        rx_router,
        rx_miner,
        rx_stat,
        q_cons: VecDeque::new(),
        q_router: VecDeque::new(),
        sent_seen: 0,
        bcast_seen: 0,
        fetch_seen: 0,
    }
}

impl Sim {
    /// the chain the node holds before the peers connect (as loaded from its disk)
    async fn preload(&mut self, chain: &[Block]) -> bool {
        let mut bc = self.blockchain.write().await;
        let mut mp = self.mempool.write().await;
        for b in chain {
            let r = bc.add_block(b.clone(), &mut self.consensus.storage, &mut mp, &self.cfg_plain).await;
            if !matches!(r, saito_core::core::consensus::blockchain::AddBlockResult::BlockAddedSuccessfully(_, true, _)) {
                return false;
            }
        }
        true
    }
    /// blocks offered in the given order whatever the answer (a node that has reorganised)
    async fn preload_history(&mut self, history: &[Block]) {
        let mut bc = self.blockchain.write().await;
        let mut mp = self.mempool.write().await;
        for b in history {
            let _ = bc.add_block(b.clone(), &mut self.consensus.storage, &mut mp, &self.cfg_plain).await;
        }
    }
    /// a lite node that synced `chain` earlier: what process_ghost_chain leaves behind
    async fn preload_ghost(&mut self, chain: &[Block]) {
        let mut bc = self.blockchain.write().await;
        for b in chain {
            bc.add_ghost_block(b.id, b.previous_block_hash, b.timestamp, b.pre_hash, b.has_golden_ticket, b.hash);
        }
        if let Some(last) = chain.last() {
            bc.blockring.on_chain_reorganization(last.id, last.hash, true);
            bc.on_chain_reorganization(last.id, last.hash, true, &self.consensus.storage, &self.cfg_plain).await;
            if let Some(fid) = bc.generate_fork_id(bc.last_block_id) {
                if fid != [0; 32] {
                    bc.set_fork_id(fid);
                }
            }
        }
    }
    fn drain_channels(&mut self) {
        for (k, rx) in self.rx_verif.iter_mut().enumerate() {
            while let Ok(v) = rx.try_recv() {
                self.q_verif[k].push_back(v);
            }
        }
        while let Ok(v) = self.rx_cons.try_recv() {
            self.q_cons.push_back(v);
        }
        while let Ok(v) = self.rx_router.try_recv() {
            self.q_router.push_back(v);
        }
        while self.rx_miner.try_recv().is_ok() {}
        while self.rx_stat.try_recv().is_ok() {}
    }
    /// serves a block the way saito-rust's /block/<hash> route does: the file of the
    /// block directory whose name contains the hash
    fn serve(&self, hash: &SaitoHash) -> Option<Vec<u8>> {
        let d = self.disk.lock().unwrap();
        let hx = hex::encode(hash);
        for (k, v) in d.files.iter() {
            if k.starts_with("./data/blocks/") && k.ends_with(".sai") && k.contains(&hx) {
                return Some(v.clone());
            }
        }
        None
    }
    async fn tip(&self) -> (u64, SaitoHash) {
        let bc = self.blockchain.read().await;
        (bc.get_latest_block_id(), bc.get_latest_block_hash())
    }
}

#[derive(Clone, Debug, PartialEq)]
enum FailPlan {
    None,
    /// the first `n` attempts of every k-th requested block fail
    FirstAttempts { every: u64, n: u32 },
    /// each completion fails with probability pct (at most 3 per block)
    Random { pct: u64 },
}

#[derive(Clone, Debug, PartialEq)]
enum Policy {
    /// oldest pending event first (one global FIFO)
    Fifo,
    /// PRNG among all enabled events
    Random,
    /// newest fetch completion first, everything else FIFO
    ReverseFetches,
    /// choices enumerated by the DFS driver
    Enumerated,
}

/// further peers of A besides B (index 2, 3, ..), scripted: they only announce header hashes
#[derive(Clone, Copy, Debug, PartialEq)]
enum Extra {
    /// has a fetch url, announces B's chain, its fetches are served like B's
    SecondServer,
    /// has a fetch url, announces 10 unknown blocks above B's tip before anybody else and never answers a fetch
    Hoarder,
    /// has no fetch url, announces B's chain
    NoUrl,
}

#[derive(Clone)]
struct Scenario {
    label: String,
    gp: u64,
    loading_completed: bool,
    a_chain: Arc<Vec<Block>>,
    b_chain: Arc<Vec<Block>>,
    /// number of leading blocks the chains share (ids 1..=common)
    common: usize,
    batch: usize,
    verifiers: usize,
    a_serves: bool,
    fail: FailPlan,
    duplicates: bool,
    policy: Policy,
    seed: u64,
    /// blocks offered to B in this order before the peers connect (empty: b_chain in order);
    /// B's longest chain afterwards is b_chain
    b_history: Arc<Vec<Block>>,
    /// A is a lite (SPV) node: ghost-chain sync
    a_lite: bool,
    /// second phase: once the first exchange has settled B's chain grows by these blocks (the
    /// tail of b_chain) and A asks again
    b_growth: usize,
    /// wallet versions (A, B) announced in the handshake
    versions: Option<((u8, u8, u16), (u8, u8, u16))>,
    extra_peers: Vec<Extra>,
    /// blocks of another fork (heights of B's chain, other hashes) that wait in A's mempool block
    /// queue: received earlier from a peer that is gone (index GONE_PEER), their parents never came
    a_queued: Arc<Vec<Block>>,
    /// false: they sit in the queue when the peers connect; true: they reach A's consensus
    /// thread (BlockFetched from the other source) at some point of the exchange
    a_queued_late: bool,
}

impl Scenario {
    /// the wallet-version gate of process_incoming_block_hash: A does not fetch from an older peer
    fn version_gate_closed(&self) -> bool {
        match self.versions {
            Some((a, b)) => a > b && b != (0, 0, 0),
            None => false,
        }
    }
    fn sequential(&self) -> bool {
        // (a second serving peer means two fetches in flight)
        self.batch == 1 && self.verifiers == 1 && !self.extra_peers.contains(&Extra::SecondServer)
    }
    fn json(&self) -> String {
        format!(
            "{{\"part\":2,\"scenario\":\"{}\",\"genesis_period\":{},\"initial_loading_completed\":{},\"a_len\":{},\"b_len\":{},\"common_prefix\":{},\"batch\":{},\"verification_threads\":{},\"a_serves_blocks\":{},\"fetch_failures\":\"{:?}\",\"duplicates\":{},\"policy\":\"{:?}\",\"seed\":{},\"b_offered_blocks\":{},\"a_lite\":{},\"b_grows_by\":{},\"wallet_versions\":\"{:?}\",\"further_peers_of_a\":\"{:?}\",\"a_queued_fork_block_ids\":{:?},\"a_queued_during_exchange\":{}}}",
            self.label,
            self.gp,
            self.loading_completed,
            self.a_chain.len(),
            self.b_chain.len(),
            self.common,
            self.batch,
            self.verifiers,
            self.a_serves,
            self.fail,
            self.duplicates,
            self.policy,
            self.seed,
            if self.b_history.is_empty() { self.b_chain.len() } else { self.b_history.len() },
            self.a_lite,
            self.b_growth,
            self.versions,
            self.extra_peers,
            self.a_queued.iter().map(|b| b.id).collect::<Vec<_>>(),
            self.a_queued_late
        )
    }
}

#[derive(Clone, Debug)]
struct PendingFetch {
    hash: SaitoHash,
    id: u64,
    peer: u64,
    attempt: u32,
    duplicate: bool,
    lite: bool,
}

#[derive(Default)]
struct RunOut {
    a_tip: (u64, SaitoHash),
    a_start_tip: (u64, SaitoHash),
    b_tip: (u64, SaitoHash),
    requested: BTreeSet<SaitoHash>,
    /// A's lowest_acceptable_block_id when the peers connect: header hashes at or below it are ignored by design
    a_lowest_acceptable: u64,
    steps: usize,
    quiescent: bool,
    panics: Vec<String>,
    /// "A.add_block saw block id X before its parent, which B serves" events
    child_before_parent: Vec<ParentMissing>,
    b_child_before_parent: Vec<ParentMissing>,
    choice_trace: Vec<(usize, usize)>,
    max_pending: usize,
    /// blocks in the order in which they reached A's consensus thread
    arrivals: Vec<SaitoHash>,
    /// router events of A caused by FailedButRetry: (fetch previous block, fetch whole chain)
    retry_events: (u32, u32),
    /// A's longest-chain index at the end (lite runs)
    a_index: BTreeMap<u64, SaitoHash>,
    ghost_msgs_to_a: usize,
    /// block ids named by the ghost chains delivered to A, and those flagged "has transactions for you"
    ghost_ids: BTreeSet<u64>,
    ghost_fetch_ids: BTreeSet<u64>,
    /// hashes of B's chain that A stores at the end
    a_holds: BTreeSet<SaitoHash>,
    fetch_failures: u32,
    dup_deliveries: u32,
    a_disconnects: usize,
    headers_to_a: usize,
    /// blocks left in A's mempool block queue at the end
    a_queue_left: usize,
    trace: Vec<String>,
}

/// an offer of a block to add_block while its parent is not stored
#[derive(Clone, Debug)]
struct ParentMissing {
    id: u64,
    /// the parent is a block the other side serves, A may request it (above its lowest
    /// acceptable id) and it has not been offered to add_block before: the protocol
    /// delivered the child first
    reordered: bool,
    /// add_block does not answer "retry" but goes on with the parentless block: the block
    /// store is empty (first-block rule), or the parent hash is all-zero, or
    /// initial_loading_completed is unset
    orphan_path: bool,
}

/// what `add_blocks_from_mempool` is about to offer to add_block (the queue sorted by id,
/// as the code does) with the parent not stored
async fn parents_missing(
    sim: &Sim,
    incoming: &Block,
    other_serves: &BTreeSet<SaitoHash>,
    lowest: u64,
    offered: &mut BTreeSet<SaitoHash>,
) -> Vec<ParentMissing> {
    let bc = sim.blockchain.read().await;
    if bc.blocks.contains_key(&incoming.hash) {
        return vec![];
    }
    let lc = sim.cfg_plain.blockchain.initial_loading_completed;
    let mp = sim.mempool.read().await;
    let mut q: Vec<(u64, SaitoHash, SaitoHash)> =
        mp.blocks_queue.iter().map(|b| (b.id, b.hash, b.previous_block_hash)).collect();
    if !q.iter().any(|x| x.1 == incoming.hash) {
        q.push((incoming.id, incoming.hash, incoming.previous_block_hash));
    }
    q.sort_by_key(|x| x.0); // stable, as the code's sort_by
    let mut known: BTreeSet<SaitoHash> = bc.blocks.keys().cloned().collect();
    let mut out = vec![];
    for (id, h, prev) in q {
        if known.contains(&h) {
            continue;
        }
        if !known.contains(&prev) {
            let store_empty = known.is_empty();
            let reordered = prev != [0u8; 32] && other_serves.contains(&prev) && id > lowest + 1 && !offered.contains(&prev);
            let orphan_path = if store_empty { prev != [0u8; 32] && other_serves.contains(&prev) } else { !lc || prev == [0u8; 32] };
            if reordered || orphan_path {
                out.push(ParentMissing { id, reordered, orphan_path });
            }
        }
        offered.insert(h);
        known.insert(h);
    }
    out
}

const A_ON_B: u64 = 1; // index under which B knows A
const B_ON_A: u64 = 1; // index under which A knows B (first static peer)
const GONE_PEER: u64 = 7; // a peer A had earlier (source of the queued fork blocks), no longer in its peer collection

struct World {
    a: Sim,
    b: Sim,
    net_ab: VecDeque<Vec<u8>>,
    net_ba: VecDeque<Vec<u8>>,
    fetch_a: Vec<PendingFetch>,
    fetch_b: Vec<PendingFetch>,
    attempts: BTreeMap<SaitoHash, u32>,
    requested_order: Vec<SaitoHash>,
    /// announcements of A's further peers: (peer index, message), FIFO
    net_xa: VecDeque<(u64, Vec<u8>)>,
    /// fetches addressed to a peer that never answers
    stuck: Vec<PendingFetch>,
    hoarders: BTreeSet<u64>,
}

impl World {
    fn collect(&mut self, out: &mut RunOut) {
        for who in 0..2 {
            let (sim, to_other, pool) = if who == 0 {
                (&mut self.a, &mut self.net_ab, &mut self.fetch_a)
            } else {
                (&mut self.b, &mut self.net_ba, &mut self.fetch_b)
            };
            sim.drain_channels();
            let d = sim.disk.lock().unwrap();
            for (peer, buf) in d.sent[sim.sent_seen..].iter() {
                if *peer == 1 {
                    to_other.push_back(buf.clone());
                }
            }
            sim.sent_seen = d.sent.len();
            for (buf, excluded) in d.broadcasts[sim.bcast_seen..].iter() {
                if !excluded.contains(&1) {
                    to_other.push_back(buf.clone());
                }
            }
            sim.bcast_seen = d.broadcasts.len();
            for (hash, peer, url, id) in d.fetches[sim.fetch_seen..].iter() {
                let n = self.attempts.entry(*hash).or_insert(0);
                *n += 1;
                let pf = PendingFetch { hash: *hash, id: *id, peer: *peer, attempt: *n, duplicate: false, lite: url.contains("/lite-block/") };
                if who == 0 && self.hoarders.contains(peer) {
                    self.stuck.push(pf);
                } else {
                    pool.push(pf);
                }
                if who == 0 {
                    out.requested.insert(*hash);
                    self.requested_order.push(*hash);
                }
            }
            sim.fetch_seen = d.fetches.len();
            if who == 0 {
                out.a_disconnects = d.disconnects.len();
            }
        }
    }
}

#[derive(Clone, Debug)]
enum Ev {
    ExtraToA,
    NetToA,
    NetToB,
    VerifA(usize),
    VerifB(usize),
    ConsA,
    ConsB,
    RouterA,
    RouterB,
    FetchA(usize),
    FetchB(usize),
}

async fn run_scenario(sc: &Scenario, forced: &[usize], budget_trace: bool) -> RunOut {
    let mut out = RunOut::default();
    let mut rng = Rng::new(sc.seed);
    let (va, vb) = sc.versions.unwrap_or(((0, 0, 0), (0, 0, 0)));
    let a = new_sim_ext(2, sc.gp, sc.loading_completed, sc.batch, sc.verifiers, if sc.a_serves { "http://nodea:12101/block/" } else { "" }, true, sc.a_lite, va);
    let b = new_sim_ext(3, sc.gp, sc.loading_completed, sc.batch, sc.verifiers, "http://nodeb:12101/block/", false, false, vb);
    let mut w = World {
        a,
        b,
        net_ab: VecDeque::new(),
        net_ba: VecDeque::new(),
        fetch_a: vec![],
        fetch_b: vec![],
        attempts: BTreeMap::new(),
        requested_order: vec![],
        net_xa: VecDeque::new(),
        stuck: vec![],
        hoarders: BTreeSet::new(),
    };
    let a_ok = if sc.a_lite {
        w.a.preload_ghost(&sc.a_chain).await;
        true
    } else {
        w.a.preload(&sc.a_chain).await
    };
    let b_first = sc.b_chain.len() - sc.b_growth;
    let mut grown = sc.b_growth == 0;
    let b_ok = if sc.b_history.is_empty() {
        w.b.preload(&sc.b_chain[..b_first]).await
    } else {
        w.b.preload_history(&sc.b_history).await;
        w.b.tip().await.1 == sc.b_chain.last().map(|x| x.hash).unwrap_or([0; 32])
    };
    if !a_ok || !b_ok {
        out.panics.push("harness: preload failed".to_string());
        return out;
    }
    let b_serves: BTreeSet<SaitoHash> = sc.b_chain.iter().map(|x| x.hash).filter(|h| w.b.serve(h).is_some()).collect();
    let a_serves: BTreeSet<SaitoHash> = sc.a_chain.iter().map(|x| x.hash).filter(|h| w.a.serve(h).is_some()).collect();
    out.b_tip = (sc.b_chain.len() as u64, sc.b_chain.last().map(|x| x.hash).unwrap_or([0; 32]));
    out.a_start_tip = w.a.tip().await;
    out.a_lowest_acceptable = {
        let bc = w.a.blockchain.read().await;
        if bc.blocks.is_empty() { 0 } else { bc.lowest_acceptable_block_id }
    };
    let a_low = out.a_lowest_acceptable;
    let b_low = {
        let bc = w.b.blockchain.read().await;
        if bc.blocks.is_empty() { 0 } else { bc.lowest_acceptable_block_id }
    };

    // connection: A dials its static peer, both ends learn of the connection
    w.a.routing.network.initialize_static_peers(w.a.routing.config_lock.clone()).await;
    w.a.routing.network.connect_to_static_peers(w.a.clock.get_timestamp_in_ms()).await;
    let _ = w
        .a
        .routing
        .process_network_event(NetworkEvent::PeerConnectionResult { result: Ok((B_ON_A, Some("10.0.0.2".to_string()))) })
        .await;
    let _ = w
        .b
        .routing
        .process_network_event(NetworkEvent::PeerConnectionResult { result: Ok((A_ON_B, Some("10.0.0.1".to_string()))) })
        .await;
    w.collect(&mut out);

    let mut hoarder_first = false;
    for (k, kind) in sc.extra_peers.iter().enumerate() {
        let idx = 2 + k as u64;
        {
            let mut peers = w.a.routing.network.peer_lock.write().await;
            let mut peer = saito_core::core::consensus::peers::peer::Peer::new(idx);
            peer.public_key = Some(keypair(20 + k as u8).0);
            peer.peer_status = saito_core::core::consensus::peers::peer::PeerStatus::Connected;
            if *kind != Extra::NoUrl {
                peer.block_fetch_url = format!("http://peer{}:12101/block/", idx);
            }
            peers.address_to_peers.insert(peer.public_key.unwrap(), idx);
            peers.index_to_peers.insert(idx, peer);
        }
        match kind {
            Extra::Hoarder => {
                hoarder_first = true;
                w.hoarders.insert(idx);
                let top = sc.b_chain.len() as u64;
                for j in 1..=10u64 {
                    w.net_xa.push_front((idx, Message::BlockHeaderHash(synth_hash(900 + idx, top + j), top + j).serialize()));
                }
            }
            _ => {
                for blk in sc.b_chain.iter() {
                    w.net_xa.push_back((idx, Message::BlockHeaderHash(blk.hash, blk.id).serialize()));
                }
            }
        }
    }
    // fork blocks of B's heights waiting in A's mempool block queue
    for blk in sc.a_queued.iter() {
        let mut blk = blk.clone();
        blk.routed_from_peer = Some(GONE_PEER);
        if sc.a_queued_late {
            w.a.q_cons.push_back(ConsensusEvent::BlockFetched { peer_index: GONE_PEER, block: blk });
        } else {
            w.a.mempool.write().await.add_block(blk);
        }
    }
    let n_blocks = sc.a_chain.len() + sc.b_chain.len() + sc.a_queued.len();
    let max_steps = 2_000 + 40 * n_blocks * (n_blocks + 20);
    let mut idle_ticks = 0;
    let mut choice_no = 0usize;
    let mut fail_counts: BTreeMap<SaitoHash, u32> = BTreeMap::new();
    let mut offered_a: BTreeSet<SaitoHash> = sc.a_chain.iter().map(|x| x.hash).collect();
    let mut offered_b: BTreeSet<SaitoHash> = sc.b_chain.iter().map(|x| x.hash).collect();
    let mut age: u64 = 0; // for the FIFO policy: arrival stamps
    let _ = &mut age;

    loop {
        if out.steps >= max_steps {
            break;
        }
        // B-side events first, deterministically: B's state does not depend on A's
        // schedule (see registry: reduction), so only events for A are choice points
        let b_ev = if !w.net_ab.is_empty() {
            Some(Ev::NetToB)
        } else if let Some(k) = (0..w.b.q_verif.len()).find(|k| !w.b.q_verif[*k].is_empty()) {
            Some(Ev::VerifB(k))
        } else if !w.b.q_cons.is_empty() {
            Some(Ev::ConsB)
        } else if !w.b.q_router.is_empty() {
            Some(Ev::RouterB)
        } else if !w.fetch_b.is_empty() {
            Some(Ev::FetchB(0))
        } else {
            None
        };
        let ev = if let Some(e) = b_ev {
            e
        } else {
            let mut opts: Vec<Ev> = vec![];
            if hoarder_first && w.net_xa.front().map(|x| w.hoarders.contains(&x.0)).unwrap_or(false) {
                opts.push(Ev::ExtraToA);
            }
            if !w.net_ba.is_empty() {
                opts.push(Ev::NetToA);
            }
            for k in 0..w.a.q_verif.len() {
                if !w.a.q_verif[k].is_empty() {
                    opts.push(Ev::VerifA(k));
                }
            }
            if !w.a.q_cons.is_empty() {
                opts.push(Ev::ConsA);
            }
            if !w.a.q_router.is_empty() {
                opts.push(Ev::RouterA);
            }
            for k in 0..w.fetch_a.len() {
                opts.push(Ev::FetchA(k));
            }
            if !w.net_xa.is_empty() && !matches!(opts.first(), Some(Ev::ExtraToA)) {
                // the further peers' announcements come once B's headers are in (FIFO policy) or any time (random)
                if opts.iter().any(|e| matches!(e, Ev::NetToA)) {
                    opts.push(Ev::ExtraToA);
                } else {
                    opts.insert(0, Ev::ExtraToA);
                }
            }
            out.max_pending = out.max_pending.max(opts.len());
            if opts.is_empty() {
                // quiescent: timer ticks (retry of failed fetches, pings) until nothing moves
                if idle_ticks >= 5 {
                    if !grown {
                        // second phase: B's chain grows, A asks again (what a reconnection does)
                        grown = true;
                        idle_ticks = 0;
                        if !w.b.preload(&sc.b_chain[b_first..]).await {
                            out.panics.push("harness: B could not extend its chain".to_string());
                            break;
                        }
                        w.a.q_router.push_back(RoutingEvent::BlockchainRequest(B_ON_A));
                        continue;
                    }
                    out.quiescent = true;
                    break;
                }
                idle_ticks += 1;
                for sim in [&mut w.a, &mut w.b] {
                    sim.clock.0.fetch_add(2_000, Ordering::SeqCst);
                    let r = futures_catch(AssertUnwindSafe(sim.routing.process_timer_event(Duration::from_millis(2_000)))).await;
                    if let Err(m) = r {
                        out.panics.push(format!("routing timer: {}", m));
                    }
                }
                w.collect(&mut out);
                out.steps += 1;
                continue;
            }
            let pick = match sc.policy {
                Policy::Fifo => 0,
                Policy::Random => rng.below(opts.len() as u64) as usize,
                Policy::ReverseFetches => {
                    match opts.iter().rposition(|e| matches!(e, Ev::FetchA(_))) {
                        // let requests pile up first: take a fetch completion only when nothing else is enabled
                        Some(p) if opts.iter().all(|e| matches!(e, Ev::FetchA(_))) => p,
                        _ => 0,
                    }
                }
                Policy::Enumerated => {
                    let c = if choice_no < forced.len() { forced[choice_no] } else { 0 };
                    c.min(opts.len() - 1)
                }
            };
            if opts.len() > 1 || sc.policy == Policy::Enumerated {
                out.choice_trace.push((pick, opts.len()));
                choice_no += 1;
            }
            opts[pick].clone()
        };
        idle_ticks = 0;
        out.steps += 1;
        if budget_trace {
            out.trace.push(format!("{:?}", ev));
        }
        let res: Result<(), String> = match ev {
            Ev::ExtraToA => {
                let (idx, buf) = w.net_xa.pop_front().unwrap();
                futures_catch(AssertUnwindSafe(async {
                    let _ = w.a.routing.process_network_event(NetworkEvent::IncomingNetworkMessage { peer_index: idx, buffer: buf }).await;
                }))
                .await
            }
            Ev::NetToA => {
                let buf = w.net_ba.pop_front().unwrap();
                match Message::deserialize(buf.clone()) {
                    Ok(Message::BlockHeaderHash(_, _)) => out.headers_to_a += 1,
                    Ok(Message::GhostChain(g)) => {
                        out.ghost_msgs_to_a += 1;
                        for (i, id) in g.block_ids.iter().enumerate() {
                            out.ghost_ids.insert(*id);
                            if g.txs.get(i) == Some(&true) {
                                out.ghost_fetch_ids.insert(*id);
                            }
                        }
                    }
                    _ => {}
                }
                futures_catch(AssertUnwindSafe(async {
                    let _ = w.a.routing.process_network_event(NetworkEvent::IncomingNetworkMessage { peer_index: B_ON_A, buffer: buf }).await;
                }))
                .await
            }
            Ev::NetToB => {
                let buf = w.net_ab.pop_front().unwrap();
                futures_catch(AssertUnwindSafe(async {
                    let _ = w.b.routing.process_network_event(NetworkEvent::IncomingNetworkMessage { peer_index: A_ON_B, buffer: buf }).await;
                }))
                .await
            }
            Ev::VerifA(k) => {
                let req = w.a.q_verif[k].pop_front().unwrap();
                futures_catch(AssertUnwindSafe(async {
                    let _ = w.a.verifiers[k].process_event(req).await;
                }))
                .await
            }
            Ev::VerifB(k) => {
                let req = w.b.q_verif[k].pop_front().unwrap();
                futures_catch(AssertUnwindSafe(async {
                    let _ = w.b.verifiers[k].process_event(req).await;
                }))
                .await
            }
            Ev::ConsA => {
                let e = w.a.q_cons.pop_front().unwrap();
                if let ConsensusEvent::BlockFetched { block, .. } = &e {
                    out.arrivals.push(block.hash);
                    let v = parents_missing(&w.a, block, &b_serves, a_low, &mut offered_a).await;
                    out.child_before_parent.extend(v);
                }
                futures_catch(AssertUnwindSafe(async {
                    let _ = w.a.consensus.process_event(e).await;
                }))
                .await
            }
            Ev::ConsB => {
                let e = w.b.q_cons.pop_front().unwrap();
                if let ConsensusEvent::BlockFetched { block, .. } = &e {
                    let v = parents_missing(&w.b, block, &a_serves, b_low, &mut offered_b).await;
                    out.b_child_before_parent.extend(v);
                }
                futures_catch(AssertUnwindSafe(async {
                    let _ = w.b.consensus.process_event(e).await;
                }))
                .await
            }
            Ev::RouterA => {
                let e = w.a.q_router.pop_front().unwrap();
                match &e {
                    RoutingEvent::BlockFetchRequest(..) => out.retry_events.0 += 1,
                    RoutingEvent::BlockchainRequest(..) => out.retry_events.1 += 1,
                    _ => {}
                }
                futures_catch(AssertUnwindSafe(async {
                    let _ = w.a.routing.process_event(e).await;
                }))
                .await
            }
            Ev::RouterB => {
                let e = w.b.q_router.pop_front().unwrap();
                futures_catch(AssertUnwindSafe(async {
                    let _ = w.b.routing.process_event(e).await;
                }))
                .await
            }
            Ev::FetchA(k) | Ev::FetchB(k) => {
                let to_a = matches!(ev, Ev::FetchA(_));
                let pf = if to_a { w.fetch_a.remove(k) } else { w.fetch_b.remove(k) };
                let mut data = if to_a { w.b.serve(&pf.hash) } else { w.a.serve(&pf.hash) };
                if pf.lite {
                    // saito-rust's /lite-block/<hash>/<key> route: the stored block reduced to the
                    // transactions touching the asker's key list (its own key here)
                    data = data.and_then(|buf| {
                        let mut blk = Block::deserialize_from_net(&buf).ok()?;
                        blk.generate().ok()?;
                        let (apk, _) = keypair(2);
                        let lite = blk.generate_lite_block(vec![apk]);
                        Some(lite.serialize_for_net(saito_core::core::consensus::block::BlockType::Full))
                    });
                }
                let mut fail = data.is_none();
                if to_a && !pf.duplicate && !fail {
                    let c = fail_counts.entry(pf.hash).or_insert(0);
                    match &sc.fail {
                        FailPlan::None => {}
                        FailPlan::FirstAttempts { every, n } => {
                            if pf.id % every == 0 && pf.attempt <= *n {
                                fail = true;
                            }
                        }
                        FailPlan::Random { pct } => {
                            if *c < 3 && rng.chance(*pct, 100) {
                                fail = true;
                            }
                        }
                    }
                    if fail {
                        *c += 1;
                        out.fetch_failures += 1;
                    }
                }
                if to_a && !fail && !pf.duplicate && sc.duplicates && rng.chance(1, 4) {
                    // the same completion is reported once more later
                    let mut d = pf.clone();
                    d.duplicate = true;
                    w.fetch_a.push(d);
                }
                if pf.duplicate {
                    out.dup_deliveries += 1;
                }
                let event = if fail {
                    NetworkEvent::BlockFetchFailed { block_hash: pf.hash, peer_index: pf.peer, block_id: pf.id }
                } else {
                    NetworkEvent::BlockFetched { block_hash: pf.hash, block_id: pf.id, peer_index: pf.peer, buffer: data.unwrap() }
                };
                if to_a {
                    futures_catch(AssertUnwindSafe(async {
                        let _ = w.a.routing.process_network_event(event).await;
                    }))
                    .await
                } else {
                    futures_catch(AssertUnwindSafe(async {
                        let _ = w.b.routing.process_network_event(event).await;
                    }))
                    .await
                }
            }
        };
        if let Err(m) = res {
            out.panics.push(m);
            if out.panics.len() > 3 {
                break;
            }
        }
        w.collect(&mut out);
    }
    out.a_tip = match futures_catch(AssertUnwindSafe(w.a.tip())).await {
        Ok(t) => t,
        Err(m) => {
            out.panics.push(format!("reading A's tip: {}", m));
            (0, [0; 32])
        }
    };
    out.a_queue_left = w.a.mempool.read().await.blocks_queue.len();
    if sc.a_lite {
        let bc = w.a.blockchain.read().await;
        let hi = out.a_tip.0.max(out.b_tip.0);
        if let Ok(m) = std::panic::catch_unwind(AssertUnwindSafe(|| index_of(&bc, 0, hi + 1))) {
            out.a_index = m;
        }
        out.a_holds = sc.b_chain.iter().map(|x| x.hash).filter(|h| bc.blocks.contains_key(h)).collect();
    }
    let b_end = match futures_catch(AssertUnwindSafe(w.b.tip())).await {
        Ok(t) => t,
        Err(m) => {
            out.panics.push(format!("reading B's tip: {}", m));
            (0, [0; 32])
        }
    };
    if b_end != out.b_tip {
        out.trace.push(format!("B's tip moved from {} to {}", out.b_tip.0, b_end.0));
        out.panics.push(format!("B-TIP-MOVED from id {} to id {}", out.b_tip.0, b_end.0));
    }
    out
}

/// adoptability in the sense of C05, decided by the implementation itself: B's served
/// blocks offered in order to a copy of A
async fn adoptable(sc: &Scenario, served: &BTreeSet<SaitoHash>) -> (bool, String) {
    let mut node = Node::new(&params(sc.gp, sc.loading_completed), 2);
    for b in sc.a_chain.iter() {
        if node.add_block(b.clone()).await != AddClass::OnChain {
            return (false, "A's own chain does not load".to_string());
        }
    }
    let mut classes = vec![];
    for b in sc.b_chain.iter() {
        if !served.contains(&b.hash) || node.blockchain.blocks.contains_key(&b.hash) {
            continue;
        }
        let r = futures_catch(AssertUnwindSafe(node.add_block(b.clone()))).await;
        match r {
            Ok(c) => classes.push(c.code()),
            Err(m) => return (false, format!("in-order delivery panics: {}", m)),
        }
    }
    let tip = node.blockchain.get_latest_block_hash();
    let want = sc.b_chain.last().map(|b| b.hash).unwrap_or([0; 32]);
    (tip == want, format!("{:?}", classes.iter().fold(BTreeMap::new(), |mut m: BTreeMap<u64, u64>, c| { *m.entry(*c).or_insert(0) += 1; m })))
}

struct Judged {
    failures: Vec<String>,
    known: Vec<(String, String)>,
    adoptable: bool,
    converged: bool,
}

#[derive(Clone, Copy, PartialEq, Debug)]
enum Kind {
    Panic,
    SupplyPanic,
    NoQuiescence,
    NotConverged,
    TipDown,
    NeverRequested,
    BTipMoved,
    Gate,
    LiteIndex,
}

async fn judge_run(sc: &Scenario, out: &RunOut) -> Judged {
    // what B serves is decided on a fresh B
    let mut b = new_sim(3, sc.gp, sc.loading_completed, sc.batch, 1, "http://nodeb:12101/block/", false);
    if sc.b_history.is_empty() {
        b.preload(&sc.b_chain).await;
    } else {
        b.preload_history(&sc.b_history).await;
    }
    let served: BTreeSet<SaitoHash> = sc.b_chain.iter().map(|x| x.hash).filter(|h| b.serve(h).is_some()).collect();
    let streamable: BTreeSet<SaitoHash> = {
        let bc = b.blockchain.read().await;
        let latest = bc.get_latest_block_id();
        (0..=latest).filter_map(|i| bc.blockring.get_longest_chain_block_hash_at_block_id(i)).collect()
    };
    let want = sc.b_chain.last().map(|x| x.hash).unwrap_or([0; 32]);
    let converged = out.a_tip.1 == want;
    let mut raw: Vec<(Kind, String)> = vec![];
    for p in &out.panics {
        let k = if p.contains("B-TIP-MOVED") {
            Kind::BTipMoved
        } else if p.contains("invalid total supply") {
            Kind::SupplyPanic
        } else {
            Kind::Panic
        };
        raw.push((k, format!("handler panicked / broke: {}", p)));
    }
    if !out.quiescent && out.panics.is_empty() {
        raw.push((Kind::NoQuiescence, format!("no quiescence within {} steps", out.steps)));
    }
    if sc.a_lite {
        // lite node: the ghost-chain exchange must leave A's by-height index equal to B's
        // longest chain above the common prefix, and A on B's tip
        let mut differs = vec![];
        for blk in sc.b_chain.iter().skip(sc.common) {
            if streamable.contains(&blk.hash) && out.a_index.get(&blk.id) != Some(&blk.hash) {
                differs.push(blk.id);
            }
        }
        if !converged {
            raw.push((
                Kind::NotConverged,
                format!("lite node A ends on tip id {} but B's tip is id {} (hash differs)", out.a_tip.0, out.b_tip.0),
            ));
        }
        if !differs.is_empty() {
            raw.push((
                Kind::LiteIndex,
                format!(
                    "lite node A's longest-chain index differs from B's chain at ids {:?} (common prefix {}): blocks above the fork point were skipped by the ghost chain",
                    differs, sc.common
                ),
            ));
        }
        let mut j = Judged { failures: vec![], known: vec![], adoptable: true, converged };
        // every height at which A's index is not B's block is traced to what A was sent and holds
        let a_old_tip = sc.a_chain.len() as u64;
        let forked = sc.a_chain.len() > sc.common;
        let ring = 2 * sc.gp;
        let first_streamed = out.ghost_ids.iter().next().cloned().unwrap_or(0);
        let start_parent_unindexed = first_streamed >= 2
            && sc.b_chain.get(first_streamed as usize - 2).map(|p| !streamable.contains(&p.hash)).unwrap_or(false);
        let classify = |id: u64| -> Option<&'static str> {
            let bh = sc.b_chain[id as usize - 1].hash;
            let streamed = out.ghost_ids.contains(&id);
            let holds = out.a_holds.contains(&bh);
            let own_block_there = sc.a_chain.get(id as usize - 1).map(|x| x.hash != bh).unwrap_or(false);
            let older_in_slot = id > ring && (id - ring <= a_old_tip || out.ghost_ids.contains(&(id - ring)));
            // (two further classes were listed until they were repaired in /repo: a ghost block
            // appended behind an older entry of its ring slot - 14111d3 - and the start hash of an
            // unindexed block - 4c0e632; such heights are failures now)
            let _ = (own_block_there, older_in_slot, start_parent_unindexed);
            if !streamed && forked && id <= a_old_tip {
                Some("ghost-chain-starts-at-asker-tip")
            } else if streamed && holds && out.ghost_fetch_ids.iter().any(|f| *f < id) {
                Some("ghosts-after-fetched-block-not-adopted")
            } else {
                None
            }
        };
        let mut by_class: BTreeMap<&'static str, Vec<u64>> = BTreeMap::new();
        let mut unexplained: Vec<u64> = vec![];
        for id in &differs {
            match classify(*id) {
                Some(c) => by_class.entry(c).or_default().push(*id),
                None => unexplained.push(*id),
            }
        }
        for (k, f) in raw {
            match k {
                Kind::LiteIndex => {
                    for (c, ids) in &by_class {
                        j.known.push((c.to_string(), format!("lite node A's index is not B's block at ids {:?} (common prefix {}, A's tip before {})", ids, sc.common, a_old_tip)));
                    }
                    if !unexplained.is_empty() {
                        j.failures.push(format!(
                            "lite node A's longest-chain index differs from B's chain at ids {:?} (common prefix {}) and none of the listed ghost-chain findings explains it",
                            unexplained, sc.common
                        ));
                    }
                }
                Kind::NotConverged => {
                    // the tip is one of the heights judged above, or: every block above A's tip is
                    // held as a ghost block that followed a block A had to fetch
                    let above_held = sc.b_chain[out.a_tip.0 as usize..].iter().all(|x| out.a_holds.contains(&x.hash));
                    let after_fetch = out.ghost_fetch_ids.iter().any(|f| *f <= out.a_tip.0) && !out.ghost_fetch_ids.contains(&out.b_tip.0);
                    if differs.contains(&out.b_tip.0) && !unexplained.contains(&out.b_tip.0) {
                        // reported with the index finding
                    } else if out.a_tip.0 < out.b_tip.0 && above_held && after_fetch {
                        j.known.push(("ghosts-after-fetched-block-not-adopted".to_string(), f));
                    } else {
                        j.failures.push(f);
                    }
                }
                _ => j.failures.push(f),
            }
        }
        return j;
    }
    let (adopt, _how) = adoptable(sc, &served).await;
    if sc.version_gate_closed() {
        // B announces an older wallet version: A must not fetch from it
        if !out.requested.is_empty() || out.a_tip != out.a_start_tip {
            raw.push((
                Kind::Gate,
                format!(
                    "A (wallet version {:?}) fetched {} blocks from B whose wallet version {:?} is older",
                    sc.versions.unwrap().0,
                    out.requested.len(),
                    sc.versions.unwrap().1
                ),
            ));
        }
    } else if sc.common == 0 && !sc.a_chain.is_empty() {
        // B's chain starts from another block 1: nothing of it can be connected to what A holds,
        // so there is no chain A has to adopt and no block it needs; what is judged is that the
        // exchange does no harm (no panic, settles, A's tip height does not go down - below)
    } else {
        if adopt && !converged {
            raw.push((
                Kind::NotConverged,
                format!(
                    "B's chain (tip id {}) is adopted by A when delivered in order, but the protocol run ends with A on tip id {} (hash differs)",
                    out.b_tip.0, out.a_tip.0
                ),
            ));
        }
        // requested vs needed: B's streamable, served blocks above the common prefix
        let mut missing = vec![];
        for blk in sc.b_chain.iter().skip(sc.common) {
            if blk.id > out.a_lowest_acceptable && streamable.contains(&blk.hash) && served.contains(&blk.hash) && !out.requested.contains(&blk.hash) {
                missing.push(blk.id);
            }
        }
        if !missing.is_empty() {
            raw.push((Kind::NeverRequested, format!("needed blocks never requested by A: ids {:?}", missing)));
        }
        // and nothing off B's longest chain is requested (B may hold abandoned forks)
        let b_lc: BTreeSet<SaitoHash> = sc.b_chain.iter().map(|x| x.hash).collect();
        let b_all: BTreeSet<SaitoHash> = sc.b_history.iter().map(|x| x.hash).collect();
        let stale: Vec<String> = out.requested.iter().filter(|h| !b_lc.contains(*h) && b_all.contains(*h)).map(|h| hex::encode(&h[..4])).collect();
        if !stale.is_empty() && !sc.a_serves {
            raw.push((
                Kind::NeverRequested,
                format!("A requested {} blocks that are not on B's longest chain (announced by B): {:?}", stale.len(), stale),
            ));
        }
    }
    if out.a_tip.0 < out.a_start_tip.0 && out.panics.is_empty() {
        raw.push((Kind::TipDown, format!("A's tip height went down during the exchange: from id {} to id {}", out.a_start_tip.0, out.a_tip.0)));
    }
    // a run broken off after repeated handler panics (the node is dead by then): what was not
    // requested / did not settle afterwards says nothing; the panics themselves are judged
    if out.panics.len() > 3 {
        raw.retain(|(k, _)| !matches!(k, Kind::NeverRequested | Kind::NoQuiescence));
    }
    let mut j = Judged { failures: vec![], known: vec![], adoptable: adopt, converged };
    let reordered: Vec<u64> = out.child_before_parent.iter().filter(|e| e.reordered).map(|e| e.id).collect();
    let reordered_orphan: Vec<u64> = out.child_before_parent.iter().filter(|e| e.reordered && e.orphan_path).map(|e| e.id).collect();
    let any_orphan = out.child_before_parent.iter().any(|e| e.orphan_path);
    // (1) the protocol delivered a child before its parent and add_block took the parentless path.
    // Attributed to the listed finding are only the failure kinds that path produces: the node
    // not on the peer's tip, its tip height going down, the total-supply panic.  A block that
    // was never requested, a run that does not settle, any other panic stay failures.
    let excused_reorder = !sc.sequential() && !reordered_orphan.is_empty();
    // (2) the peer's chain has another genesis block: its blocks reach add_block with unknown / all-zero parents
    let foreign_genesis = sc.common == 0 && !sc.a_chain.is_empty() && any_orphan;
    let b_excused = out.b_child_before_parent.iter().any(|e| e.orphan_path);
    let orphan_kind = |k: Kind| matches!(k, Kind::NotConverged | Kind::TipDown | Kind::SupplyPanic);
    for (k, f) in raw {
        if k == Kind::BTipMoved && b_excused {
            j.known.push((
                "child-before-parent".to_string(),
                format!(
                    "(on B, which fetches A's fork blocks: ids {:?} reached add_block before their parents) {}",
                    out.b_child_before_parent.iter().map(|e| e.id).collect::<Vec<_>>(),
                    f
                ),
            ));
        } else if excused_reorder && orphan_kind(k) {
            j.known.push((
                "child-before-parent".to_string(),
                format!("(A.add_block was offered ids {:?} before their parents) {}", reordered_orphan, f),
            ));
        } else if foreign_genesis && orphan_kind(k) {
            j.known.push(("foreign-genesis".to_string(), format!("(A and B share no block) {}", f)));
        } else {
            j.failures.push(f);
        }
    }
    if sc.sequential() && !reordered.is_empty() {
        j.failures.push(format!(
            "with one fetch in flight and one verification thread the protocol offered blocks {:?} to add_block before their parents",
            reordered
        ));
    }
    j
}

thread_local! {
    static REPLAY_LOG_LEVEL: std::cell::Cell<log::LevelFilter> = std::cell::Cell::new(log::LevelFilter::Off);
}
fn replay_logging(on: bool) {
    log::set_max_level(if on { REPLAY_LOG_LEVEL.with(|c| c.get()) } else { log::LevelFilter::Off });
}

/// as gal::write_shards, but each case keeps its own case number (only a sample of the
/// part-1 cases goes to the Coq model; numbers index cases.jsonl)
fn write_numbered_shards(dir: &str, name: &str, header: &str, case_type: &str, cases: &[(usize, String)], shards: usize) -> std::io::Result<Vec<String>> {
    use std::io::Write;
    std::fs::create_dir_all(dir)?;
    let shards = shards.max(1).min(cases.len().max(1));
    let mut files = vec![];
    for k in 0..shards {
        let path = format!("{}/{}_{}.v", dir, name, k);
        let mut f = std::io::BufWriter::new(std::fs::File::create(&path)?);
        writeln!(f, "{}", header)?;
        writeln!(f, "Open Scope N_scope.")?;
        writeln!(f, "Definition cases : list (N * ({})) := [", case_type)?;
        let mut first = true;
        for (pos, (i, c)) in cases.iter().enumerate() {
            if pos % shards != k {
                continue;
            }
            if !first {
                writeln!(f, ";")?;
            }
            first = false;
            write!(f, "({}, {})", i, c)?;
        }
        writeln!(f, "].")?;
        writeln!(f, "Definition bad : list N := flat_map (fun ic => if check (snd ic) then [] else [fst ic]) cases.")?;
        writeln!(f, "Eval vm_compute in bad.")?;
        files.push(path);
    }
    Ok(files)
}

fn main() {
    let args = Args::parse();
    std::panic::set_hook(Box::new(|_| {}));
    verif_harness::common::init_log();
    // logging (VERIF_LOG) is switched on only around a replayed protocol run
    REPLAY_LOG_LEVEL.with(|c| c.set(log::max_level()));
    log::set_max_level(log::LevelFilter::Off);
    let rt = tokio::runtime::Builder::new_current_thread().enable_all().build().unwrap();
    rt.block_on(async_main(args));
}

const P2_CASE_TYPE: &str = "(N * bool) * list blk * list N * list N * (N * N)";
fn p2_header() -> String {
    "From Saito Require Import Base Chain SyncProto.\n\
     Definition check (c : (N * bool) * list blk * list N * list N * (N * N)) : bool :=\n\
       let '(cfg, U, a_ids, arr_ids, (tid, th)) := c in\n\
       let get := fun k => nth (N.to_nat k) U (mkB 0 0 0 0 false false []) in\n\
       match deliver cfg (init cfg) (map get a_ids) with\n\
       | Ok st0 =>\n\
           match run_fetched cfg (st0, []) (map get arr_ids) with\n\
           | Ok (st, _) =>\n\
               match latest_hash st, latest_id st with\n\
               | Ok h, Ok i => (h =? th) && (i =? tid)\n\
               | _, _ => false\n\
               end\n\
           | _ => false\n\
           end\n\
       | _ => false\n\
       end."
        .to_string()
}

/// the protocol run as a case of the Coq sync model: A's chain, the order in which blocks
/// reached A's consensus thread, A's final tip
fn p2_case(sc: &Scenario, out: &RunOut) -> Option<String> {
    // the Coq chain model is tied to the code (harness c05) on histories in which no block
    // is offered before its parent; runs that enter add_block's parentless path are judged
    // by the direct oracle only
    if sc.a_lite
        || !sc.a_queued.is_empty()
        || !out.panics.is_empty()
        || 2 * sc.gp < (sc.a_chain.len().max(sc.b_chain.len()) as u64)
        || out.child_before_parent.iter().any(|e| e.orphan_path)
    {
        return None;
    }
    let mut idx: BTreeMap<SaitoHash, u64> = BTreeMap::new();
    let mut blocks: Vec<&Block> = vec![];
    for b in sc.a_chain.iter().chain(sc.b_chain.iter()) {
        if !idx.contains_key(&b.hash) {
            idx.insert(b.hash, blocks.len() as u64 + 1);
            blocks.push(b);
        }
    }
    let h = |x: &SaitoHash| -> u64 {
        if *x == [0u8; 32] {
            0
        } else {
            *idx.get(x).unwrap_or(&99_999)
        }
    };
    let mut items = vec!["mkB 0 0 0 0 false false []".to_string()];
    for b in &blocks {
        items.push(format!(
            "mkB {} {} {} {} {} true []",
            h(&b.hash),
            h(&b.previous_block_hash),
            b.id,
            b.burnfee,
            gal::boolean(b.has_golden_ticket)
        ));
    }
    let a_ids: Vec<u64> = sc.a_chain.iter().map(|b| h(&b.hash)).collect();
    let arr: Vec<u64> = out.arrivals.iter().map(|x| h(x)).collect();
    if arr.iter().any(|x| *x == 99_999) {
        return None;
    }
    Some(format!(
        "(({}, {}), {}, {}, {}, ({}, {}))",
        sc.gp,
        gal::boolean(sc.loading_completed),
        gal::list(&items),
        gal::nlist(&a_ids),
        gal::nlist(&arr),
        out.a_tip.0,
        h(&out.a_tip.1)
    ))
}

fn progress(msg: &str) {
    if std::env::var("VERIF_PROGRESS").is_ok() {
        use std::sync::OnceLock;
        static T0: OnceLock<std::time::Instant> = OnceLock::new();
        let t0 = T0.get_or_init(std::time::Instant::now);
        eprintln!("[{:8.2}s] {}", t0.elapsed().as_secs_f64(), msg);
    }
}

async fn async_main(args: Args) {
    let mut rng = Rng::new(args.seed);
    let thorough = args.tier == "thorough";
    let mut summary = Summary::new("C15");
    let mut distinct: BTreeSet<String> = BTreeSet::new();

    // ------------------------------------------------------------------ part 1
    let p1 = part1(&args, &mut rng, &mut summary, &mut distinct).await;
    let n_part1 = summary.case_descs.len();
    progress(&format!("part1 done: {} cases", n_part1));

    // ------------------------------------------------------------------ part 2
    let mut scenarios: Vec<Scenario> = vec![];
    let empty = Built { blocks: vec![], spends: vec![] };
    let gps: Vec<(u64, usize)> = if thorough { vec![(100, 64), (12, 40), (30, 75)] } else { vec![(100, 34), (12, 30)] };
    for (gi, (gp, n)) in gps.iter().enumerate() {
        let main = extend(*gp, &empty, 0, *n, 300, 0).await.expect("main chain");
        let mainv = Arc::new(main.blocks.clone());
        let mk = |label: String, a: Arc<Vec<Block>>, b: Arc<Vec<Block>>, common: usize, rng: &mut Rng| -> Scenario {
            Scenario {
                label,
                gp: *gp,
                loading_completed: false,
                a_chain: a,
                b_chain: b,
                common,
                batch: 10,
                verifiers: 2,
                a_serves: false,
                fail: FailPlan::None,
                duplicates: false,
                policy: Policy::Random,
                seed: rng.next(),
                b_history: Arc::new(vec![]),
                a_lite: false,
                b_growth: 0,
                versions: None,
                extra_peers: vec![],
                a_queued: Arc::new(vec![]),
                a_queued_late: false,
            }
        };
        let mut base: Vec<Scenario> = vec![];
        // A empty
        for bl in [1usize, 2, 3, 9, 10, 11, 12, 20, 21, 25, *n] {
            if bl <= *n {
                base.push(mk(format!("A empty, B {}", bl), Arc::new(vec![]), Arc::new(mainv[..bl].to_vec()), 0, &mut rng));
            }
        }
        // A = prefix of B
        for (al, bl) in [(1usize, 2usize), (1, 4), (3, 12), (9, 11), (10, 12), (10, 21), (11, 25), (19, 22), (20, 31), (5, *n), (*n - 1, *n), (*n - 12, *n)] {
            if bl <= *n && al < bl {
                base.push(mk(format!("A prefix {}, B {}", al, bl), Arc::new(mainv[..al].to_vec()), Arc::new(mainv[..bl].to_vec()), al, &mut rng));
            }
        }
        // A forked from B at depth d
        let depths: Vec<usize> = if thorough { vec![0, 1, 2, 5, 9, 10, 11, 15, 19, 20, 21, 28] } else { vec![0, 1, 3, 9, 10, 11, 20] };
        for (j, d) in depths.iter().enumerate() {
            for (kind, sa, bl, dt) in [
                ("shorter", 1usize, (*d + 3).min(*n), 200u64),
                ("shorter", 3, (*d + 8).min(*n), 1000),
                ("equal", 4, (*d + 4).min(*n), 200),
                ("one-shorter-heavier", 5, (*d + 6).min(*n), 200),
                ("longer", 7, (*d + 5).min(*n), 100_000),
                ("shorter-deep", 2, *n, 400),
            ] {
                if bl <= *d {
                    continue;
                }
                if let Some(f) = extend(*gp, &main, *d, sa, dt, 31 + j as u64 + 100 * gi as u64).await {
                    let common = f.blocks.iter().zip(mainv[..bl].iter()).take_while(|(x, y)| x.hash == y.hash).count();
                    base.push(mk(
                        format!("A fork at {} +{} ({}), B {}", common, f.blocks.len() - common, kind, bl),
                        Arc::new(f.blocks.clone()),
                        Arc::new(mainv[..bl].to_vec()),
                        common,
                        &mut rng,
                    ));
                }
            }
        }
        // variants
        let per = if thorough { 6 } else { 3 };
        for s in base {
            for v in 0..per + 3 {
                let mut t = s.clone();
                t.seed = rng.next();
                match v {
                    0 => {
                        // the strictly sequential configuration
                        t.batch = 1;
                        t.verifiers = 1;
                        t.policy = Policy::Fifo;
                    }
                    1 => {
                        t.batch = 1;
                        t.verifiers = 1;
                        t.policy = Policy::Random;
                        t.fail = FailPlan::FirstAttempts { every: 2, n: 1 };
                        t.duplicates = true;
                    }
                    2 => {
                        t.policy = Policy::Fifo;
                    }
                    3 => {
                        t.policy = Policy::ReverseFetches;
                    }
                    4 => {
                        t.loading_completed = true;
                        t.policy = Policy::Random;
                        t.fail = FailPlan::Random { pct: 20 };
                    }
                    5 => {
                        t.loading_completed = true;
                        t.policy = Policy::ReverseFetches;
                        t.batch = 4;
                    }
                    6 => {
                        t.a_serves = true;
                        t.batch = *rng.pick(&[2usize, 3, 10]);
                        t.duplicates = true;
                        t.fail = FailPlan::Random { pct: 15 };
                    }
                    _ => {
                        t.batch = *rng.pick(&[2usize, 3, 5, 10]);
                        t.verifiers = *rng.pick(&[1usize, 2, 3]);
                        t.loading_completed = rng.chance(1, 3);
                        t.fail = if rng.chance(1, 3) { FailPlan::Random { pct: 25 } } else { FailPlan::None };
                        t.duplicates = rng.chance(1, 3);
                    }
                }
                scenarios.push(t);
            }
        }

        // ---- B has reorganised: it first followed a fork it later abandoned, so the stale
        // blocks sit in its block index in front of the blocks of its longest chain
        for (j, (d, sl)) in [(3usize, 2usize), (8, 3), (12, 3), (19, 4)].iter().enumerate() {
            let bl = (*d + *sl + 6).min(*n);
            if *d + *sl + 1 > bl {
                continue;
            }
            let mut found = None;
            for dt in [1000u64, 5000, 200] {
                if let Some(st) = extend(*gp, &main, *d, *sl, dt, 61 + j as u64 + 100 * gi as u64).await {
                    let mut hist: Vec<Block> = mainv[..*d].to_vec();
                    hist.extend(st.blocks[*d..].iter().cloned());
                    hist.extend(mainv[*d..bl].iter().cloned());
                    let mut probe = Node::new(&params(*gp, false), 3);
                    for b in &hist {
                        probe.add_block(b.clone()).await;
                    }
                    let stale_first = (*d..*d + *sl).all(|i| {
                        probe.blockchain.blockring.get_block_hash_by_block_id(i as u64 + 1) == Some(st.blocks[i].hash)
                    });
                    if probe.blockchain.get_latest_block_hash() == mainv[bl - 1].hash && stale_first {
                        found = Some((st, hist));
                        break;
                    }
                }
            }
            let (st, hist) = match found {
                Some(x) => x,
                None => continue,
            };
            let hist = Arc::new(hist);
            let mut shapes: Vec<(String, Arc<Vec<Block>>, usize)> = vec![
                (format!("A empty, B {} after abandoning a fork at {} +{}", bl, d, sl), Arc::new(vec![]), 0),
                (format!("A prefix {}, B {} after abandoning a fork at {} +{}", d, bl, d, sl), Arc::new(mainv[..*d].to_vec()), *d),
                (format!("A on the fork B abandoned ({} +{}), B {}", d, sl, bl), Arc::new(st.blocks.clone()), *d),
            ];
            if *d > 2 {
                shapes.push((format!("A prefix {}, B {} after abandoning a fork at {} +{}", d - 2, bl, d, sl), Arc::new(mainv[..*d - 2].to_vec()), *d - 2));
            }
            for (label, a, common) in shapes {
                for v in 0..3 {
                    let mut t = mk(label.clone(), a.clone(), Arc::new(mainv[..bl].to_vec()), common, &mut rng);
                    t.b_history = hist.clone();
                    match v {
                        0 => {
                            t.batch = 1;
                            t.verifiers = 1;
                            t.policy = Policy::Fifo;
                        }
                        1 => t.policy = Policy::Fifo,
                        _ => {
                            t.loading_completed = true;
                            t.batch = 4;
                            t.policy = Policy::ReverseFetches;
                        }
                    }
                    scenarios.push(t);
                }
            }
        }

        // ---- wallet-version gate: A does not fetch from a peer that announces an older wallet version
        for (al, bl) in [(0usize, 5usize), (3, 12), (10, (*n).min(21))] {
            for (va, vb) in [((1u8, 2u8, 5u16), (1u8, 2u8, 4u16)), ((1, 2, 5), (0, 0, 0)), ((1, 2, 5), (1, 2, 5)), ((1, 2, 4), (1, 2, 5)), ((2, 0, 0), (1, 9, 9))] {
                for seq in [true, false] {
                    let mut t = mk(
                        format!("A prefix {}, B {}, wallet versions {:?}/{:?}", al, bl, va, vb),
                        Arc::new(mainv[..al].to_vec()),
                        Arc::new(mainv[..bl].to_vec()),
                        al,
                        &mut rng,
                    );
                    t.versions = Some((va, vb));
                    t.policy = Policy::Fifo;
                    if seq {
                        t.batch = 1;
                        t.verifiers = 1;
                    }
                    scenarios.push(t);
                }
            }
        }

        // ---- many fetches in flight completing in reverse with initial_loading_completed: a block far
        // above the tip arrives first (fetch-whole-chain answer of add_block when the distance reaches
        // min(1000, genesis_period)), then fetch-previous-block requests
        if *gp <= 30 {
            for al in [(*n).saturating_sub(*gp as usize + 2), (*n).saturating_sub(*gp as usize), (*n).saturating_sub(*gp as usize - 2)] {
                if al == 0 || al >= *n {
                    continue;
                }
                for pol in [Policy::ReverseFetches, Policy::Random] {
                    let mut t = mk(format!("A prefix {}, B {}, 25 fetches in flight", al, n), Arc::new(mainv[..al].to_vec()), Arc::new(mainv[..*n].to_vec()), al, &mut rng);
                    t.loading_completed = true;
                    t.batch = 25;
                    t.policy = pol;
                    scenarios.push(t);
                }
            }
        }

        // ---- lite (SPV) node A: ghost-chain sync
        {
            let main_pay = extend_opt(*gp, &empty, 0, (*n).min(28), 300, 0, 4).await.expect("paying chain");
            let payv = Arc::new(main_pay.blocks.clone());
            let mut lite: Vec<(String, Arc<Vec<Block>>, Arc<Vec<Block>>, usize)> = vec![];
            for bl in [3usize, 9, 12, 25, *n] {
                if bl <= *n {
                    lite.push((format!("lite A empty, B {}", bl), Arc::new(vec![]), Arc::new(mainv[..bl].to_vec()), 0));
                }
            }
            for (al, bl) in [(2usize, 6usize), (5, 12), (10, 21), (12, 25), (20, (*n).min(31))] {
                if bl <= *n && al < bl {
                    lite.push((format!("lite A ghost prefix {}, B {}", al, bl), Arc::new(mainv[..al].to_vec()), Arc::new(mainv[..bl].to_vec()), al));
                }
            }
            for (d, sa, bl) in [(2usize, 3usize, 9usize), (4, 3, 15), (10, 2, 20), (12, 9, 27), (20, 3, (*n).min(30))] {
                if bl > *n || d + sa >= bl {
                    continue;
                }
                if let Some(f) = extend(*gp, &main, d, sa, 200, 91 + d as u64).await {
                    lite.push((format!("lite A ghost fork at {} +{}, B {}", d, sa, bl), Arc::new(f.blocks.clone()), Arc::new(mainv[..bl].to_vec()), d));
                }
            }
            for bl in [6usize, 13, payv.len()] {
                if bl <= payv.len() {
                    lite.push((format!("lite A empty, B {} with payments to A", bl), Arc::new(vec![]), Arc::new(payv[..bl].to_vec()), 0));
                }
            }
            if payv.len() > 14 {
                lite.push((format!("lite A ghost prefix 6, B {} with payments to A", payv.len()), Arc::new(payv[..6].to_vec()), payv.clone(), 6));
            }
            for (label, a, b, common) in lite {
                for v in 0..2 {
                    let mut t = mk(label.clone(), a.clone(), b.clone(), common, &mut rng);
                    t.a_lite = true;
                    // blocks to fetch exist only in the "payments" chains; their completion order is the
                    // subject of the full-node scenarios, here they complete in request order
                    t.policy = if v == 0 || label.contains("payments") { Policy::Fifo } else { Policy::Random };
                    if v == 0 {
                        t.batch = 1;
                        t.verifiers = 1;
                    }
                    scenarios.push(t);
                }
            }
            // two phases through the real handlers only: A syncs B's first k blocks, B grows, A asks again
            for (k, bl) in [(4usize, 9usize), (12, 25), (20, 30), ((*gp as usize * 2).min(*n) - 4, *n)] {
                if k < bl && bl <= *n {
                    let mut t = mk(format!("lite A empty, B {} growing to {}", k, bl), Arc::new(vec![]), Arc::new(mainv[..bl].to_vec()), 0, &mut rng);
                    t.a_lite = true;
                    t.b_growth = bl - k;
                    t.policy = Policy::Fifo;
                    scenarios.push(t);
                }
            }
        }
        // ---- A has further peers besides B: a second announcer that serves, one that announces
        // unknown blocks and never answers, one without a fetch url
        for (al, bl) in [(0usize, 6usize), (3, 14), (10, (*n).min(25))] {
            for extras in [
                vec![Extra::SecondServer],
                vec![Extra::Hoarder],
                vec![Extra::NoUrl],
                vec![Extra::Hoarder, Extra::SecondServer],
                vec![Extra::NoUrl, Extra::SecondServer, Extra::Hoarder],
            ] {
                for v in 0..3 {
                    let mut t = mk(
                        format!("A prefix {}, B {}, further peers {:?}", al, bl, extras),
                        Arc::new(mainv[..al].to_vec()),
                        Arc::new(mainv[..bl].to_vec()),
                        al,
                        &mut rng,
                    );
                    t.extra_peers = extras.clone();
                    match v {
                        0 => {
                            t.batch = 1;
                            t.verifiers = 1;
                            t.policy = Policy::Fifo;
                        }
                        1 => {
                            t.policy = Policy::Fifo;
                            t.loading_completed = true;
                        }
                        _ => {
                            t.policy = Policy::Random;
                            t.loading_completed = true;
                            t.batch = 3;
                        }
                    }
                    scenarios.push(t);
                }
            }
        }
        // ---- fork blocks of B's heights wait in A's mempool block queue: blocks of another fork
        // (same heights as blocks A needs from B, other hashes) whose parents never arrived - their
        // source peer is gone - and which add_block keeps answering "retry" for (initial loading
        // completed), or which arrive from that source during the exchange.  A must still fetch
        // B's block of every such height and end on B's tip.
        {
            let mut shapes: Vec<(String, Arc<Vec<Block>>, usize, usize)> = vec![];
            for (al, bl) in [(3usize, 12usize), (10, 21), (11, 25), (*n - 9, *n)] {
                if bl <= *n && al < bl {
                    shapes.push((format!("A prefix {}, B {}", al, bl), Arc::new(mainv[..al].to_vec()), al, bl));
                }
            }
            for (d, sa, bl, dt) in [(9usize, 2usize, 20usize, 200u64), (3, 3, 11, 1000), (10, 1, 13, 200)] {
                if bl <= *n {
                    if let Some(f) = extend(*gp, &main, d, sa, dt, 131 + d as u64 + 100 * gi as u64).await {
                        let common = f.blocks.iter().zip(mainv[..bl].iter()).take_while(|(x, y)| x.hash == y.hash).count();
                        // only forks of A from which B's chain is adopted when delivered in order
                        let mut probe = Node::new(&params(*gp, true), 2);
                        for b in f.blocks.iter().chain(mainv[common..bl].iter()) {
                            probe.add_block(b.clone()).await;
                        }
                        if probe.blockchain.get_latest_block_hash() != mainv[bl - 1].hash {
                            progress(&format!("queued family: A fork at {} +{} does not adopt B {}", d, sa, bl));
                            continue;
                        }
                        shapes.push((format!("A fork at {} +{}, B {}", common, f.blocks.len() - common, bl), Arc::new(f.blocks.clone()), common, bl));
                    }
                }
            }
            for (si, (label, a, common, bl)) in shapes.into_iter().enumerate() {
                let al = a.len();
                for v in 0..5usize {
                    // the queued blocks: heights chosen by the PRNG around the blocks A needs
                    let lo = common + 1; // first height at which A needs B's block
                    let hi = bl.min(lo + (*gp as usize).min(12) - 2); // (a block too far from the tip is dropped or asks for the chain)
                    let h = match rng.below(6) {
                        0 => lo,
                        1 => bl.min(al + 1).max(lo),
                        2 => hi,
                        _ => rng.range(lo as u64, hi as u64) as usize,
                    };
                    let run = if rng.chance(1, 3) && h < bl { 2usize } else { 1 };
                    // a fork leaving the main chain two blocks below h: its block of height h has a parent A never gets
                    let d = h.saturating_sub(2).min(common.saturating_sub(if rng.chance(1, 2) { 0 } else { 1 }));
                    let salt = 151 + 10 * si as u64 + v as u64 + 100 * gi as u64;
                    let f = match extend(*gp, &main, d, h + run - 1 - d, *rng.pick(&[200u64, 400, 1000]), salt).await {
                        Some(f) => f,
                        None => {
                            progress(&format!("queued family: no fork at {} up to {} (salt {})", d, h + run - 1, salt));
                            continue;
                        }
                    };
                    let queued: Vec<Block> = f.blocks[h - 1..h - 1 + run].to_vec();
                    let known: BTreeSet<SaitoHash> = a.iter().chain(mainv[..bl].iter()).map(|x| x.hash).collect();
                    if queued.iter().any(|q| known.contains(&q.hash)) || known.contains(&queued[0].previous_block_hash) {
                        progress(&format!("queued family: fork at {} gives no parentless block of height {} (salt {})", d, h, salt));
                        continue;
                    }
                    let mut t = mk(
                        format!("{}, fork blocks {:?} in A's mempool queue", label, queued.iter().map(|q| q.id).collect::<Vec<_>>()),
                        a.clone(),
                        Arc::new(mainv[..bl].to_vec()),
                        common,
                        &mut rng,
                    );
                    t.a_queued = Arc::new(queued);
                    t.loading_completed = true;
                    match v {
                        0 => {
                            t.batch = 1;
                            t.verifiers = 1;
                            t.policy = Policy::Fifo;
                        }
                        1 => t.policy = Policy::Fifo,
                        2 => {
                            t.policy = Policy::Random;
                            t.batch = *rng.pick(&[2usize, 3, 10]);
                            t.a_queued_late = true;
                        }
                        3 => {
                            t.policy = Policy::Random;
                            t.batch = *rng.pick(&[1usize, 4, 10]);
                            t.verifiers = *rng.pick(&[1usize, 2]);
                            t.fail = FailPlan::Random { pct: 20 };
                        }
                        _ => {
                            t.batch = 1;
                            t.verifiers = 1;
                            t.policy = Policy::Random;
                            t.a_queued_late = true;
                            t.duplicates = true;
                        }
                    }
                    scenarios.push(t);
                }
            }
        }
        // full node, two phases as well
        for (al, k, bl) in [(0usize, 5usize, 12usize), (3, 10, 21), (10, 11, 25)] {
            if bl <= *n {
                for seq in [true, false] {
                    let mut t = mk(format!("A prefix {}, B {} growing to {}", al, k, bl), Arc::new(mainv[..al].to_vec()), Arc::new(mainv[..bl].to_vec()), al, &mut rng);
                    t.b_growth = bl - k;
                    t.policy = Policy::Fifo;
                    if seq {
                        t.batch = 1;
                        t.verifiers = 1;
                    }
                    scenarios.push(t);
                }
            }
        }
    }

    progress(&format!("part2: {} scenarios built", scenarios.len()));
    // bounded exhaustive exploration of the small cases
    let mut enumerated_runs = 0u64;
    let mut enumerated_complete = 0u64;
    let mut enumerated_cases = 0u64;
    {
        let gp = 100u64;
        let main = extend(gp, &empty, 0, 6, 300, 0).await.expect("small main");
        let fork1 = extend(gp, &main, 1, 1, 200, 77).await.expect("small fork");
        let fork2 = extend(gp, &main, 2, 2, 200, 78).await.expect("small fork");
        let small: Vec<(String, Vec<Block>, Vec<Block>, usize)> = vec![
            ("A empty, B 2".to_string(), vec![], main.blocks[..2].to_vec(), 0),
            ("A empty, B 3".to_string(), vec![], main.blocks[..3].to_vec(), 0),
            ("A prefix 1, B 3".to_string(), main.blocks[..1].to_vec(), main.blocks[..3].to_vec(), 1),
            ("A prefix 2, B 5".to_string(), main.blocks[..2].to_vec(), main.blocks[..5].to_vec(), 2),
            ("A fork at 1 +1, B 4".to_string(), fork1.blocks.clone(), main.blocks[..4].to_vec(), 1),
            ("A fork at 2 +2, B 6".to_string(), fork2.blocks.clone(), main.blocks[..6].to_vec(), 2),
        ];
        let budget = if thorough { 4000 } else { 500 };
        for (label, a, b, common) in small {
            for (batch, verifiers, lc) in [(1usize, 1usize, false), (2, 1, false), (10, 2, false), (10, 2, true), (2, 2, true)] {
                let sc = Scenario {
                    label: format!("{} [enumerated]", label),
                    gp,
                    loading_completed: lc,
                    a_chain: Arc::new(a.clone()),
                    b_chain: Arc::new(b.clone()),
                    common,
                    batch,
                    verifiers,
                    a_serves: false,
                    fail: FailPlan::None,
                    duplicates: false,
                    policy: Policy::Enumerated,
                    seed: 1,
                    b_history: Arc::new(vec![]),
                    a_lite: false,
                    b_growth: 0,
                    versions: None,
                    extra_peers: vec![],
                    a_queued: Arc::new(vec![]),
                    a_queued_late: false,
                };
                let mut forced: Vec<usize> = vec![];
                let mut runs = 0;
                let mut complete = false;
                let case_no = summary.case_descs.len();
                if let Some(only) = &args.replay {
                    if only.parse::<usize>().ok() != Some(case_no) {
                        summary.case_descs.push("{}".to_string());
                        continue;
                    }
                }
                let mut worst: Option<(Vec<usize>, Judged, RunOut)> = None;
                let mut n_conv = 0u64;
                let mut n_cbp = 0u64;
                loop {
                    let out = run_scenario(&sc, &forced, false).await;
                    runs += 1;
                    let j = judge_run(&sc, &out).await;
                    if j.converged {
                        n_conv += 1;
                    }
                    if out.child_before_parent.iter().any(|e| e.reordered) {
                        n_cbp += 1;
                    }
                    let bad = !j.failures.is_empty() || !j.known.is_empty();
                    let trace = out.choice_trace.clone();
                    if bad && (worst.is_none() || (!j.failures.is_empty() && worst.as_ref().unwrap().1.failures.is_empty())) {
                        worst = Some((forced.clone(), j, out));
                    }
                    // next schedule in lexicographic order
                    let mut t = trace.len();
                    let mut next = None;
                    while t > 0 {
                        t -= 1;
                        if trace[t].0 + 1 < trace[t].1 {
                            let mut f: Vec<usize> = trace[..t].iter().map(|x| x.0).collect();
                            f.push(trace[t].0 + 1);
                            next = Some(f);
                            break;
                        }
                    }
                    match next {
                        Some(f) if runs < budget => forced = f,
                        Some(_) => break,
                        None => {
                            complete = true;
                            break;
                        }
                    }
                }
                progress(&format!("enumerated {} batch {} verifiers {} lc {}: {} runs complete {}", sc.label, batch, verifiers, lc, runs, complete));
                enumerated_runs += runs as u64;
                enumerated_cases += 1;
                if complete {
                    enumerated_complete += 1;
                }
                let desc = format!(
                    "{{\"scenario\":{},\"schedules_run\":{},\"all_schedules_covered\":{},\"converged\":{},\"schedules_with_child_before_parent\":{}{}}}",
                    sc.json(),
                    runs,
                    complete,
                    n_conv,
                    n_cbp,
                    match &worst {
                        Some((f, _, _)) => format!(",\"failing_schedule_choices\":{:?}", f),
                        None => String::new(),
                    }
                );
                if let (Some(_), Some((f, _, _))) = (&args.replay, &worst) {
                    eprintln!("replaying schedule {:?} of {}", f, desc);
                    replay_logging(true);
                    let out = run_scenario(&sc, f, true).await;
                    replay_logging(false);
                    for t in &out.trace {
                        eprintln!("  {}", t);
                    }
                    eprintln!("a_tip {:?} b_tip {:?} child_before_parent {:?} panics {:?}", out.a_tip.0, out.b_tip.0, out.child_before_parent, out.panics);
                }
                if let Some((_, j, _)) = &worst {
                    for f in &j.failures {
                        summary.oracle_failure(case_no, f, &desc);
                    }
                    for (id, what) in &j.known {
                        summary.known_hit(id, case_no, what);
                    }
                }
                summary.count("p2_enumerated", if complete { "all schedules" } else { "budget reached" });
                summary.count("p2_mode", if sc.sequential() { "sequential" } else { "concurrent" });
                if distinct.insert(desc.clone()) {
                    summary.nontrivial += 1;
                }
                summary.case_descs.push(desc);
            }
        }
    }

    // scripted + random scenarios
    let mut n_adoptable = 0u64;
    let mut n_converged = 0u64;
    let mut p2_cases: Vec<(usize, String)> = vec![];
    for sc in &scenarios {
        let case_no = summary.case_descs.len();
        if let Some(only) = &args.replay {
            if only.parse::<usize>().ok() != Some(case_no) {
                summary.case_descs.push("{}".to_string());
                continue;
            }
        }
        replay_logging(args.replay.is_some());
        let out = run_scenario(sc, &[], args.replay.is_some()).await;
        replay_logging(false);
        let j = judge_run(sc, &out).await;
        if case_no % 50 == 0 {
            progress(&format!("scenario case {}", case_no));
        }
        let desc = format!(
            "{{\"scenario\":{},\"steps\":{},\"a_tip\":{},\"b_tip\":{},\"adoptable\":{},\"converged\":{},\"headers_to_a\":{},\"blocks_requested\":{},\"fetch_failures\":{},\"duplicate_completions\":{},\"child_before_parent\":{:?},\"max_pending\":{}}}",
            sc.json(),
            out.steps,
            out.a_tip.0,
            out.b_tip.0,
            j.adoptable,
            j.converged,
            out.headers_to_a,
            out.requested.len(),
            out.fetch_failures,
            out.dup_deliveries,
            out.child_before_parent.iter().filter(|e| e.reordered).map(|e| e.id).collect::<Vec<_>>(),
            out.max_pending
        );
        if args.replay.is_some() {
            eprintln!("{}", desc);
            for t in &out.trace {
                eprintln!("  {}", t);
            }
        }
        for f in &j.failures {
            summary.oracle_failure(case_no, f, &desc);
        }
        for (id, what) in &j.known {
            summary.known_hit(id, case_no, what);
        }
        if let Some(c) = p2_case(sc, &out) {
            p2_cases.push((case_no, c));
        }
        if j.adoptable {
            n_adoptable += 1;
        }
        if j.converged {
            n_converged += 1;
        }
        summary.count("p2_gp", &format!("{}", sc.gp));
        summary.count(
            "p2_family",
            if sc.a_lite {
                "lite node (ghost chain)"
            } else if sc.versions.is_some() {
                if sc.version_gate_closed() { "wallet-version gate closed" } else { "wallet versions set, gate open" }
            } else if !sc.a_queued.is_empty() {
                "fork blocks of B's heights in A's mempool queue"
            } else if !sc.extra_peers.is_empty() {
                "A has further peers"
            } else if !sc.b_history.is_empty() {
                "B reorganised before"
            } else if sc.batch >= 20 {
                "25 fetches in flight"
            } else {
                "base"
            },
        );
        summary.count("p2_retry_events", &format!("fetch-previous {} / fetch-chain {}", out.retry_events.0.min(3), out.retry_events.1.min(3)));
        if sc.a_lite {
            summary.count("p2_lite_fetches", &format!("{}", out.requested.len().min(8)));
        }
        if !sc.a_queued.is_empty() {
            let (at, bt) = (sc.a_chain.len() as u64, sc.b_chain.len() as u64);
            for q in sc.a_queued.iter() {
                summary.count(
                    "p2_queued_fork_block_height",
                    if q.id <= at {
                        "at or below A's tip"
                    } else if q.id == at + 1 {
                        "A's tip + 1 (first block A needs)"
                    } else if q.id == bt {
                        "B's tip"
                    } else if q.id < bt {
                        "inside the suffix A needs"
                    } else {
                        "above B's tip"
                    },
                );
            }
            summary.count("p2_queued_fork_blocks", &format!("{} {}", sc.a_queued.len(), if sc.a_queued_late { "arriving during the exchange" } else { "queued when the peers connect" }));
            summary.count("p2_queued_still_in_queue_at_end", &format!("{}", out.a_queue_left.min(3)));
        }
        summary.count("p2_mode", if sc.sequential() { "sequential" } else { "concurrent" });
        summary.count("p2_loading_completed", &format!("{}", sc.loading_completed));
        summary.count("p2_policy", &format!("{:?}", sc.policy));
        summary.count("p2_shape", sc.label.split(',').next().unwrap_or("?").split(" at ").next().unwrap_or("?"));
        summary.count(
            "p2_outcome",
            match (j.adoptable, j.converged) {
                (true, true) => "adoptable, converged",
                (true, false) => "adoptable, NOT converged",
                (false, true) => "not adoptable in order, converged anyway",
                (false, false) => "not adoptable, stays",
            },
        );
        summary.count("p2_child_before_parent", &format!("{}", out.child_before_parent.iter().any(|e| e.reordered)));
        summary.count("p2_fetch_failures", &format!("{}", out.fetch_failures.min(5)));
        summary.count("p2_max_pending", &format!("{}", (out.max_pending / 3) * 3));
        // non-trivial: A had to fetch at least one block and B's chain is adoptable
        if !out.requested.is_empty() && j.adoptable && distinct.insert(desc.clone()) {
            summary.nontrivial += 1;
        }
        if summary.samples.len() < 4 && case_no % 37 == 0 {
            summary.samples.push(desc.clone());
        }
        summary.case_descs.push(desc);
    }

    summary.evaluations = summary.case_descs.len() as u64;
    summary.notes.push(format!(
        "part 1: {} (mine, peer) pairs evaluated on the real generate_fork_id / generate_last_shared_ancestor and by the Coq model; part 2: {} enumerated small configurations ({} protocol runs, {} configurations with every schedule of A's events covered), {} scripted/random protocol runs ({} adoptable, {} converged)",
        n_part1, enumerated_cases, enumerated_runs, enumerated_complete, scenarios.len(), n_adoptable, n_converged
    ));
    let files = write_numbered_shards(&format!("{}/cases", args.out), "C15", &coq_header(), CASE_TYPE, &p1.coq_cases, args.shards).unwrap();
    summary.notes.push(format!("{} of the part-1 pairs (all synthetic ones, a sample of the real-chain ones) are evaluated by the Coq model", p1.coq_cases.len()));
    let mut files = files;
    files.extend(write_numbered_shards(&format!("{}/cases", args.out), "C15sync", &p2_header(), P2_CASE_TYPE, &p2_cases, args.shards).unwrap());
    summary.notes.push(format!(
        "{} protocol runs (no handler panic, all ids within the regime of the Coq chain model) are replayed by the Coq sync model (SyncProto.run_fetched on A's chain and the recorded arrival order at A's consensus thread) and compared on A's final tip",
        p2_cases.len()
    ));
    summary.case_files = files;
    summary.write(&args.out);
    // bin/check reads "model_cases" for the wording of the correspondence obligation
    let path = format!("{}/summary.json", args.out);
    if let Ok(text) = std::fs::read_to_string(&path) {
        let n = p1.coq_cases.len() + p2_cases.len();
        let _ = std::fs::write(&path, text.replacen("{\n", &format!("{{\n\"model_cases\": {},\n", n), 1));
    }
}
