//! C16 — block-fetch scheduler: runs operation sequences on the real
//! `BlockchainSyncState`, records the observable trace (selection of each
//! round + snapshot of the per-peer deques), writes Coq case files comparing it
//! with `SyncState.trace`, and evaluates the property directly on the
//! implementation (oracle).
use std::collections::{BTreeMap, BTreeSet};
use std::panic::{catch_unwind, AssertUnwindSafe};
use std::sync::Arc;

use saito_core::core::consensus::block::Block;
use saito_core::core::consensus::blockchain::Blockchain;
use saito_core::core::consensus::blockchain_sync_state::BlockchainSyncState;
use saito_core::core::consensus::peers::peer::Peer;
use saito_core::core::consensus::peers::peer_collection::PeerCollection;
use saito_core::core::consensus::wallet::Wallet;
use saito_core::core::consensus::mempool::Mempool;
use saito_core::core::defs::{StatVariable, STAT_BIN_COUNT};
use saito_core::core::io::network::Network;
use saito_core::core::io::network_event::NetworkEvent;
use saito_core::core::io::storage::Storage;
use saito_core::core::process::keep_time::{KeepTime, Timer};
use saito_core::core::process::process_event::ProcessEvent;
use saito_core::core::routing_thread::{RoutingStats, RoutingThread};
use saito_core::core::util::configuration::Configuration;
use std::sync::Mutex;
use tokio::sync::RwLock;
use verif_harness::world::{Disk, MemIo, Params};
use verif_harness::common::{Args, Summary};
use verif_harness::gal;
use verif_harness::rng::Rng;

#[derive(Clone, Debug)]
enum Op {
    Add { hash: u64, id: u64, peer: u64 },
    Build { known: Vec<u64> },
    Select,
    Fetched { hash: u64 },
    Failed { id: u64, hash: u64, peer: u64 },
    Remove { hash: u64 },
}

fn h32(h: u64) -> [u8; 32] {
    // big-endian number: byte order == numeric order
    let mut out = [0u8; 32];
    out[24..32].copy_from_slice(&h.to_be_bytes());
    out
}
fn unh(h: &[u8; 32]) -> u64 {
    u64::from_be_bytes(h[24..32].try_into().unwrap())
}

impl Op {
    fn gallina(&self) -> String {
        match self {
            Op::Add { hash, id, peer } => format!("OAdd {} {} {}", hash, id, peer),
            Op::Build { known } => format!("OBuild {}", gal::nlist(known)),
            Op::Select => "OSelect".to_string(),
            Op::Fetched { hash } => format!("OFetched {}", hash),
            Op::Failed { id, hash, peer } => format!("OFailed {} {} {}", id, hash, peer),
            Op::Remove { hash } => format!("ORemove {}", hash),
        }
    }
    fn json(&self) -> String {
        format!("\"{}\"", self.gallina())
    }
}

struct Case {
    batch: u64,
    url_peers: Vec<u64>,
    ops: Vec<Op>,
    kind: &'static str,
}

type Snapshot = Vec<(u64, Vec<(u64, u64, u8, u32)>)>;

struct RunResult {
    trace: Vec<Vec<Vec<u64>>>,
    oracle_failures: Vec<String>,
    rounds_with_selection: u64,
    max_inflight: u64,
    panicked: bool,
}

fn panic_site(msg: &str) -> u64 {
    if msg.contains("peer index 0") {
        1
    } else if msg.contains("subtract with overflow") {
        2
    } else if msg.contains("unwrap()") && msg.contains("None") {
        3
    } else {
        0
    }
}

fn run_case(rt: &tokio::runtime::Runtime, case: &Case) -> RunResult {
    let wallet = Arc::new(RwLock::new(Wallet::new([1u8; 32], [2u8; 33])));
    let mut blockchain = Blockchain::new(wallet, 100, 0, 0);
    let mut peers = PeerCollection::default();
    // all peers 1..=3 exist; those in url_peers have a fetch url
    for p in 1..=3u64 {
        let mut peer = Peer::new(p);
        if case.url_peers.contains(&p) {
            peer.block_fetch_url = format!("http://peer{}/block/", p);
        }
        peers.index_to_peers.insert(p, peer);
    }
    let peers = Arc::new(RwLock::new(peers));
    let mut st = BlockchainSyncState::new(case.batch as usize);

    let mut res = RunResult {
        trace: vec![],
        oracle_failures: vec![],
        rounds_with_selection: 0,
        max_inflight: 0,
        panicked: false,
    };
    let mut prev: Snapshot = vec![];
    // ghost: number of hand-outs per live entry (peer, id, hash)
    let mut handed: BTreeMap<(u64, u64, u64), u64> = BTreeMap::new();

    // ghost, environment side: fetches that were requested and for which no BlockFetched /
    // BlockFetchFailed / removal naming that very (peer, id, hash) has been delivered yet
    let mut in_flight: BTreeSet<(u64, u64, u64)> = BTreeSet::new();
    // ghost: requests per (peer, id, hash) over the whole run; a lifetime ends only when the
    // block is reported fetched or removed (an entry that silently disappears and is announced
    // again must not get a fresh retry budget)
    let mut requested_total: BTreeMap<(u64, u64, u64), u64> = BTreeMap::new();
    // ghost: (peer, id, hash) announced so far
    let mut announced: BTreeSet<(u64, u64, u64)> = BTreeSet::new();

    for (k, op) in case.ops.iter().enumerate() {
        let mut sel_rows: Vec<Vec<u64>> = vec![];
        let outcome = catch_unwind(AssertUnwindSafe(|| match op {
            Op::Add { hash, id, peer } => {
                rt.block_on(st.add_entry(h32(*hash), *id, *peer, peers.clone()));
            }
            Op::Build { known } => {
                blockchain.blocks.clear();
                for h in known {
                    blockchain.blocks.insert(h32(*h), Block::new());
                }
                st.verif_build_peer_block_picture(&blockchain);
            }
            Op::Select => {
                let map = st.get_blocks_to_fetch_per_peer();
                let mut peers_sorted: Vec<_> = map.into_iter().collect();
                peers_sorted.sort_by_key(|(p, _)| *p);
                for (p, v) in peers_sorted {
                    for (hash, id) in v {
                        sel_rows.push(vec![p, unh(&hash), id]);
                    }
                }
            }
            Op::Fetched { hash } => st.mark_as_fetched(h32(*hash)),
            Op::Failed { id, hash, peer } => st.mark_as_failed(*id, h32(*hash), *peer),
            Op::Remove { hash } => st.remove_entry(h32(*hash)),
        }));
        if let Err(e) = outcome {
            let msg = if let Some(s) = e.downcast_ref::<String>() {
                s.clone()
            } else if let Some(s) = e.downcast_ref::<&str>() {
                s.to_string()
            } else {
                "?".to_string()
            };
            res.trace.push(vec![vec![999, panic_site(&msg)]]);
            res.oracle_failures
                .push(format!("op {} ({}) panicked: {}", k, op.gallina(), msg));
            res.panicked = true;
            break;
        }
        let snap: Snapshot = st
            .verif_snapshot()
            .into_iter()
            .map(|(p, v)| {
                (
                    p,
                    v.into_iter()
                        .map(|(id, h, s, r)| (id, unh(&h), s, r))
                        .collect(),
                )
            })
            .collect();
        let total: u64 = snap.iter().map(|(_, v)| v.len() as u64).sum();
        if total != st.get_fetching_block_count() {
            res.oracle_failures
                .push(format!("op {}: get_fetching_block_count mismatch", k));
        }

        // ---- direct oracle on the implementation ----
        // no peer is kept with an empty queue (front().unwrap() sites rely on it), and the
        // statistics line of every peer agrees with its queue
        let stats = st.get_stats();
        for (p, v) in &snap {
            if v.is_empty() {
                res.oracle_failures
                    .push(format!("op {}: peer {} is kept with an empty queue", k, p));
                continue;
            }
            let want = format!(
                "peer : {:?} lowest_id: {:?} fetching_count : {:?} ordered_till : {:?} ",
                p,
                v.first().unwrap().0,
                v.iter().filter(|e| e.2 == 1).count(),
                v.last().unwrap().0
            );
            if !stats.iter().any(|l| l.contains(&want)) {
                res.oracle_failures.push(format!(
                    "op {}: get_stats has no line '{}' (lines: {:?})",
                    k,
                    want.trim(),
                    stats.iter().map(|l| l.trim_start_matches("routing::sync_state").trim().to_string()).collect::<Vec<_>>()
                ));
            }
        }
        if stats.len() != snap.len() {
            res.oracle_failures
                .push(format!("op {}: get_stats reports {} peers, {} are tracked", k, stats.len(), snap.len()));
        }
        // an entry leaves a peer's queue only when its block was reported fetched or removed, or is
        // already known when the picture is built (entries in status Fetched may be dropped at any
        // time): a block the node has merely given up on must stay, or a re-announcement would
        // give it a fresh retry budget
        for (p, before) in &prev {
            let now = snap.iter().find(|(pp, _)| pp == p).map(|x| &x.1);
            for e in before {
                if e.2 == 2 {
                    continue;
                }
                let still = now.map(|v| v.iter().any(|n| n.0 == e.0 && n.1 == e.1)).unwrap_or(false);
                if still {
                    continue;
                }
                let explained = match op {
                    Op::Fetched { hash } | Op::Remove { hash } => *hash == e.1,
                    Op::Build { known } => known.contains(&e.1),
                    _ => false,
                };
                if !explained {
                    res.oracle_failures.push(format!(
                        "op {} ({}): peer {} no longer tracks block ({},{}) (status {}, retries {}) although it was neither reported fetched nor removed",
                        k, op.gallina(), p, e.0, e.1, e.2, e.3
                    ));
                }
            }
        }
        // every tracked entry was announced for that peer: by the peer itself, or -- a block wanted
        // from "any peer" (index 0) -- for a peer that has a fetch url. An entry at a peer without
        // url can never be requested and is discarded for ALL peers by the routing layer
        if let Op::Add { hash, id, peer } = op {
            if *peer == 0 {
                for p in &case.url_peers {
                    announced.insert((*p, *id, *hash));
                }
            } else {
                announced.insert((*peer, *id, *hash));
            }
        }
        for (p, v) in &snap {
            for e in v {
                if !announced.contains(&(*p, e.0, e.1)) {
                    res.oracle_failures.push(format!(
                        "op {}: peer {} tracks block ({},{}) that was never announced for it (a block wanted from any peer goes to peers with a fetch url only: {:?})",
                        k, p, e.0, e.1, case.url_peers
                    ));
                }
            }
        }
        match op {
            Op::Fetched { hash } | Op::Remove { hash } => {
                // the block has arrived (or is no longer wanted): at EVERY peer that tracked it one
                // entry with that hash leaves the queued / in-flight / failed states
                for (p, before) in &prev {
                    let k_before = before.iter().filter(|e| e.1 == *hash && e.2 != 2).count();
                    if k_before == 0 {
                        continue;
                    }
                    let k_after = snap
                        .iter()
                        .find(|(pp, _)| pp == p)
                        .map(|(_, v)| v.iter().filter(|e| e.1 == *hash && e.2 != 2).count())
                        .unwrap_or(0);
                    if k_after >= k_before {
                        res.oracle_failures.push(format!(
                            "op {} ({}): peer {} still tracks the block with hash {} as wanted after it was reported fetched / removed ({} entr(ies) before, {} after): it keeps a quota slot or is requested again",
                            k, op.gallina(), p, hash, k_before, k_after
                        ));
                    }
                }
                in_flight.retain(|x| x.2 != *hash);
                requested_total.retain(|x, _| x.2 != *hash);
            }
            Op::Failed { id, hash, peer } => {
                in_flight.remove(&(*peer, *id, *hash));
                // a failure report names one fetch: every other entry stays as it was
                for (p, v) in &snap {
                    let before = prev.iter().find(|(pp, _)| pp == p).map(|x| &x.1);
                    for e in v {
                        if (*p, e.0, e.1) == (*peer, *id, *hash) {
                            continue;
                        }
                        let was = before.and_then(|b| b.iter().find(|o| o.0 == e.0 && o.1 == e.1));
                        if was != Some(e) {
                            res.oracle_failures.push(format!(
                                "op {}: failure report for fetch ({},{}) of peer {} changed another entry: peer {} ({},{}) {:?} -> {:?}",
                                k, id, hash, peer, p, e.0, e.1, was.map(|o| (o.2, o.3)), (e.2, e.3)
                            ));
                        }
                    }
                }
            }
            _ => {}
        }
        for (p, v) in &snap {
            let inflight = v.iter().filter(|e| e.2 == 1).count() as u64;
            res.max_inflight = res.max_inflight.max(inflight);
            if inflight > case.batch {
                res.oracle_failures.push(format!(
                    "op {}: peer {} has {} fetches in flight > batch {}",
                    k, p, inflight, case.batch
                ));
            }
            let keys: BTreeSet<(u64, u64)> = v.iter().map(|e| (e.0, e.1)).collect();
            if keys.len() != v.len() {
                res.oracle_failures
                    .push(format!("op {}: peer {} holds a duplicate (id,hash) entry", k, p));
            }
            for e in v {
                if e.3 > 501 {
                    res.oracle_failures
                        .push(format!("op {}: peer {} retry counter {} > 501", k, p, e.3));
                }
            }
        }
        if let Op::Select = op {
            if !sel_rows.is_empty() {
                res.rounds_with_selection += 1;
            }
            let mut per_peer: BTreeMap<u64, Vec<(u64, u64)>> = BTreeMap::new();
            for r in &sel_rows {
                per_peer.entry(r[0]).or_default().push((r[2], r[1]));
            }
            for (p, sel) in &per_peer {
                if sel.windows(2).any(|w| w[0].0 > w[1].0) {
                    res.oracle_failures.push(format!(
                        "op {}: peer {} selection not in non-decreasing height order {:?}",
                        k, p, sel
                    ));
                }
                let uniq: BTreeSet<_> = sel.iter().collect();
                if uniq.len() != sel.len() {
                    res.oracle_failures
                        .push(format!("op {}: peer {} selection repeats an entry", k, p));
                }
                let before = prev.iter().find(|(pp, _)| pp == p).map(|x| &x.1);
                let mut max_sel = (0u64, 0u64);
                for (id, hash) in sel {
                    max_sel = max_sel.max((*id, *hash));
                    let was = before.and_then(|v| v.iter().find(|e| e.0 == *id && e.1 == *hash));
                    match was {
                        Some(e) if e.2 == 0 => {}
                        Some(e) => res.oracle_failures.push(format!(
                            "op {}: peer {} handed out ({},{}) whose status was {} (in flight twice / not queued)",
                            k, p, id, hash, e.2
                        )),
                        None => res.oracle_failures.push(format!(
                            "op {}: peer {} handed out ({},{}) that was not in its queue",
                            k, p, id, hash
                        )),
                    }
                    let t = requested_total.entry((*p, *id, *hash)).or_insert(0);
                    *t += 1;
                    if *t > 501 {
                        res.oracle_failures.push(format!(
                            "op {}: block ({},{}) has been requested from peer {} {} times without being reported fetched or removed in between (retry budget 500)",
                            k, id, hash, p, t
                        ));
                    }
                    if !in_flight.insert((*p, *id, *hash)) {
                        res.oracle_failures.push(format!(
                            "op {}: peer {} is asked for ({},{}) again while the earlier request is still in flight (no fetched / failed report for it was delivered)",
                            k, p, id, hash
                        ));
                    }
                    let c = handed.entry((*p, *id, *hash)).or_insert(0);
                    *c += 1;
                    if *c > 501 {
                        res.oracle_failures.push(format!(
                            "op {}: peer {} entry ({},{}) requested {} times",
                            k, p, id, hash, c
                        ));
                    }
                }
                // a queued entry left behind must sort after everything handed out
                if let Some(v) = before {
                    for e in v {
                        if e.2 == 0 && !sel.contains(&(e.0, e.1)) && (e.0, e.1) < max_sel {
                            res.oracle_failures.push(format!(
                                "op {}: peer {} left queued ({},{}) behind handed-out {:?}",
                                k, p, e.0, e.1, max_sel
                            ));
                        }
                    }
                }
            }
            // completeness of a round: free quota is used while queued entries remain
            for (p, v) in &snap {
                let inflight = v.iter().filter(|e| e.2 == 1).count() as u64;
                let before = prev.iter().find(|(pp, _)| pp == p).map(|x| &x.1);
                if let Some(b) = before {
                    let eligible_before = b
                        .iter()
                        .filter(|e| e.2 == 0 || (e.2 == 3 && e.3 < 500))
                        .count() as u64;
                    let inflight_before = b.iter().filter(|e| e.2 == 1).count() as u64;
                    let handed_now = per_peer.get(p).map(|s| s.len()).unwrap_or(0) as u64;
                    let requeued = b
                        .iter()
                        .filter(|e| e.2 == 3)
                        .filter(|e| {
                            v.iter()
                                .any(|n| n.0 == e.0 && n.1 == e.1 && n.2 == 0 && n.3 == e.3 + 1)
                        })
                        .count() as u64;
                    let free = case.batch.saturating_sub(inflight_before);
                    if handed_now + requeued < free.min(eligible_before) {
                        res.oracle_failures.push(format!(
                            "op {}: peer {} round used {} of free quota {} with {} eligible entries waiting",
                            k, p, handed_now + requeued, free, eligible_before
                        ));
                    }
                }
                let _ = inflight;
            }
        }
        // forget ghost counters of entries that left the queues
        let live: BTreeSet<(u64, u64, u64)> = snap
            .iter()
            .flat_map(|(p, v)| v.iter().map(move |e| (*p, e.0, e.1)))
            .collect();
        handed.retain(|k, _| live.contains(k));
        in_flight.retain(|k| live.contains(k));

        let mut rows = sel_rows;
        rows.push(vec![777, total]);
        for (p, v) in &snap {
            for e in v {
                rows.push(vec![*p, e.0, e.1, e.2 as u64, e.3 as u64]);
            }
        }
        res.trace.push(rows);
        prev = snap;
    }
    if std::env::var("VERIF_C16_DEBUG").is_ok() && case.kind == "retry-exhaustion" {
        eprintln!("requested_total {:?} final {:?}", requested_total, prev);
    }
    res
}

fn gen_random(rng: &mut Rng, len: usize) -> Case {
    let batch = *rng.pick(&[1u64, 1, 2, 2, 3, 5]);
    let url_peers: Vec<u64> = match rng.below(4) {
        0 => vec![1, 2, 3],
        1 => vec![1, 2],
        2 => vec![2],
        _ => vec![1, 3],
    };
    let nh = rng.range(2, 9);
    // hash -> "honest" id; sometimes an inconsistent id is announced
    let idof = |h: u64| 1 + (h * 7 + 3) % 6;
    let mut ops = vec![];
    for _ in 0..len {
        let h = rng.range(1, nh);
        // spread hashes so that byte order matters
        let hv = if h % 2 == 0 { h << 40 } else { h };
        let id = if rng.chance(1, 8) { rng.range(1, 6) } else { idof(h) };
        let peer = rng.range(1, 3);
        let op = match rng.below(100) {
            0..=29 => Op::Add { hash: hv, id, peer: if rng.chance(1, 6) { 0 } else { peer } },
            30..=44 => {
                let mut known = vec![];
                for k in 1..=nh {
                    if rng.chance(1, 6) {
                        known.push(if k % 2 == 0 { k << 40 } else { k });
                    }
                }
                Op::Build { known }
            }
            45..=69 => Op::Select,
            70..=79 => Op::Fetched { hash: hv },
            80..=93 => Op::Failed { id, hash: hv, peer },
            _ => Op::Remove { hash: hv },
        };
        ops.push(op);
    }
    Case { batch, url_peers, ops, kind: "random" }
}

/// drives one entry through the whole retry budget
fn gen_retry_exhaustion(rng: &mut Rng) -> Case {
    let batch = rng.range(1, 2);
    let mut ops = vec![
        Op::Add { hash: 5, id: 2, peer: 1 },
        Op::Add { hash: 6, id: 3, peer: 1 },
        Op::Build { known: vec![] },
    ];
    // a failed entry is re-queued by one round and handed out by the next: 2 rounds per retry
    for _ in 0..1010 {
        ops.push(Op::Select);
        ops.push(Op::Failed { id: 2, hash: 5, peer: 1 });
        if rng.chance(1, 50) {
            ops.push(Op::Failed { id: 3, hash: 6, peer: 1 });
        }
    }
    ops.push(Op::Select);
    ops.push(Op::Select);
    // after the retry budget of (2,5) is used up: another block of the peer is fetched, the
    // exhausted block is announced again, and rounds follow -- it must not be requested again
    ops.push(Op::Select);
    ops.push(Op::Fetched { hash: 6 });
    ops.push(Op::Build { known: vec![] });
    ops.push(Op::Add { hash: 5, id: 2, peer: 1 });
    ops.push(Op::Build { known: vec![] });
    for _ in 0..3 {
        ops.push(Op::Select);
        ops.push(Op::Failed { id: 2, hash: 5, peer: 1 });
    }
    Case { batch, url_peers: vec![1, 2], ops, kind: "retry-exhaustion" }
}

/// all sequences of length `depth` over a small alphabet
fn gen_exhaustive(depth: usize) -> Vec<Case> {
    let alphabet = vec![
        Op::Add { hash: 1, id: 1, peer: 1 },
        Op::Add { hash: 2, id: 2, peer: 1 },
        Op::Add { hash: 3, id: 1, peer: 1 },
        Op::Add { hash: 2, id: 2, peer: 2 },
        Op::Build { known: vec![] },
        Op::Build { known: vec![3] },
        Op::Select,
        Op::Fetched { hash: 1 },
        Op::Failed { id: 2, hash: 2, peer: 1 },
        Op::Remove { hash: 2 },
    ];
    let mut out = vec![];
    let n = alphabet.len();
    let total = n.pow(depth as u32);
    for code in 0..total {
        let mut c = code;
        let mut ops = vec![];
        for _ in 0..depth {
            ops.push(alphabet[c % n].clone());
            c /= n;
        }
        // only sequences in which a round can hand something out are interesting:
        // require Add before Build before Select somewhere
        let mut stage = 0;
        for o in &ops {
            match (stage, o) {
                (0, Op::Add { .. }) => stage = 1,
                (1, Op::Build { .. }) => stage = 2,
                (2, Op::Select) => stage = 3,
                _ => {}
            }
        }
        if stage == 3 {
            out.push(Case { batch: 1, url_peers: vec![1, 2], ops, kind: "exhaustive" });
        }
    }
    out
}

struct FixedClock;
impl KeepTime for FixedClock {
    fn get_timestamp_in_ms(&self) -> u64 {
        10_000
    }
}

/// The routing layer's side of the scheduler: a real RoutingThread receives
/// NetworkEvent::BlockFetchFailed for a fetch in flight; exactly that entry must become Failed
/// and be requested again by the next selection round (oracle only, no model case).
fn routed_failure_cases(rt: &tokio::runtime::Runtime, summary: &mut Summary, first_case: usize) -> Vec<String> {
    let mut descs = vec![];
    let mut case_no = first_case;
    // (peer, batch, announced (id, hash) list, which of them fails)
    let scenarios: Vec<(u64, u64, Vec<(u64, u64)>, usize)> = vec![
        (1, 2, vec![(5, 51), (6, 61), (7, 71)], 0),
        (2, 3, vec![(9, 91), (9, 92), (10, 101)], 1),
        (3, 1, vec![(4, 41), (8, 81)], 0),
        (7, 2, vec![(7, 77), (3, 33)], 1),
    ];
    for (peer, batch, announced, fail_ix) in scenarios {
        let desc = format!(
            "{{\"case\":{},\"kind\":\"routed-fetch-failure\",\"peer\":{},\"batch\":{},\"announced_id_hash\":[{}],\"failing_id_hash\":[{},{}]}}",
            case_no,
            peer,
            batch,
            announced.iter().map(|(i, h)| format!("[{},{}]", i, h)).collect::<Vec<_>>().join(","),
            announced[fail_ix].0,
            announced[fail_ix].1
        );
        let outcome = catch_unwind(AssertUnwindSafe(|| {
            rt.block_on(async {
                let wallet = Arc::new(RwLock::new(Wallet::new([1u8; 32], [2u8; 33])));
                let c = Params::default().cfg();
                let cfg: Arc<RwLock<dyn Configuration + Send + Sync>> = Arc::new(RwLock::new(c));
                let mut pc = PeerCollection::default();
                let mut p = Peer::new(peer);
                p.block_fetch_url = format!("http://peer{}/block/", peer);
                pc.index_to_peers.insert(peer, p);
                let peers = Arc::new(RwLock::new(pc));
                let disk = Arc::new(Mutex::new(Disk::default()));
                let timer = Timer { time_reader: Arc::new(FixedClock), hasten_multiplier: 1, start_time: 0 };
                let blockchain = Arc::new(RwLock::new(Blockchain::new(wallet.clone(), 100, 0, 60)));
                let mempool = Arc::new(RwLock::new(Mempool::new(wallet.clone())));
                let (tx_cons, _rx_cons) = tokio::sync::mpsc::channel(1000);
                let (tx_miner, _rx_miner) = tokio::sync::mpsc::channel(1000);
                let (tx_stat, _rx_stat) = tokio::sync::mpsc::channel(100_000);
                let (tx_verif, _rx_verif) = tokio::sync::mpsc::channel(1000);
                let _ = StatVariable::new("x".to_string(), STAT_BIN_COUNT, tx_stat.clone());
                let mut routing = RoutingThread {
                    blockchain_lock: blockchain.clone(),
                    mempool_lock: mempool.clone(),
                    sender_to_consensus: tx_cons,
                    sender_to_miner: tx_miner,
                    config_lock: cfg.clone(),
                    timer: timer.clone(),
                    wallet_lock: wallet.clone(),
                    network: Network::new(Box::new(MemIo::new(disk.clone())), peers.clone(), wallet.clone(), cfg.clone(), timer.clone()),
                    storage: Storage::new(Box::new(MemIo::new(disk.clone()))),
                    reconnection_timer: 0,
                    peer_removal_timer: 0,
                    peer_file_write_timer: 0,
                    last_emitted_block_fetch_count: 0,
                    stats: RoutingStats::new(tx_stat.clone()),
                    senders_to_verification: vec![tx_verif],
                    last_verification_thread_index: 0,
                    stat_sender: tx_stat.clone(),
                    blockchain_sync_state: BlockchainSyncState::new(batch as usize),
                };
                for (id, h) in &announced {
                    routing.blockchain_sync_state.add_entry(h32(*h), *id, peer, peers.clone()).await;
                }
                {
                    let bc = blockchain.read().await;
                    routing.blockchain_sync_state.verif_build_peer_block_picture(&bc);
                }
                // hand out as much as the quota allows
                let first = routing.blockchain_sync_state.get_blocks_to_fetch_per_peer();
                let handed: Vec<(u64, u64)> = first.get(&peer).map(|v| v.iter().map(|(h, id)| (*id, unh(h))).collect()).unwrap_or_default();
                let (fid, fh) = announced[fail_ix];
                if !handed.contains(&(fid, fh)) {
                    // not in flight in this scenario (quota): fail an entry that is
                    return (handed.clone(), None, vec![], vec![]);
                }
                let before = routing.blockchain_sync_state.verif_snapshot();
                routing
                    .process_network_event(NetworkEvent::BlockFetchFailed { block_hash: h32(fh), peer_index: peer, block_id: fid })
                    .await;
                let after = routing.blockchain_sync_state.verif_snapshot();
                // a failed entry is put back into the queue by one round and handed out by the next
                let mut again: Vec<(u64, u64)> = vec![];
                for _ in 0..2 {
                    let round = routing.blockchain_sync_state.get_blocks_to_fetch_per_peer();
                    again.extend(round.get(&peer).map(|v| v.iter().map(|(h, id)| (*id, unh(h))).collect::<Vec<_>>()).unwrap_or_default());
                }
                (handed, Some((before, after)), again, vec![(fid, fh)])
            })
        }));
        summary.count("kind", "routed-fetch-failure");
        match outcome {
            Err(_) => summary.oracle_failure(case_no, "routing layer panicked while handling BlockFetchFailed", &desc),
            Ok((handed, snaps, again, failed)) => {
                if let Some((before, after)) = snaps {
                    let (fid, fh) = failed[0];
                    let st = |snap: &Vec<(u64, Vec<(u64, [u8; 32], u8, u32)>)>, id: u64, h: u64| {
                        snap.iter().find(|(p, _)| *p == peer).and_then(|(_, v)| v.iter().find(|e| e.0 == id && unh(&e.1) == h).map(|e| (e.2, e.3)))
                    };
                    if st(&before, fid, fh).map(|x| x.0) != Some(1) {
                        summary.oracle_failure(case_no, "harness: the failing entry was not in flight", &desc);
                    }
                    if st(&after, fid, fh).map(|x| x.0) != Some(3) {
                        summary.oracle_failure(
                            case_no,
                            &format!(
                                "BlockFetchFailed for block ({},{}) of peer {} delivered through the routing layer did not mark that fetch as failed (status {:?}): it is never retried and keeps its quota slot",
                                fid, fh, peer, st(&after, fid, fh)
                            ),
                            &desc,
                        );
                    }
                    for (p, v) in &after {
                        for e in v {
                            if (*p, e.0, unh(&e.1)) != (peer, fid, fh) && st(&before, e.0, unh(&e.1)) != Some((e.2, e.3)) {
                                summary.oracle_failure(case_no, &format!("BlockFetchFailed for ({},{}) changed another entry ({},{})", fid, fh, e.0, unh(&e.1)), &desc);
                            }
                        }
                    }
                    if !again.contains(&(fid, fh)) {
                        summary.oracle_failure(case_no, &format!("the failed fetch ({},{}) is not requested again within two rounds (handed out first: {:?}, then: {:?})", fid, fh, handed, again), &desc);
                    }
                }
            }
        }
        descs.push(desc);
        case_no += 1;
    }
    descs
}

/// A fetch that cannot even be started (the I/O layer answers Err) and is reported failed
/// afterwards must be retried: the routing layer may drop an entry only when the block is
/// already known (oracle only).
fn routed_unstartable_fetch_cases(rt: &tokio::runtime::Runtime, summary: &mut Summary, first_case: usize) -> Vec<String> {
    let mut descs = vec![];
    let mut case_no = first_case;
    for (peer, id, h) in [(1u64, 11u64, 111u64), (4, 3, 34)] {
        let desc = format!(
            "{{\"case\":{},\"kind\":\"routed-unstartable-fetch\",\"peer\":{},\"block_id_hash\":[{},{}]}}",
            case_no, peer, id, h
        );
        let outcome = catch_unwind(AssertUnwindSafe(|| {
            rt.block_on(async {
                let wallet = Arc::new(RwLock::new(Wallet::new([1u8; 32], [2u8; 33])));
                let c = Params::default().cfg();
                let cfg: Arc<RwLock<dyn Configuration + Send + Sync>> = Arc::new(RwLock::new(c));
                let mut pc = PeerCollection::default();
                let mut p = Peer::new(peer);
                p.block_fetch_url = format!("http://peer{}/block/", peer);
                pc.index_to_peers.insert(peer, p);
                let peers = Arc::new(RwLock::new(pc));
                let disk = Arc::new(Mutex::new(Disk::default()));
                let timer = Timer { time_reader: Arc::new(FixedClock), hasten_multiplier: 1, start_time: 0 };
                let blockchain = Arc::new(RwLock::new(Blockchain::new(wallet.clone(), 100, 0, 60)));
                let mempool = Arc::new(RwLock::new(Mempool::new(wallet.clone())));
                let (tx_cons, _rx_cons) = tokio::sync::mpsc::channel(1000);
                let (tx_miner, _rx_miner) = tokio::sync::mpsc::channel(1000);
                let (tx_stat, _rx_stat) = tokio::sync::mpsc::channel(100_000);
                let (tx_verif, _rx_verif) = tokio::sync::mpsc::channel(1000);
                let mut routing = RoutingThread {
                    blockchain_lock: blockchain.clone(),
                    mempool_lock: mempool.clone(),
                    sender_to_consensus: tx_cons,
                    sender_to_miner: tx_miner,
                    config_lock: cfg.clone(),
                    timer: timer.clone(),
                    wallet_lock: wallet.clone(),
                    network: Network::new(Box::new(MemIo::new(disk.clone())), peers.clone(), wallet.clone(), cfg.clone(), timer.clone()),
                    storage: Storage::new(Box::new(MemIo::new(disk.clone()))),
                    reconnection_timer: 0,
                    peer_removal_timer: 0,
                    peer_file_write_timer: 0,
                    last_emitted_block_fetch_count: 0,
                    stats: RoutingStats::new(tx_stat.clone()),
                    senders_to_verification: vec![tx_verif],
                    last_verification_thread_index: 0,
                    stat_sender: tx_stat.clone(),
                    blockchain_sync_state: BlockchainSyncState::new(2),
                };
                routing.blockchain_sync_state.add_entry(h32(h), id, peer, peers.clone()).await;
                disk.lock().unwrap().fail_fetches = 1;
                // a timer round of the routing thread selects the block and asks the I/O layer
                routing.process_timer_event(std::time::Duration::from_millis(2100)).await;
                let first = disk.lock().unwrap().fetches.len();
                // the I/O layer reports the failure
                routing
                    .process_network_event(NetworkEvent::BlockFetchFailed { block_hash: h32(h), peer_index: peer, block_id: id })
                    .await;
                for _ in 0..3 {
                    routing.process_timer_event(std::time::Duration::from_millis(2100)).await;
                }
                let total = disk.lock().unwrap().fetches.len();
                let tracked = routing.blockchain_sync_state.verif_snapshot().iter().any(|(p, v)| *p == peer && v.iter().any(|e| e.0 == id && unh(&e.1) == h));
                (first, total, tracked)
            })
        }));
        summary.count("kind", "routed-unstartable-fetch");
        match outcome {
            Err(_) => summary.oracle_failure(case_no, "routing layer panicked in the unstartable-fetch scenario", &desc),
            Ok((first, total, tracked)) => {
                if first != 1 {
                    summary.oracle_failure(case_no, &format!("harness: expected exactly one fetch request in the first round, saw {}", first), &desc);
                } else if total < 2 || !tracked {
                    summary.oracle_failure(
                        case_no,
                        &format!(
                            "block ({},{}) whose fetch from peer {} could not be started and was reported failed is never requested again ({} request(s) reached the I/O layer, still tracked: {})",
                            id, h, peer, total, tracked
                        ),
                        &desc,
                    );
                }
            }
        }
        descs.push(desc);
        case_no += 1;
    }
    descs
}

/// The announce path: a BlockHeaderHash message handled by the real RoutingThread must lead to a
/// fetch request unless the peer announced an OLDER wallet version than ours; a peer whose version
/// is unknown (0.0.0) is served (oracle only).
fn routed_announce_cases(rt: &tokio::runtime::Runtime, summary: &mut Summary, first_case: usize) -> Vec<String> {
    use saito_core::core::msg::message::Message;
    use saito_core::core::process::version::Version;
    let mut descs = vec![];
    let mut case_no = first_case;
    // (our version, peer version, must be requested)
    let table: Vec<((u8, u8, u16), (u8, u8, u16), bool)> = vec![
        ((1, 2, 3), (0, 0, 0), true),
        ((1, 2, 3), (1, 2, 3), true),
        ((1, 2, 3), (1, 2, 4), true),
        ((1, 2, 3), (1, 2, 2), false),
        ((0, 0, 0), (0, 0, 0), true),
    ];
    for (ours, theirs, want) in table {
        let desc = format!(
            "{{\"case\":{},\"kind\":\"routed-announcement\",\"our_wallet_version\":[{},{},{}],\"peer_wallet_version\":[{},{},{}],\"must_be_requested\":{}}}",
            case_no, ours.0, ours.1, ours.2, theirs.0, theirs.1, theirs.2, want
        );
        let outcome = catch_unwind(AssertUnwindSafe(|| {
            rt.block_on(async {
                let mut wal = Wallet::new([1u8; 32], [2u8; 33]);
                wal.wallet_version = Version::new(ours.0, ours.1, ours.2);
                let wallet = Arc::new(RwLock::new(wal));
                let c = Params::default().cfg();
                let cfg: Arc<RwLock<dyn Configuration + Send + Sync>> = Arc::new(RwLock::new(c));
                let mut pc = PeerCollection::default();
                let mut p = Peer::new(5);
                p.block_fetch_url = "http://peer5/block/".to_string();
                p.wallet_version = Version::new(theirs.0, theirs.1, theirs.2);
                pc.index_to_peers.insert(5, p);
                let peers = Arc::new(RwLock::new(pc));
                let disk = Arc::new(Mutex::new(Disk::default()));
                let timer = Timer { time_reader: Arc::new(FixedClock), hasten_multiplier: 1, start_time: 0 };
                let blockchain = Arc::new(RwLock::new(Blockchain::new(wallet.clone(), 100, 0, 60)));
                let mempool = Arc::new(RwLock::new(Mempool::new(wallet.clone())));
                let (tx_cons, _rx_cons) = tokio::sync::mpsc::channel(1000);
                let (tx_miner, _rx_miner) = tokio::sync::mpsc::channel(1000);
                let (tx_stat, _rx_stat) = tokio::sync::mpsc::channel(100_000);
                let (tx_verif, _rx_verif) = tokio::sync::mpsc::channel(1000);
                let mut routing = RoutingThread {
                    blockchain_lock: blockchain.clone(),
                    mempool_lock: mempool.clone(),
                    sender_to_consensus: tx_cons,
                    sender_to_miner: tx_miner,
                    config_lock: cfg.clone(),
                    timer: timer.clone(),
                    wallet_lock: wallet.clone(),
                    network: Network::new(Box::new(MemIo::new(disk.clone())), peers.clone(), wallet.clone(), cfg.clone(), timer.clone()),
                    storage: Storage::new(Box::new(MemIo::new(disk.clone()))),
                    reconnection_timer: 0,
                    peer_removal_timer: 0,
                    peer_file_write_timer: 0,
                    last_emitted_block_fetch_count: 0,
                    stats: RoutingStats::new(tx_stat.clone()),
                    senders_to_verification: vec![tx_verif],
                    last_verification_thread_index: 0,
                    stat_sender: tx_stat.clone(),
                    blockchain_sync_state: BlockchainSyncState::new(2),
                };
                let buffer = Message::BlockHeaderHash(h32(77), 4).serialize();
                routing.process_network_event(NetworkEvent::IncomingNetworkMessage { peer_index: 5, buffer }).await;
                routing.process_timer_event(std::time::Duration::from_millis(2100)).await;
                let requested = disk.lock().unwrap().fetches.iter().any(|f| unh(&f.0) == 77 && f.1 == 5);
                requested
            })
        }));
        summary.count("kind", "routed-announcement");
        match outcome {
            Err(_) => summary.oracle_failure(case_no, "routing layer panicked while handling a block announcement", &desc),
            Ok(requested) => {
                if requested != want {
                    summary.oracle_failure(
                        case_no,
                        &format!(
                            "block announced by a peer with wallet version {:?} to a node with wallet version {:?}: requested = {}, expected {}",
                            theirs, ours, requested, want
                        ),
                        &desc,
                    );
                }
            }
        }
        descs.push(desc);
        case_no += 1;
    }
    descs
}

fn main() {
    let args = Args::parse();
    let mut rng = Rng::new(args.seed);
    let thorough = args.tier == "thorough";
    std::panic::set_hook(Box::new(|_| {}));
    let rt = tokio::runtime::Builder::new_current_thread().build().unwrap();

    let mut cases: Vec<Case> = vec![];
    for c in gen_exhaustive(if thorough { 5 } else { 4 }) {
        cases.push(c);
    }
    let n_random = if thorough { 6000 } else { 700 };
    for i in 0..n_random {
        let len = match i % 4 {
            0 => rng.range(4, 10),
            1 => rng.range(10, 25),
            _ => rng.range(20, 60),
        } as usize;
        cases.push(gen_random(&mut rng, len));
    }
    for _ in 0..(if thorough { 6 } else { 2 }) {
        cases.push(gen_retry_exhaustion(&mut rng));
    }

    let mut summary = Summary::new("C16");
    let mut coq_cases = vec![];
    let mut distinct: BTreeSet<String> = BTreeSet::new();
    for (i, case) in cases.iter().enumerate() {
        let r = run_case(&rt, case);
        let ops_g = gal::list(&case.ops.iter().map(|o| o.gallina()).collect::<Vec<_>>());
        let input = format!("({}, {}, {})", case.batch, gal::nlist(&case.url_peers), ops_g);
        coq_cases.push(format!("({}, {})", input, gal::nlllist(&r.trace)));
        summary.count("kind", case.kind);
        summary.count("len", &format!("{}", (case.ops.len() / 10) * 10));
        summary.count("batch", &format!("{}", case.batch));
        if r.rounds_with_selection > 0 {
            // non-trivial: at least one round handed out a block
            if distinct.insert(input.clone()) {
                summary.nontrivial += 1;
            }
        }
        summary.count("max_inflight", &format!("{}", r.max_inflight));
        if r.panicked {
            summary.count("panic", "yes");
        }
        let desc = format!(
            "{{\"case\":{},\"kind\":\"{}\",\"batch\":{},\"url_peers\":{:?},\"ops\":[{}]}}",
            i,
            case.kind,
            case.batch,
            case.url_peers,
            case.ops.iter().map(|o| o.json()).collect::<Vec<_>>().join(",")
        );
        for f in r.oracle_failures {
            summary.oracle_failure(i, &f, &desc);
        }
        if i < 3 || case.kind == "retry-exhaustion" && summary.samples.len() < 5 {
            if case.ops.len() < 80 {
                summary.samples.push(desc.clone());
            }
        }
        summary.case_descs.push(desc);
    }
    // routed venue (oracle only): trivial model cases keep the case numbering aligned
    let routed = routed_failure_cases(&rt, &mut summary, cases.len());
    for d in routed {
        coq_cases.push("((1, [], []), [])".to_string());
        summary.case_descs.push(d);
    }
    let n_so_far = summary.case_descs.len();
    let routed2 = routed_unstartable_fetch_cases(&rt, &mut summary, n_so_far);
    for d in routed2 {
        coq_cases.push("((1, [], []), [])".to_string());
        summary.case_descs.push(d);
    }
    let n_so_far = summary.case_descs.len();
    let routed3 = routed_announce_cases(&rt, &mut summary, n_so_far);
    for d in routed3 {
        coq_cases.push("((1, [], []), [])".to_string());
        summary.case_descs.push(d);
    }
    summary.evaluations = summary.case_descs.len() as u64;
    let header = "From Saito Require Import Base SyncState.\n\
        Definition check (c : (N * list N * list op) * list (list (list N))) : bool :=\n\
        let '((batch, urls, ops), expected) := c in eqb_lllN (trace batch urls init ops) expected.";
    let files = gal::write_shards(
        &format!("{}/cases", args.out),
        "C16",
        header,
        "(N * list N * list op) * list (list (list N))",
        &coq_cases,
        args.shards,
    )
    .unwrap();
    summary.case_files = files;
    summary.write(&args.out);
}
