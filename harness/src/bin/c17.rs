//! C17 — the handshake authenticates the peer's key.
//!
//! Drives the REAL `Network::{handle_new_peer, handle_handshake_challenge,
//! handle_handshake_response, handle_peer_disconnect}` /
//! `PeerCollection::remove_disconnected_peers` of saito-core with real secp256k1
//! keys and signatures, at the wire level (serialized messages go through
//! `Message::deserialize` and are dispatched as the routing thread does).
//!
//! The environment (honest remote key 2, attacker keys 3 and 4, and an attacker
//! who drops / replays / redirects / reflects every message he has seen) is the
//! case generator.  After every step the harness observes every peer entry
//! (status, stored challenge, public key, versions, handshake limiter,
//! disconnected_at), `address_to_peers`, the messages / disconnects / interface
//! events produced, interns 32-byte values in first-seen order and maps every
//! real signature to the (key, message) it was made over, so that the
//! observation compares structurally with the symbolic model
//! (coq/model/Handshake.v, `trace`).
//!
//! Direct oracle on the implementation = the C17 statement itself (see `oracle`).
use std::collections::{BTreeMap, BTreeSet};
use std::panic::{catch_unwind, AssertUnwindSafe};
use std::sync::atomic::{AtomicU64, Ordering};
use std::sync::{Arc, Mutex};

use saito_core::core::consensus::blockchain::Blockchain;
use saito_core::core::consensus::peers::peer::PeerStatus;
use saito_core::core::consensus::peers::peer_collection::PeerCollection;
use saito_core::core::consensus::wallet::Wallet;
use saito_core::core::defs::{SaitoPrivateKey, SaitoPublicKey};
use saito_core::core::io::network::{Network, PeerDisconnectType};
use saito_core::core::msg::handshake::{HandshakeChallenge, HandshakeResponse};
use saito_core::core::msg::message::Message;
use saito_core::core::process::keep_time::{KeepTime, Timer};
use saito_core::core::process::version::Version;
use saito_core::core::util::configuration::{Configuration, PeerConfig};
use saito_core::core::util::crypto::{hash, sign, verify};
use tokio::sync::RwLock;
use verif_harness::common::{Args, Summary};
use verif_harness::gal;
use verif_harness::rng::Rng;
use verif_harness::world::{keypair, Disk, MemIo, Params};

const ME: u64 = 1; // key of the node under test
const HONEST: u64 = 2; // key of the honest remote node B
const MY_CVER: (u8, u8, u16) = (1, 2, 3);
const MY_WVER: (u8, u8, u16) = (1, 2, 5);
const NKEYS: u8 = 6;

// ------------------------------------------------------------------ clock

struct Clock(AtomicU64);
impl KeepTime for Clock {
    fn get_timestamp_in_ms(&self) -> u64 {
        self.0.load(Ordering::SeqCst)
    }
}

// ------------------------------------------------------------------ system under test

struct Sut {
    net: Network,
    peers: Arc<RwLock<PeerCollection>>,
    wallet: Arc<RwLock<Wallet>>,
    cfg: Arc<RwLock<dyn Configuration + Send + Sync>>,
    blockchain: Arc<RwLock<Blockchain>>,
    disk: Arc<Mutex<Disk>>,
    clock: Arc<Clock>,
}

fn mkver(v: (u8, u8, u16)) -> Version {
    Version::new(v.0, v.1, v.2)
}

fn new_sut(rt: &tokio::runtime::Runtime, key: u8, n_static: usize) -> Sut {
    let (pk, sk) = keypair(key);
    let mut w = Wallet::new(sk, pk);
    w.core_version = mkver(MY_CVER);
    w.wallet_version = mkver(MY_WVER);
    let wallet = Arc::new(RwLock::new(w));
    let mut c = Params::default().cfg();
    for i in 0..n_static {
        c.peers.push(PeerConfig {
            host: format!("server{}", i),
            port: 12101,
            protocol: "http".to_string(),
            synctype: "full".to_string(),
        });
    }
    let cfg: Arc<RwLock<dyn Configuration + Send + Sync>> = Arc::new(RwLock::new(c));
    let peers = Arc::new(RwLock::new(PeerCollection::default()));
    let disk = Arc::new(Mutex::new(Disk::default()));
    let clock = Arc::new(Clock(AtomicU64::new(0)));
    let timer = Timer { time_reader: clock.clone(), hasten_multiplier: 1, start_time: 0 };
    let mut net = Network::new(
        Box::new(MemIo::new(disk.clone())),
        peers.clone(),
        wallet.clone(),
        cfg.clone(),
        timer,
    );
    rt.block_on(net.initialize_static_peers(cfg.clone()));
    let blockchain = Arc::new(RwLock::new(Blockchain::new(wallet.clone(), 100, 0, 0)));
    Sut { net, peers, wallet, cfg, blockchain, disk, clock }
}

impl Sut {
    /// what RoutingThread::process_incoming_message does with a handshake message
    fn deliver(&mut self, rt: &tokio::runtime::Runtime, c: u64, bytes: Vec<u8>) {
        match Message::deserialize(bytes) {
            Ok(Message::HandshakeChallenge(ch)) => rt.block_on(self.net.handle_handshake_challenge(
                c,
                ch,
                self.wallet.clone(),
                self.cfg.clone(),
            )),
            Ok(Message::HandshakeResponse(r)) => rt.block_on(self.net.handle_handshake_response(
                c,
                r,
                self.wallet.clone(),
                self.blockchain.clone(),
                self.cfg.clone(),
            )),
            _ => panic!("harness: not a handshake message"),
        }
    }
}

// ------------------------------------------------------------------ abstract actions

#[derive(Clone, Debug, PartialEq)]
enum Val {
    /// a new random 32-byte value chosen by the environment
    Fresh,
    /// the `age`-th most recent challenge the node issued on connection `conn` (0 = latest)
    Issued(u64, usize),
    Zero,
}
#[derive(Clone, Debug, PartialEq)]
enum SigKind {
    /// signature by the response's key over `over`
    Valid,
    /// 64 bytes that are no signature of anything
    Garbage,
    /// valid signature over `over`, but by this other key
    ByOther(u64),
}
#[derive(Clone, Copy, Debug, PartialEq)]
enum VerKind {
    Same,
    NewerWallet,
    Unset,
    MinorDiff,
    MajorDiff,
    /// incompatible in the DOWNWARD direction
    OlderMinor,
    OlderMajor,
    /// major version 0 with a non-zero patch only: set, and incompatible
    ZeroMajorPatch,
    /// compatible core with an older patch; wallet one patch older / newer than ours
    OlderPatchOlderWallet,
    NewerPatchWallet,
}
#[derive(Clone, Debug, PartialEq)]
enum Act {
    New(u64),
    Disc(u64, bool),
    Tick(u64),
    Purge,
    Chal { c: u64, x: Val },
    Resp { c: u64, key: u64, over: Val, sig: SigKind, ver: VerKind, echo: Val },
    /// relay: the challenge last issued on `c` is shown to the REAL honest node B
    /// (own Network, key 2) on a connection the attacker opened to it; B's answer
    /// is forwarded verbatim on `c`
    RelayViaB { c: u64 },
    /// deliver again, verbatim, the n-th response message delivered earlier in this run
    Replay { c: u64, nth: usize },
}

impl Act {
    fn label(&self) -> String {
        format!("{:?}", self).replace('"', "'")
    }
}

fn ver_of(k: &VerKind) -> ((u8, u8, u16), (u8, u8, u16)) {
    match k {
        VerKind::Same => (MY_CVER, MY_WVER),
        VerKind::NewerWallet => ((1, 2, 9), (1, 3, 0)),
        VerKind::Unset => ((0, 0, 0), MY_WVER),
        VerKind::MinorDiff => ((1, 3, 3), MY_WVER),
        VerKind::MajorDiff => ((2, 2, 3), (2, 0, 0)),
        VerKind::OlderMinor => ((1, 1, 9), MY_WVER),
        VerKind::OlderMajor => ((0, 2, 3), (0, 9, 9)),
        VerKind::ZeroMajorPatch => ((0, 0, 7), MY_WVER),
        VerKind::OlderPatchOlderWallet => ((1, 2, 0), (1, 2, 4)),
        VerKind::NewerPatchWallet => (MY_CVER, (1, 2, 6)),
    }
}

/// The specification of version compatibility used by the oracle: an explicit table of every core
/// version the harness ever puts into a response, with the verdict the property demands for a node
/// whose own core version is 1.2.3 ("set, and same major.minor"). The oracle looks the verdict up;
/// it does not re-implement the comparison of version.rs.
const CORE_TABLE: &[((u64, u64, u64), bool)] = &[
    ((1, 2, 3), true),
    ((1, 2, 9), true),
    ((1, 2, 0), true),
    ((0, 0, 0), false),
    ((1, 3, 3), false),
    ((2, 2, 3), false),
    ((1, 1, 9), false),
    ((0, 2, 3), false),
    ((0, 0, 7), false),
];
fn core_compatible(cv: (u64, u64, u64)) -> bool {
    match CORE_TABLE.iter().find(|(v, _)| *v == cv) {
        Some((_, ok)) => *ok,
        None => panic!("harness: core version {:?} is not in CORE_TABLE", cv),
    }
}

// ------------------------------------------------------------------ shadow state (interning, provenance, oracle memory)

#[derive(Clone, Debug, PartialEq)]
struct PeerObs {
    idx: u64,
    status: u64,
    is_static: bool,
    chal: Option<u64>,
    pk: Option<u64>,
    lim_count: u64,
    lim_last: u64,
    disc: Option<u64>,
    cver: (u64, u64, u64),
    wver: (u64, u64, u64),
}

#[derive(Clone, Default)]
struct Shadow {
    vals: BTreeMap<[u8; 32], u64>,
    val_bytes: Vec<[u8; 32]>,
    /// (key, value id) -> real signature
    sig_of: BTreeMap<(u64, u64), [u8; 64]>,
    sig_rev: BTreeMap<Vec<u8>, (u64, u64)>,
    /// challenges the node issued per connection, oldest first (value ids)
    issued: BTreeMap<u64, Vec<u64>>,
    /// the challenge outstanding on each connection in the sense of the property: the last one the
    /// node put on the wire for it since the connection was (re)opened, not yet accepted; a
    /// connection that is closed (by the peer, by the node, or re-dialled) has none
    outstanding: BTreeMap<u64, u64>,
    /// challenges on which a handshake was accepted
    accepted: BTreeSet<u64>,
    /// connection epochs: every handle_new_peer on an index starts a new epoch of that index
    epoch: BTreeMap<u64, u64>,
    /// challenges the node put on the wire for an index during the CURRENT epoch of that index
    epoch_issued: BTreeMap<u64, Vec<u64>>,
    /// keys K for which, during the CURRENT epoch of the index, a response was delivered on that index
    /// whose signature verifies (real `verify`) under K over a challenge of `epoch_issued`:
    /// key -> (challenge, step of the delivery)
    epoch_proved: BTreeMap<u64, BTreeMap<u64, (u64, usize)>>,
    /// (index, epoch, key) already reported by the epoch oracle
    epoch_flagged: BTreeSet<(u64, u64, u64)>,
    /// response messages delivered so far: (bytes, model term)
    delivered: Vec<(Vec<u8>, String)>,
    fresh_ctr: u64,
    time: u64,
    prev_peers: Vec<PeerObs>,
    prev_addr: Vec<(u64, u64)>,
}

impl Shadow {
    fn intern(&mut self, b: &[u8; 32]) -> u64 {
        if b.iter().all(|x| *x == 0) {
            return 0;
        }
        if let Some(v) = self.vals.get(b) {
            return *v;
        }
        let id = self.val_bytes.len() as u64 + 1;
        self.vals.insert(*b, id);
        self.val_bytes.push(*b);
        id
    }
    fn bytes_of(&self, id: u64) -> [u8; 32] {
        if id == 0 {
            [0; 32]
        } else {
            self.val_bytes[id as usize - 1]
        }
    }
    fn fresh(&mut self, salt: u64) -> u64 {
        self.fresh_ctr += 1;
        let mut seed = vec![0xC1u8, 0x70];
        seed.extend_from_slice(&salt.to_be_bytes());
        seed.extend_from_slice(&self.fresh_ctr.to_be_bytes());
        let b = hash(&seed);
        self.intern(&b)
    }
    fn forget_last(&mut self, id: u64) {
        if id != 0 && id as usize == self.val_bytes.len() {
            let b = self.val_bytes.pop().unwrap();
            self.vals.remove(&b);
        }
    }
    fn record_sig(&mut self, k: u64, m: u64, sig: [u8; 64]) {
        self.sig_of.insert((k, m), sig);
        self.sig_rev.insert(sig.to_vec(), (k, m));
    }
}

struct Keys {
    pk: Vec<SaitoPublicKey>,
    sk: Vec<SaitoPrivateKey>,
}
impl Keys {
    fn new() -> Keys {
        let mut pk = vec![];
        let mut sk = vec![];
        for n in 1..=NKEYS {
            let (p, s) = keypair(n);
            pk.push(p);
            sk.push(s);
        }
        Keys { pk, sk }
    }
    fn id(&self, p: &SaitoPublicKey) -> u64 {
        match self.pk.iter().position(|x| x == p) {
            Some(i) => i as u64 + 1,
            None => 99,
        }
    }
}

// ------------------------------------------------------------------ one run

struct Ctx<'a> {
    rt: &'a tokio::runtime::Runtime,
    keys: &'a Keys,
    sut: Sut,
    node_b: Option<Sut>,
    sh: Shadow,
    salt: u64,
    // outputs of the run
    model_acts: Vec<String>,
    expected: Vec<Vec<Vec<u64>>>,
    failures: Vec<String>,
    known: Vec<(String, String)>,
    accepted_count: u64,
    rejected_count: u64,
    panicked: bool,
    tags: BTreeSet<&'static str>,
}

#[derive(Clone)]
struct Saved {
    peers: PeerCollection,
    sh: Shadow,
    n_acts: usize,
    n_exp: usize,
    n_fail: usize,
    n_known: usize,
    accepted_count: u64,
    rejected_count: u64,
    panicked: bool,
    tags: BTreeSet<&'static str>,
}

fn status_code(s: &PeerStatus) -> u64 {
    match s {
        PeerStatus::Disconnected(_, _) => 0,
        PeerStatus::Connecting => 1,
        PeerStatus::Connected => 2,
    }
}

/// "RateLimiter { limit: 100, window: 60000, request_count: 3, last_request_time: 0 }"
fn parse_limiter(dbg: &str) -> (u64, u64) {
    let get = |name: &str| -> u64 {
        let i = dbg.find(name).expect("limiter debug format") + name.len();
        let rest = &dbg[i..];
        let digits: String = rest.chars().skip_while(|c| !c.is_ascii_digit()).take_while(|c| c.is_ascii_digit()).collect();
        digits.parse().unwrap()
    };
    (get("request_count"), get("last_request_time"))
}

fn vt(v: &Version) -> (u64, u64, u64) {
    (v.major as u64, v.minor as u64, v.patch as u64)
}

impl<'a> Ctx<'a> {
    fn new(rt: &'a tokio::runtime::Runtime, keys: &'a Keys, salt: u64) -> Ctx<'a> {
        let sut = new_sut(rt, ME as u8, 1);
        let mut c = Ctx {
            rt,
            keys,
            sut,
            node_b: None,
            sh: Shadow::default(),
            salt,
            model_acts: vec![],
            expected: vec![],
            failures: vec![],
            known: vec![],
            accepted_count: 0,
            rejected_count: 0,
            panicked: false,
            tags: BTreeSet::new(),
        };
        let (p, a) = c.snapshot();
        c.sh.prev_peers = p;
        c.sh.prev_addr = a;
        c
    }

    fn save(&self) -> Saved {
        Saved {
            peers: self.rt.block_on(self.sut.peers.read()).clone(),
            sh: self.sh.clone(),
            n_acts: self.model_acts.len(),
            n_exp: self.expected.len(),
            n_fail: self.failures.len(),
            n_known: self.known.len(),
            accepted_count: self.accepted_count,
            rejected_count: self.rejected_count,
            panicked: self.panicked,
            tags: self.tags.clone(),
        }
    }
    fn restore(&mut self, s: &Saved) {
        *self.rt.block_on(self.sut.peers.write()) = s.peers.clone();
        self.sh = s.sh.clone();
        self.sut.clock.0.store(self.sh.time, Ordering::SeqCst);
        self.model_acts.truncate(s.n_acts);
        self.expected.truncate(s.n_exp);
        self.failures.truncate(s.n_fail);
        self.known.truncate(s.n_known);
        self.accepted_count = s.accepted_count;
        self.rejected_count = s.rejected_count;
        self.panicked = s.panicked;
        self.tags = s.tags.clone();
        let mut d = self.sut.disk.lock().unwrap();
        d.sent.clear();
        d.disconnects.clear();
        d.events.clear();
    }

    fn snapshot(&mut self) -> (Vec<PeerObs>, Vec<(u64, u64)>) {
        let peers = self.rt.block_on(self.sut.peers.read()).clone();
        let mut rows = vec![];
        for (idx, p) in peers.index_to_peers.iter() {
            let (lc, ll) = parse_limiter(&format!("{:?}", p.handshake_limiter));
            let chal = p.challenge_for_peer.map(|c| self.sh.intern(&c));
            rows.push(PeerObs {
                idx: *idx,
                status: status_code(&p.peer_status),
                is_static: p.static_peer_config.is_some(),
                chal,
                pk: p.public_key.map(|k| self.keys.id(&k)),
                lim_count: lc,
                lim_last: ll,
                disc: if p.disconnected_at == u64::MAX { None } else { Some(p.disconnected_at) },
                cver: vt(&p.core_version),
                wver: vt(&p.wallet_version),
            });
        }
        rows.sort_by_key(|r| r.idx);
        let mut addr: Vec<(u64, u64)> =
            peers.address_to_peers.iter().map(|(k, v)| (self.keys.id(k), *v)).collect();
        addr.sort();
        (rows, addr)
    }

    fn resolve(&mut self, v: &Val) -> u64 {
        self.resolve2(v).0
    }
    /// (value id, whether the value was created now)
    fn resolve2(&mut self, v: &Val) -> (u64, bool) {
        match v {
            Val::Zero => (0, false),
            Val::Fresh => (self.sh.fresh(self.salt), true),
            Val::Issued(c, age) => {
                let l = self.sh.issued.get(c).cloned().unwrap_or_default();
                if l.len() > *age {
                    (l[l.len() - 1 - age], false)
                } else {
                    (self.sh.fresh(self.salt), true)
                }
            }
        }
    }

    /// a signature by key `k` over value `m` as the environment can obtain it:
    /// an existing one, or a new one if `k` is not the node's own key
    fn sig_for(&mut self, k: u64, m: u64) -> ([u8; 64], String) {
        if let Some(s) = self.sh.sig_of.get(&(k, m)) {
            return (*s, format!("(Sig {} {})", k, m));
        }
        if k != ME {
            let s = sign(&self.sh.bytes_of(m), &self.keys.sk[k as usize - 1]);
            self.sh.record_sig(k, m, s);
            self.model_acts.push(format!("ARemoteSign {} {}", k, m));
            return (s, format!("(Sig {} {})", k, m));
        }
        self.garbage_sig()
    }
    fn garbage_sig(&mut self) -> ([u8; 64], String) {
        self.sh.fresh_ctr += 1;
        let a = hash(&[&b"garbage-a"[..], &self.sh.fresh_ctr.to_be_bytes()].concat());
        let b = hash(&[&b"garbage-b"[..], &self.sh.fresh_ctr.to_be_bytes()].concat());
        let mut s = [0u8; 64];
        s[..32].copy_from_slice(&a);
        s[32..].copy_from_slice(&b);
        (s, "SigBad".to_string())
    }

    fn term_of_response(&mut self, r: &HandshakeResponse) -> String {
        let sig = match self.sh.sig_rev.get(&r.signature.to_vec()) {
            Some((k, m)) => format!("(Sig {} {})", k, m),
            None => "SigBad".to_string(),
        };
        let ch = self.sh.intern(&r.challenge);
        let c = vt(&r.core_version);
        let w = vt(&r.wallet_version);
        format!(
            "(mkR {} {} {} (mkV {} {} {}) (mkV {} {} {}))",
            self.keys.id(&r.public_key),
            sig,
            ch,
            c.0,
            c.1,
            c.2,
            w.0,
            w.1,
            w.2
        )
    }

    /// Executes one abstract action on the real node. Returns false if the run must stop (panic).
    fn step(&mut self, act: &Act) -> bool {
        if self.panicked {
            return false;
        }
        let rt = self.rt;
        // ---- concretise ----
        enum Real {
            New(u64),
            Disc(u64, bool),
            Tick(u64),
            Purge,
            Deliver(u64, Vec<u8>),
            Skip,
        }
        let mut resp_info: Option<(u64, HandshakeResponse)> = None;
        let real = match act {
            Act::New(c) => {
                self.model_acts.push(format!("ANewPeer {}", c));
                Real::New(*c)
            }
            Act::Disc(c, ext) => {
                self.model_acts.push(format!("ADisconnect {} {}", c, gal::boolean(*ext)));
                Real::Disc(*c, *ext)
            }
            Act::Tick(dt) => {
                self.model_acts.push(format!("ATick {}", dt));
                Real::Tick(*dt)
            }
            Act::Purge => {
                self.model_acts.push("APurge".to_string());
                Real::Purge
            }
            Act::Chal { c, x } => {
                let xid = self.resolve(x);
                self.model_acts.push(format!("ADeliverChal {} {}", c, xid));
                let m = Message::HandshakeChallenge(HandshakeChallenge { challenge: self.sh.bytes_of(xid) });
                Real::Deliver(*c, m.serialize())
            }
            Act::Resp { c, key, over, sig, ver, echo } => {
                let (sig_bytes, _) = match sig {
                    SigKind::Garbage => self.garbage_sig(),
                    SigKind::Valid | SigKind::ByOther(_) => {
                        let signer = if let SigKind::ByOther(k2) = sig { *k2 } else { *key };
                        let (over_id, created) = self.resolve2(over);
                        let (b, term) = self.sig_for(signer, over_id);
                        if term == "SigBad" && created {
                            // the value was never used: it must not count as "seen"
                            self.sh.forget_last(over_id);
                        }
                        (b, term)
                    }
                };
                let echo_id = self.resolve(echo);
                let (cv, wv) = ver_of(ver);
                let r = HandshakeResponse {
                    public_key: self.keys.pk[*key as usize - 1],
                    signature: sig_bytes,
                    is_lite: false,
                    block_fetch_url: "http://peer/".to_string(),
                    challenge: self.sh.bytes_of(echo_id),
                    services: vec![],
                    wallet_version: mkver(wv),
                    core_version: mkver(cv),
                };
                let bytes = Message::HandshakeResponse(r).serialize();
                Real::Deliver(*c, bytes)
            }
            Act::RelayViaB { c } => {
                let l = self.sh.issued.get(c).cloned().unwrap_or_default();
                match l.last() {
                    None => Real::Skip,
                    Some(ch) => {
                        if self.node_b.is_none() {
                            let mut b = new_sut(rt, HONEST as u8, 0);
                            // the attacker opens a connection to B (B's connection 7)
                            rt.block_on(b.net.handle_new_peer(7, None));
                            self.node_b = Some(b);
                        }
                        let chb = self.sh.bytes_of(*ch);
                        let b = self.node_b.as_mut().unwrap();
                        b.disk.lock().unwrap().sent.clear();
                        let m = Message::HandshakeChallenge(HandshakeChallenge { challenge: chb });
                        b.deliver(rt, 7, m.serialize());
                        let out = b.disk.lock().unwrap().sent.clone();
                        match out.last() {
                            Some((7, bytes)) if bytes[0] == 2 => {
                                // B's real signature: provenance = B's own handler
                                if let Ok(Message::HandshakeResponse(r)) = Message::deserialize(bytes.clone()) {
                                    if verify(&chb, &r.signature, &self.keys.pk[HONEST as usize - 1])
                                        && !self.sh.sig_of.contains_key(&(HONEST, *ch))
                                    {
                                        self.sh.record_sig(HONEST, *ch, r.signature);
                                        self.model_acts.push(format!("ARemoteSign {} {}", HONEST, ch));
                                    }
                                }
                                self.tags.insert("relay-via-real-node-B");
                                Real::Deliver(*c, bytes.clone())
                            }
                            _ => Real::Skip,
                        }
                    }
                }
            }
            Act::Replay { c, nth } => {
                if self.sh.delivered.is_empty() {
                    Real::Skip
                } else {
                    let (bytes, _) = self.sh.delivered[*nth % self.sh.delivered.len()].clone();
                    Real::Deliver(*c, bytes)
                }
            }
        };
        // model action + bookkeeping for delivered responses
        let mut cur_conn = None;
        if let Real::Deliver(c, bytes) = &real {
            cur_conn = Some(*c);
            if bytes[0] == 2 {
                if let Ok(Message::HandshakeResponse(r)) = Message::deserialize(bytes.clone()) {
                    let term = self.term_of_response(&r);
                    self.sh.delivered.push((bytes.clone(), term.clone()));
                    // pref is filled in after the real run (which old entry was taken)
                    self.model_acts.push(format!("ADeliverResp {} {} @PREF@", c, term));
                    resp_info = Some((*c, r));
                }
            }
        }
        if let Real::Skip = real {
            return true;
        }

        match &real {
            // a re-opened or closed connection has no outstanding challenge
            Real::New(c) | Real::Disc(c, _) => {
                self.sh.outstanding.remove(c);
            }
            _ => {}
        }
        // connection epochs: a new-connection event starts a new epoch of that index; what was issued
        // or proved on the previous connection of the index does not count for the new one
        if let Real::New(c) = &real {
            *self.sh.epoch.entry(*c).or_insert(0) += 1;
            self.sh.epoch_issued.remove(c);
            self.sh.epoch_proved.remove(c);
            match self.sh.prev_peers.iter().find(|p| p.idx == *c).map(|p| p.status) {
                Some(2) => {
                    // the disconnect event of the previous connection was lost or is still under way
                    self.tags.insert("reopen-while-connected");
                }
                Some(1) => {
                    self.tags.insert("reopen-while-connecting");
                }
                _ => {}
            }
        }
        // a delivered response proves key K for the current epoch of its index iff its signature
        // verifies under K over a challenge the node issued on that index within this epoch
        // (decided with the real `verify` from what the node put on the wire, not from its state)
        if let Some((c, r)) = &resp_info {
            let issued_now = self.sh.epoch_issued.get(c).cloned().unwrap_or_default();
            for ch in issued_now.iter().rev() {
                if verify(&self.sh.bytes_of(*ch), &r.signature, &r.public_key) {
                    let kid = self.keys.id(&r.public_key);
                    let at = self.expected.len();
                    self.sh.epoch_proved.entry(*c).or_default().entry(kid).or_insert((*ch, at));
                    break;
                }
            }
        }
        let outstanding_before: BTreeMap<u64, u64> = self.sh.outstanding.clone();

        // ---- run the real code ----
        {
            let mut d = self.sut.disk.lock().unwrap();
            d.sent.clear();
            d.disconnects.clear();
            d.events.clear();
        }
        let sut = &mut self.sut;
        let outcome = catch_unwind(AssertUnwindSafe(|| match &real {
            Real::New(c) => rt.block_on(sut.net.handle_new_peer(*c, None)),
            Real::Disc(c, ext) => rt.block_on(sut.net.handle_peer_disconnect(
                *c,
                if *ext { PeerDisconnectType::ExternalDisconnect } else { PeerDisconnectType::InternalDisconnect },
            )),
            Real::Tick(dt) => {
                sut.clock.0.fetch_add(*dt, Ordering::SeqCst);
            }
            Real::Purge => {
                let now = sut.clock.0.load(Ordering::SeqCst);
                rt.block_on(sut.peers.write()).remove_disconnected_peers(now);
            }
            Real::Deliver(c, bytes) => sut.deliver(rt, *c, bytes.clone()),
            Real::Skip => {}
        }));
        self.sh.time = self.sut.clock.0.load(Ordering::SeqCst);
        if let Err(e) = outcome {
            let msg = if let Some(s) = e.downcast_ref::<String>() {
                s.clone()
            } else if let Some(s) = e.downcast_ref::<&str>() {
                s.to_string()
            } else {
                "?".to_string()
            };
            self.panicked = true;
            let site = if msg.contains("Old peer should not be already connected") {
                2
            } else if msg.contains("peer should exist here") {
                3
            } else {
                0
            };
            if let Some(a) = self.model_acts.last_mut() {
                *a = a.replace("@PREF@", "0");
            }
            self.expected.push(vec![vec![999, site]]);
            // no panic is listed any more (the key-change assert was fixed in ae2aeaa)
            let _ = &resp_info;
            self.failures.push(format!("step {} ({}) panicked: {}", self.expected.len() - 1, act.label(), msg));
            return false;
        }

        // ---- observe ----
        let (sent, discs, events) = {
            let d = self.sut.disk.lock().unwrap();
            (d.sent.clone(), d.disconnects.clone(), d.events.clone())
        };
        let mut rows: Vec<Vec<u64>> = vec![];
        for (c, bytes) in &sent {
            match Message::deserialize(bytes.clone()) {
                Ok(Message::HandshakeChallenge(ch)) => {
                    let id = self.sh.intern(&ch.challenge);
                    self.sh.issued.entry(*c).or_default().push(id);
                    self.sh.outstanding.insert(*c, id);
                    self.sh.epoch_issued.entry(*c).or_default().push(id);
                    rows.push(vec![300, *c, 1, id]);
                }
                Ok(Message::HandshakeResponse(r)) => {
                    // which (key, message) is this real signature over?
                    let k = self.keys.id(&r.public_key);
                    if !self.sh.sig_rev.contains_key(&r.signature.to_vec()) {
                        let n = self.sh.val_bytes.len() as u64;
                        for id in (0..=n).rev() {
                            if verify(&self.sh.bytes_of(id), &r.signature, &r.public_key) {
                                self.sh.record_sig(k, id, r.signature);
                                break;
                            }
                        }
                    }
                    let (sk, sm, tag) = match self.sh.sig_rev.get(&r.signature.to_vec()) {
                        Some((k, m)) => (*k, *m, 1),
                        None => (0, 0, 0),
                    };
                    let chid = self.sh.intern(&r.challenge);
                    if chid != 0 {
                        self.sh.issued.entry(*c).or_default().push(chid);
                        self.sh.outstanding.insert(*c, chid);
                        self.sh.epoch_issued.entry(*c).or_default().push(chid);
                        }
                    let cv = vt(&r.core_version);
                    let wv = vt(&r.wallet_version);
                    rows.push(vec![300, *c, 2, k, tag, sk, sm, chid, cv.0, cv.1, cv.2, wv.0, wv.1, wv.2]);
                }
                _ => rows.push(vec![300, *c, 3]),
            }
        }
        for c in &discs {
            rows.push(vec![301, *c]);
            // the node closed the connection
            self.sh.outstanding.remove(c);
        }
        let mut accepted_on: Vec<u64> = vec![];
        for e in &events {
            let mut it = e.split(' ');
            let name = it.next().unwrap_or("");
            let c: u64 = it.next().and_then(|x| x.parse().ok()).unwrap_or(0);
            let code = match name {
                "handshake_complete" => {
                    accepted_on.push(c);
                    1
                }
                "peer_connected" => 2,
                "new_version" => 3,
                "connection_dropped" => 4,
                _ => 9,
            };
            rows.push(vec![302, code, c]);
        }
        let (peers, addr) = self.snapshot();
        for p in &peers {
            rows.push(vec![
                100,
                p.idx,
                p.status,
                p.is_static as u64,
                p.chal.map(|v| v + 1).unwrap_or(0),
                p.pk.map(|v| v + 1).unwrap_or(0),
                p.lim_count,
                p.lim_last,
                p.disc.map(|v| v + 1).unwrap_or(0),
                p.cver.0,
                p.cver.1,
                p.cver.2,
                p.wver.0,
                p.wver.1,
                p.wver.2,
            ]);
        }
        for (k, c) in &addr {
            rows.push(vec![200, *k, *c]);
        }
        if !matches!(real, Real::Skip) {
            self.expected.push(rows);
        }
        // which old entry did remove_reconnected_peer take (hash-map order)?
        let gone: Vec<u64> = self
            .sh
            .prev_peers
            .iter()
            .filter(|p| !peers.iter().any(|q| q.idx == p.idx))
            .map(|p| p.idx)
            .collect();
        if let Some(a) = self.model_acts.last_mut() {
            if a.contains("@PREF@") {
                let pref = if gone.len() == 1 { gone[0] } else { 0 };
                *a = a.replace("@PREF@", &pref.to_string());
            }
        }

        for c in &gone {
            self.sh.outstanding.remove(c);
            // the entry is gone: nothing issued or proved on it counts for a later entry of that index
            self.sh.epoch_issued.remove(c);
            self.sh.epoch_proved.remove(c);
        }
        self.oracle(act, cur_conn, resp_info.as_ref(), &accepted_on, &peers, &addr, &gone, &outstanding_before);
        self.sh.prev_peers = peers;
        self.sh.prev_addr = addr;
        true
    }

    /// The C17 statement evaluated on the implementation's observable behaviour.
    fn oracle(
        &mut self,
        act: &Act,
        cur_conn: Option<u64>,
        resp: Option<&(u64, HandshakeResponse)>,
        accepted_on: &[u64],
        peers: &[PeerObs],
        addr: &[(u64, u64)],
        gone: &[u64],
        outstanding_before: &BTreeMap<u64, u64>,
    ) {
        let k = self.expected.len() - 1;
        let prev = self.sh.prev_peers.clone();
        let prev_addr = self.sh.prev_addr.clone();
        let before = |c: u64| prev.iter().find(|p| p.idx == c);
        // --- is the delivered response legitimate by the statement's own terms? ---
        // (decided with the real `verify`, from what the node put on the wire, not from its state)
        let mut legit: Option<(u64, u64, u64)> = None; // (conn, key, challenge)
        let mut why_not = String::new();
        if let Some((c, r)) = resp {
            let outstanding = outstanding_before.get(c).copied();
            let cv = vt(&r.core_version);
            let version_ok = core_compatible(cv);
            match outstanding {
                None => why_not = "unsolicited (no challenge is outstanding on this connection: none issued since it was (re)opened, or already accepted)".to_string(),
                Some(ch) => {
                    let sig_ok = verify(&self.sh.bytes_of(ch), &r.signature, &r.public_key);
                    if !sig_ok {
                        why_not = format!("signature does not verify under the response key over the challenge {} issued on this connection", ch);
                    } else if !version_ok {
                        why_not = "incompatible core version".to_string();
                    } else if self.sh.accepted.contains(&ch) {
                        why_not = format!("challenge {} was already accepted once", ch);
                    } else {
                        legit = Some((*c, self.keys.id(&r.public_key), ch));
                    }
                }
            }
        }
        // --- (1) acceptance only for a legitimate response on that very connection ---
        for c in accepted_on {
            match legit {
                Some((lc, key, ch)) if lc == *c => {
                    self.sh.accepted.insert(ch);
                    if self.sh.outstanding.get(c) == Some(&ch) {
                        self.sh.outstanding.remove(c);
                    }
                    self.accepted_count += 1;
                    self.tags.insert("accepted");
                    let after = peers.iter().find(|p| p.idx == *c);
                    if after.map(|p| (p.status, p.pk)) != Some((2, Some(key))) {
                        self.failures.push(format!(
                            "step {} ({}): handshake accepted on {} under key {} but the entry is {:?}",
                            k, act.label(), c, key, after
                        ));
                    }
                    // ----- listed findings (the stronger reading / bookkeeping around a VALID handshake) -----
                    if key == ME {
                        self.known.push((
                            "reflection-own-key".to_string(),
                            format!("step {} ({}): connection {} is Connected under the node's OWN key: the signature over challenge {} was made by the node itself when that challenge was shown to it on another connection", k, act.label(), c, ch),
                        ));
                        self.tags.insert("reflection");
                    }
                    if key == HONEST && self.tags.contains("relay-via-real-node-B") && matches!(act, Act::RelayViaB { .. }) {
                        self.known.push((
                            "relay-honest-signer".to_string(),
                            format!("step {} ({}): the attacker's connection {} is Connected under honest key 2: node B signed challenge {} when the attacker showed it to B on the attacker's own connection to B", k, act.label(), c, ch),
                        ));
                        self.tags.insert("relay");
                    }
                    let mapped = addr.iter().find(|(kk, _)| *kk == key).map(|x| x.1);
                    match mapped {
                        Some(ix) => {
                            if peers.iter().find(|p| p.idx == ix).and_then(|p| p.pk) != Some(key) {
                                self.failures.push(format!("step {} ({}): address_to_peers[{}] = {} which is not an entry of that key", k, act.label(), key, ix));
                            }
                        }
                        None => {
                            // (before fix f517868 a reconnection merge lost the key here)
                            self.failures.push(format!("step {} ({}): key {} authenticated on {} but address_to_peers has no entry for it (entries removed in this step: {:?})", k, act.label(), key, c, gone));
                        }
                    }
                    if gone.len() == 1 {
                        self.tags.insert("reconnection-merge");
                    }
                }
                _ => {
                    self.failures.push(format!(
                        "step {} ({}): handshake ACCEPTED on connection {} although the response is not legitimate: {}",
                        k,
                        act.label(),
                        c,
                        if why_not.is_empty() { "no response was delivered on this connection" } else { &why_not }
                    ));
                }
            }
        }
        // --- (2) nothing becomes Connected / gets a key without an acceptance ---
        for p in peers {
            let b = before(p.idx);
            let was_connected = b.map(|x| x.status == 2).unwrap_or(false);
            if p.status == 2 && !was_connected && !accepted_on.contains(&p.idx) {
                self.failures.push(format!("step {} ({}): connection {} became Connected without an accepted handshake", k, act.label(), p.idx));
            }
            let old_pk = b.and_then(|x| x.pk);
            if p.pk != old_pk && !accepted_on.contains(&p.idx) {
                self.failures.push(format!("step {} ({}): public key of connection {} changed {:?} -> {:?} without an accepted handshake", k, act.label(), p.idx, old_pk, p.pk));
            }
            if p.status == 2 && p.pk.is_none() {
                self.failures.push(format!("step {} ({}): connection {} is Connected without a key", k, act.label(), p.idx));
            }
        }
        // --- (3) a response that is not legitimate is inert ---
        if let Some((c, _)) = resp {
            if legit.is_none() {
                self.rejected_count += 1;
                self.tags.insert("rejected");
                for p in peers {
                    if p.idx == *c {
                        let b = before(p.idx);
                        if p.status == 2 && !b.map(|x| x.status == 2).unwrap_or(false) {
                            self.failures.push(format!("step {} ({}): rejected response ({}) left connection {} Connected", k, act.label(), why_not, c));
                        }
                        continue;
                    }
                    if before(p.idx) != Some(p) {
                        self.failures.push(format!("step {} ({}): a response that must be rejected ({}) on connection {} changed ANOTHER connection: {:?} -> {:?}", k, act.label(), why_not, c, before(p.idx), p));
                    }
                }
                for p in &prev {
                    if p.idx != *c && !peers.iter().any(|q| q.idx == p.idx) {
                        self.failures.push(format!("step {} ({}): a response that must be rejected on {} removed connection {}", k, act.label(), c, p.idx));
                    }
                }
                if prev_addr != addr {
                    self.failures.push(format!("step {} ({}): a response that must be rejected ({}) changed address_to_peers {:?} -> {:?}", k, act.label(), why_not, prev_addr, addr));
                }
            }
        }
        // --- (4) address_to_peers only ever points at an entry of that key ---
        for (kk, ix) in addr {
            if peers.iter().find(|p| p.idx == *ix).and_then(|p| p.pk) != Some(*kk) {
                self.failures.push(format!("step {} ({}): address_to_peers[{}] = {} is not an entry holding that key", k, act.label(), kk, ix));
            }
        }
        // --- (5) every entry that records a key is reachable through address_to_peers
        //         (reconnection merge: fix f517868, purge: fix 88efef8) ---
        for p in peers {
            if let Some(key) = p.pk {
                if !addr.iter().any(|(kk, _)| *kk == key) {
                    self.failures.push(format!(
                        "step {} ({}): connection {} (status {}) records key {} but address_to_peers has no entry for that key (entries removed in this step: {:?})",
                        k, act.label(), p.idx, p.status, key, gone
                    ));
                }
            }
        }
        // --- (6) connection epochs: an entry that is Connected under key K in the current epoch of its
        //         index (epoch = since the last new-connection event for that index) needs, WITHIN that
        //         epoch, a challenge issued by this node on that index and a delivered response whose
        //         signature verifies under K over that challenge. A connection never inherits the
        //         authentication of the previous connection of its index. Checked on every entry after
        //         every step (not only on status changes); reported once per (index, epoch, key). ---
        for p in peers {
            if p.status != 2 {
                continue;
            }
            let key = match p.pk {
                Some(key) => key,
                None => continue, // reported by (2)
            };
            let e = self.sh.epoch.get(&p.idx).copied().unwrap_or(0);
            let proved = self.sh.epoch_proved.get(&p.idx).map(|m| m.contains_key(&key)).unwrap_or(false);
            if proved {
                continue;
            }
            if !self.sh.epoch_flagged.insert((p.idx, e, key)) {
                continue;
            }
            let issued_now = self.sh.epoch_issued.get(&p.idx).cloned().unwrap_or_default();
            let mapped = addr.iter().find(|(kk, _)| *kk == key).map(|x| x.1);
            let why = if e == 0 {
                "no new-connection event was ever processed for this index".to_string()
            } else if issued_now.is_empty() {
                "the node has issued no challenge on this connection".to_string()
            } else {
                format!(
                    "no response with a valid signature by key {} over a challenge issued on this connection (issued: {:?}) has been delivered on it",
                    key, issued_now
                )
            };
            self.failures.push(format!(
                "step {} ({}): connection {} is Connected under key {} in connection epoch {} of that index (address_to_peers[{}] = {:?}), but {}: the entry carries the authentication of an earlier connection",
                k, act.label(), p.idx, key, e, key, mapped, why
            ));
            self.tags.insert("epoch-violation");
        }
        if let Act::Purge = act {
            if !gone.is_empty() {
                self.tags.insert("purged");
            }
        }
        let _ = cur_conn;
    }
}

// ------------------------------------------------------------------ case generation

struct CaseOut {
    kind: &'static str,
    acts: Vec<Act>,
    model_acts: Vec<String>,
    expected: Vec<Vec<Vec<u64>>>,
    failures: Vec<String>,
    known: Vec<(String, String)>,
    accepted: u64,
    rejected: u64,
    panicked: bool,
    tags: BTreeSet<&'static str>,
}

fn finish(ctx: &Ctx, kind: &'static str, acts: &[Act]) -> CaseOut {
    CaseOut {
        kind,
        acts: acts.to_vec(),
        model_acts: ctx.model_acts.clone(),
        expected: ctx.expected.clone(),
        failures: ctx.failures.clone(),
        known: ctx.known.clone(),
        accepted: ctx.accepted_count,
        rejected: ctx.rejected_count,
        panicked: ctx.panicked,
        tags: ctx.tags.clone(),
    }
}

fn run_case(rt: &tokio::runtime::Runtime, keys: &Keys, kind: &'static str, acts: &[Act], salt: u64) -> CaseOut {
    let mut ctx = Ctx::new(rt, keys, salt);
    for a in acts {
        if !ctx.step(a) {
            break;
        }
    }
    finish(&ctx, kind, acts)
}

fn genuine(c: u64, key: u64) -> Act {
    Act::Resp { c, key, over: Val::Issued(c, 0), sig: SigKind::Valid, ver: VerKind::Same, echo: Val::Fresh }
}

fn alphabet() -> Vec<Act> {
    vec![
        Act::New(2),
        Act::New(3),
        // the server of the static connection 1 challenges us
        Act::Chal { c: 1, x: Val::Fresh },
        // reflection: the challenge issued on 2 is shown to the node on 3
        Act::Chal { c: 3, x: Val::Issued(2, 0) },
        genuine(2, HONEST),
        genuine(3, HONEST),
        // the node's own signature over the challenge of 2 (exists only after the reflection)
        Act::Resp { c: 2, key: ME, over: Val::Issued(2, 0), sig: SigKind::Valid, ver: VerKind::Same, echo: Val::Fresh },
        // lifted from another connection
        Act::Resp { c: 3, key: HONEST, over: Val::Issued(2, 0), sig: SigKind::Valid, ver: VerKind::Same, echo: Val::Fresh },
        // verbatim replay of the first delivered response, on 2
        Act::Replay { c: 2, nth: 0 },
        // attacker key answers (a different key than before on this entry => assert)
        genuine(2, 3),
        // incompatible version, valid signature
        Act::Resp { c: 2, key: HONEST, over: Val::Issued(2, 0), sig: SigKind::Valid, ver: VerKind::MinorDiff, echo: Val::Fresh },
        Act::Disc(2, true),
        // re-handshake on an incoming connection: new outstanding challenge
        Act::Chal { c: 2, x: Val::Fresh },
    ]
}

/// the static (outgoing) connection 1: the Peer object survives disconnects and re-dials
fn alphabet_static() -> Vec<Act> {
    vec![
        Act::New(1),
        Act::Disc(1, true),
        Act::Chal { c: 1, x: Val::Fresh },
        // the server's answer to the challenge we sent along with our response
        genuine(1, HONEST),
        // the same message again (withheld by the attacker and delivered later / replayed)
        Act::Replay { c: 1, nth: 0 },
        // a response under another key, also over the outstanding challenge
        genuine(1, 3),
        // valid answer from an OLDER, incompatible core version
        Act::Resp { c: 1, key: HONEST, over: Val::Issued(1, 0), sig: SigKind::Valid, ver: VerKind::OlderMinor, echo: Val::Fresh },
        // signature over the all-zero challenge (the honest key signs any challenge shown to it)
        Act::Resp { c: 1, key: HONEST, over: Val::Zero, sig: SigKind::Valid, ver: VerKind::Same, echo: Val::Zero },
        // incoming connection 2 for the zero-challenge case after an acceptance
        Act::New(2),
        genuine(2, HONEST),
        Act::Resp { c: 2, key: HONEST, over: Val::Zero, sig: SigKind::Valid, ver: VerKind::Same, echo: Val::Fresh },
    ]
}

fn dfs(
    ctx: &mut Ctx,
    alpha: &[Act],
    depth: usize,
    path: &mut Vec<Act>,
    leaf: &mut dyn FnMut(&Ctx, &[Act]),
) {
    if path.len() == depth || ctx.panicked {
        leaf(ctx, path);
        return;
    }
    let saved = ctx.save();
    for a in alpha {
        ctx.step(a);
        path.push(a.clone());
        dfs(ctx, alpha, depth, path, leaf);
        path.pop();
        ctx.restore(&saved);
    }
}

fn gen_random(rng: &mut Rng, len: usize) -> Vec<Act> {
    let mut acts = vec![];
    if rng.chance(1, 2) {
        acts.push(Act::Tick(rng.range(1, 2_000_000)));
    }
    let conn = |rng: &mut Rng| rng.range(1, 3);
    let key = |rng: &mut Rng| *rng.pick(&[1u64, 2, 2, 2, 3, 3, 4]);
    let val = |rng: &mut Rng| match rng.below(10) {
        0 => Val::Fresh,
        1 => Val::Zero,
        2 | 3 => Val::Issued(rng.range(1, 3), rng.below(2) as usize),
        _ => Val::Fresh,
    };
    for _ in 0..len {
        let a = match rng.below(100) {
            0..=17 => Act::New(conn(rng)),
            18..=25 => Act::Disc(conn(rng), rng.chance(1, 2)),
            26..=29 => Act::Tick(*rng.pick(&[1u64, 1000, 60_001, 300_000, 600_000])),
            30..=33 => Act::Purge,
            34..=47 => {
                let c = conn(rng);
                let x = if rng.chance(1, 3) { Val::Issued(conn(rng), 0) } else { val(rng) };
                Act::Chal { c, x }
            }
            48..=69 => {
                // mostly genuine
                let c = conn(rng);
                let mut a = genuine(c, key(rng));
                if let Act::Resp { ver, echo, .. } = &mut a {
                    if rng.chance(1, 6) {
                        *ver = *rng.pick(&[VerKind::NewerWallet, VerKind::OlderPatchOlderWallet, VerKind::NewerPatchWallet]);
                    }
                    if rng.chance(1, 6) {
                        *echo = Val::Zero;
                    }
                }
                a
            }
            70..=91 => {
                let c = conn(rng);
                let over = match rng.below(6) {
                    0 => Val::Issued(c, 0),
                    1 => Val::Issued(c, 1),
                    2 | 3 => Val::Issued(conn(rng), 0),
                    4 => Val::Zero,
                    _ => Val::Fresh,
                };
                let sig = match rng.below(5) {
                    0 => SigKind::Garbage,
                    1 => SigKind::ByOther(key(rng)),
                    _ => SigKind::Valid,
                };
                let ver = match rng.below(8) {
                    0 => VerKind::Unset,
                    1 => *rng.pick(&[VerKind::MinorDiff, VerKind::OlderMinor]),
                    2 => *rng.pick(&[VerKind::MajorDiff, VerKind::OlderMajor, VerKind::ZeroMajorPatch]),
                    3 => *rng.pick(&[VerKind::NewerWallet, VerKind::OlderPatchOlderWallet, VerKind::NewerPatchWallet]),
                    _ => VerKind::Same,
                };
                Act::Resp { c, key: key(rng), over, sig, ver, echo: val(rng) }
            }
            92..=96 => Act::Replay { c: conn(rng), nth: rng.below(8) as usize },
            _ => Act::RelayViaB { c: conn(rng) },
        };
        acts.push(a);
        // motif: one key on two connections while a challenge is outstanding on the first, then the
        // answer to the first connection's challenge is delivered on the second
        if rng.chance(1, 40) {
            let a = conn(rng);
            let mut b = conn(rng);
            if b == a {
                b = a % 3 + 1;
            }
            let k = *rng.pick(&[2u64, 3, 4]);
            acts.push(Act::New(a));
            if a == 1 {
                acts.push(Act::Chal { c: 1, x: Val::Fresh });
            }
            acts.push(genuine(a, k));
            acts.push(Act::Disc(a, rng.chance(1, 2)));
            acts.push(Act::New(a));
            if a == 1 || rng.chance(1, 2) {
                acts.push(Act::Chal { c: a, x: Val::Fresh });
            }
            acts.push(Act::New(b));
            if b == 1 {
                acts.push(Act::Chal { c: 1, x: Val::Fresh });
            }
            acts.push(genuine(b, k));
            acts.push(Act::Resp { c: b, key: k, over: Val::Issued(a, 0), sig: SigKind::Valid, ver: VerKind::Same, echo: Val::Fresh });
        }
        // motif: a complete handshake, then a new-connection event for the SAME index without the
        // disconnect event in between (lost or late), then traffic on the new connection: nothing,
        // the old response again, a fresh challenge, a proper new handshake, the late disconnect
        if rng.chance(1, 25) {
            let a = conn(rng);
            let k = *rng.pick(&[2u64, 2, 3, 4]);
            acts.push(Act::New(a));
            if a == 1 {
                acts.push(Act::Chal { c: 1, x: Val::Fresh });
            }
            acts.push(genuine(a, k));
            acts.push(Act::New(a));
            for _ in 0..rng.below(4) {
                let t = match rng.below(6) {
                    // the response accepted on the previous connection (an incoming connection got a
                    // new challenge at the re-open, so the old one is the second latest)
                    0 => Act::Resp { c: a, key: k, over: Val::Issued(a, if a == 1 { 0 } else { 1 }), sig: SigKind::Valid, ver: VerKind::Same, echo: Val::Fresh },
                    1 => Act::Replay { c: a, nth: rng.below(8) as usize },
                    2 => Act::Chal { c: a, x: Val::Fresh },
                    3 => genuine(a, k),
                    4 => Act::Disc(a, rng.chance(1, 2)),
                    _ => Act::New(a),
                };
                acts.push(t);
            }
        }
    }
    acts
}

fn scripted() -> Vec<(&'static str, Vec<Act>)> {
    let mut v: Vec<(&'static str, Vec<Act>)> = vec![];
    // complete honest handshake, node as acceptor (2) and as initiator (1)
    v.push((
        "honest-both-roles",
        vec![
            Act::Tick(1_700_000),
            Act::New(2),
            genuine(2, HONEST),
            Act::New(1),
            Act::Chal { c: 1, x: Val::Fresh },
            genuine(1, 4),
        ],
    ));
    // replay of the accepted response on the same connection, and on another one
    v.push((
        "replay",
        vec![Act::New(2), genuine(2, HONEST), Act::Replay { c: 2, nth: 0 }, Act::New(3), Act::Replay { c: 3, nth: 0 }],
    ));
    // reconnection of the same key: the stale entry is merged, the key maps to the new connection
    v.push((
        "reconnection",
        vec![
            Act::New(2),
            genuine(2, HONEST),
            Act::Disc(2, true),
            Act::New(3),
            genuine(3, HONEST),
        ],
    ));
    // key change on one entry: assert_eq! panics
    v.push((
        "key-change",
        vec![
            Act::New(2),
            genuine(2, 3),
            Act::Chal { c: 2, x: Val::Fresh },
            genuine(2, 4),
        ],
    ));
    // reflection: own signature obtained on connection 3 authenticates connection 2 as the node itself
    v.push((
        "reflection",
        vec![
            Act::New(2),
            Act::New(3),
            Act::Chal { c: 3, x: Val::Issued(2, 0) },
            Act::Resp { c: 2, key: ME, over: Val::Issued(2, 0), sig: SigKind::Valid, ver: VerKind::Same, echo: Val::Fresh },
        ],
    ));
    // reflection on the same connection does not work (the stored challenge is replaced)
    v.push((
        "reflection-same-connection",
        vec![
            Act::New(2),
            Act::Chal { c: 2, x: Val::Issued(2, 0) },
            Act::Resp { c: 2, key: ME, over: Val::Issued(2, 1), sig: SigKind::Valid, ver: VerKind::Same, echo: Val::Fresh },
        ],
    ));
    // relay through the real honest node B
    v.push(("relay", vec![Act::New(3), Act::RelayViaB { c: 3 }]));
    // relay while B is properly connected on 2: the attacker's connection takes over the key
    v.push((
        "relay-takeover",
        vec![Act::New(2), genuine(2, HONEST), Act::New(3), Act::RelayViaB { c: 3 }, Act::Disc(3, true), Act::Tick(600_001), Act::Purge],
    ));
    // two live connections of one key, one goes away and is purged
    v.push((
        "purge",
        vec![
            Act::Tick(1_000_000),
            Act::New(2),
            genuine(2, HONEST),
            Act::New(3),
            genuine(3, HONEST),
            Act::Disc(3, false),
            Act::Tick(599_999),
            Act::Purge,
            Act::Tick(1),
            Act::Purge,
        ],
    ));
    // static peer: the server's answer is withheld, the connection drops, the node re-dials, the
    // withheld answer is delivered on the new connection: it was made for the old connection's challenge
    v.push((
        "withheld-response-after-redial",
        vec![
            Act::New(1),
            Act::Chal { c: 1, x: Val::Fresh },
            Act::Disc(1, true),
            Act::New(1),
            genuine(1, HONEST), // over the challenge issued before the disconnect
            Act::New(1),
            Act::Chal { c: 1, x: Val::Fresh },
            genuine(1, HONEST), // the proper one
        ],
    ));
    // same, the old connection was closed by the node itself after a bad response
    v.push((
        "withheld-response-after-rejection",
        vec![
            Act::New(1),
            Act::Chal { c: 1, x: Val::Fresh },
            Act::Resp { c: 1, key: 3, over: Val::Issued(1, 0), sig: SigKind::Garbage, ver: VerKind::Same, echo: Val::Zero },
            Act::New(1),
            genuine(1, HONEST),
        ],
    ));
    // a challenge delivered while the static entry is not connected (message in flight after a
    // disconnect) leaves a stored challenge; the re-dial discards it (fix 8a16f73)
    v.push((
        "stale-challenge-survives-redial",
        vec![
            Act::New(1),
            Act::Disc(1, true),
            Act::Chal { c: 1, x: Val::Fresh },
            Act::New(1),
            genuine(1, HONEST),
        ],
    ));
    // a signature over the all-zero challenge while nothing is outstanding: before any challenge
    // (static 1), after an acceptance (2), and the node's own signature over zero (reflection of zero)
    v.push((
        "zero-challenge",
        vec![
            Act::New(1),
            Act::Resp { c: 1, key: HONEST, over: Val::Zero, sig: SigKind::Valid, ver: VerKind::Same, echo: Val::Zero },
            Act::New(2),
            genuine(2, HONEST),
            Act::Resp { c: 2, key: HONEST, over: Val::Zero, sig: SigKind::Valid, ver: VerKind::Same, echo: Val::Fresh },
            Act::New(3),
            Act::Chal { c: 3, x: Val::Zero },
            Act::New(1),
            Act::Resp { c: 1, key: ME, over: Val::Zero, sig: SigKind::Valid, ver: VerKind::Same, echo: Val::Zero },
        ],
    ));
    // key change on an entry is rejected (was a panic before ae2aeaa)
    // handshake limiter: 100 messages per minute and connection
    let mut lim = vec![Act::Tick(100_000), Act::New(2)];
    for _ in 0..101 {
        lim.push(Act::Chal { c: 2, x: Val::Fresh });
    }
    lim.push(genuine(2, HONEST));
    lim.push(Act::Tick(60_001));
    lim.push(genuine(2, HONEST));
    v.push(("limiter", lim));
    // versions
    v.push((
        "versions",
        vec![
            Act::New(2),
            Act::Resp { c: 2, key: HONEST, over: Val::Issued(2, 0), sig: SigKind::Valid, ver: VerKind::Unset, echo: Val::Fresh },
            Act::New(2),
            Act::Resp { c: 2, key: HONEST, over: Val::Issued(2, 0), sig: SigKind::Valid, ver: VerKind::MajorDiff, echo: Val::Fresh },
            Act::New(2),
            Act::Resp { c: 2, key: HONEST, over: Val::Issued(2, 0), sig: SigKind::Valid, ver: VerKind::NewerWallet, echo: Val::Zero },
        ],
    ));
    // key pin of a static entry across a re-dial: the entry was authenticated under key 2; after the
    // re-dial a valid answer by another key is rejected and the entry keeps key 2
    v.push((
        "static-redial-key-pin",
        vec![
            Act::New(1),
            Act::Chal { c: 1, x: Val::Fresh },
            genuine(1, HONEST),
            Act::Disc(1, true),
            Act::New(1),
            Act::Chal { c: 1, x: Val::Fresh },
            genuine(1, 3),
            Act::New(1),
            Act::Chal { c: 1, x: Val::Fresh },
            genuine(1, HONEST),
        ],
    ));
    // the same key on two connections while a challenge is outstanding on the first: entry 1 (key 2,
    // re-dialled, mid re-handshake) is merged into connection 3 when key 2 authenticates there; the
    // answer to connection 1's challenge must not be accepted on connection 3
    v.push((
        "merge-with-outstanding-challenge",
        vec![
            Act::New(1),
            Act::Chal { c: 1, x: Val::Fresh },
            genuine(1, HONEST),
            Act::Disc(1, true),
            Act::New(1),
            Act::Chal { c: 1, x: Val::Fresh },
            Act::New(3),
            genuine(3, HONEST),
            Act::Resp { c: 3, key: HONEST, over: Val::Issued(1, 0), sig: SigKind::Valid, ver: VerKind::Same, echo: Val::Fresh },
            // same shape between two incoming connections
            Act::New(2),
            genuine(2, 4),
            Act::Disc(2, false),
            Act::New(2),
            Act::New(1),
            Act::Chal { c: 1, x: Val::Fresh },
            genuine(1, 4),
            Act::Resp { c: 1, key: 4, over: Val::Issued(2, 0), sig: SigKind::Valid, ver: VerKind::Same, echo: Val::Zero },
        ],
    ));
    // every version class, upward and downward, each on a fresh challenge
    {
        let mut acts = vec![];
        for k in [
            VerKind::OlderMinor,
            VerKind::OlderMajor,
            VerKind::ZeroMajorPatch,
            VerKind::MinorDiff,
            VerKind::MajorDiff,
            VerKind::Unset,
            VerKind::OlderPatchOlderWallet,
            VerKind::NewerPatchWallet,
            VerKind::NewerWallet,
            VerKind::Same,
        ] {
            acts.push(Act::New(2));
            acts.push(Act::Resp { c: 2, key: HONEST, over: Val::Issued(2, 0), sig: SigKind::Valid, ver: k, echo: Val::Fresh });
        }
        v.push(("versions-all", acts));
    }
    // limiter window boundary: exactly 60 000 ms after the window start is still inside (`>`), +1 is outside
    {
        let mut lim = vec![Act::Tick(100_000), Act::New(2)];
        for _ in 0..101 {
            lim.push(Act::Chal { c: 2, x: Val::Fresh });
        }
        lim.push(Act::Tick(60_000));
        lim.push(genuine(2, HONEST));
        lim.push(Act::Chal { c: 2, x: Val::Fresh });
        lim.push(Act::Tick(1));
        lim.push(Act::Chal { c: 2, x: Val::Fresh });
        lim.push(genuine(2, HONEST));
        v.push(("limiter-window-boundary", lim));
    }
    // a new-connection event for an index whose entry is still Connected (the disconnect event of the
    // previous socket was lost, or arrives later): the entry must fall back to Connecting and the new
    // connection has to authenticate itself; the old response, replayed, does not count for it
    v.push((
        "reopen-while-connected-incoming",
        vec![
            Act::New(2),
            genuine(2, HONEST),
            Act::New(2), // no Disc in between
            Act::Replay { c: 2, nth: 0 },
            Act::Resp { c: 2, key: HONEST, over: Val::Issued(2, 1), sig: SigKind::Valid, ver: VerKind::Same, echo: Val::Fresh },
            Act::Chal { c: 2, x: Val::Fresh },
            genuine(2, HONEST), // the proper handshake of the new connection
            Act::New(2),
            Act::Disc(2, true), // the late disconnect event of the previous socket
        ],
    ));
    v.push((
        "reopen-while-connected-static",
        vec![
            Act::New(1),
            Act::Chal { c: 1, x: Val::Fresh },
            genuine(1, HONEST),
            Act::New(1), // no Disc in between
            Act::Replay { c: 1, nth: 0 },
            Act::New(3),
            genuine(3, 4),
            Act::New(3),
            Act::Tick(1000),
            Act::Purge,
            Act::Chal { c: 1, x: Val::Fresh },
            genuine(1, HONEST),
        ],
    ));
    // reconnection onto the static entry's key
    v.push((
        "static-reconnection",
        vec![
            Act::New(1),
            Act::Chal { c: 1, x: Val::Fresh },
            genuine(1, HONEST),
            Act::Disc(1, true),
            Act::New(2),
            genuine(2, HONEST),
            Act::Tick(700_000),
            Act::Purge,
        ],
    ));
    v
}

fn fnv(parts: &[String]) -> u64 {
    let mut h: u64 = 0xcbf29ce484222325;
    for p in parts {
        for b in p.bytes().chain(std::iter::once(b';')) {
            h ^= b as u64;
            h = h.wrapping_mul(0x100000001b3);
        }
    }
    h
}

fn main() {
    let args = Args::parse();
    let mut rng = Rng::new(args.seed);
    let thorough = args.tier == "thorough";
    std::panic::set_hook(Box::new(|_| {}));
    let rt = tokio::runtime::Builder::new_current_thread().build().unwrap();
    let keys = Keys::new();

    let mut summary = Summary::new("C17");
    let mut coq_cases: Vec<String> = vec![];
    let distinct: std::cell::RefCell<BTreeSet<u64>> = std::cell::RefCell::new(BTreeSet::new());
    let mut n_model: u64 = 0;
    let mut n_eval: u64 = 0;

    let record = |out: CaseOut, to_model: bool, summary: &mut Summary, coq_cases: &mut Vec<String>| {
        let i = summary.case_descs.len();
        let acts_json: Vec<String> = out.acts.iter().map(|a| format!("\"{}\"", a.label())).collect();
        let desc = format!(
            "{{\"case\":{},\"kind\":\"{}\",\"compared_with_model\":{},\"actions\":[{}],\"model_actions\":[{}]}}",
            i,
            out.kind,
            to_model,
            acts_json.join(","),
            out.model_acts.iter().map(|a| format!("\"{}\"", a)).collect::<Vec<_>>().join(",")
        );
        summary.count("kind", out.kind);
        summary.count("len", &format!("{}", out.acts.len().min(40) / 5 * 5));
        summary.count("accepted_handshakes", &format!("{}", out.accepted.min(4)));
        summary.count("rejected_responses", &format!("{}", out.rejected.min(6)));
        for t in &out.tags {
            summary.count("tag", t);
        }
        if out.panicked {
            summary.count("panic", "yes");
        }
        // non-trivial: at least one response was delivered while a challenge was outstanding
        // on some connection, i.e. the run reached a verdict (accept or reject) of the handshake
        if out.accepted + out.rejected > 0 {
            if distinct.borrow_mut().insert(fnv(&out.model_acts)) {
                summary.nontrivial += 1;
            }
        }
        for f in &out.failures {
            summary.oracle_failure(i, f, &desc);
        }
        for (id, what) in &out.known {
            summary.known_hit(id, i, what);
        }
        if to_model {
            coq_cases.push(format!("({}, {})", gal::list(&out.model_acts), gal::nlllist(&out.expected)));
        } else {
            // keeps case numbering of the Coq files aligned with cases.jsonl
            coq_cases.push("([], [])".to_string());
        }
        if summary.samples.len() < 6 && (out.kind != "exhaustive" || i % 997 == 0) && out.acts.len() < 12 {
            summary.samples.push(desc.clone());
        }
        summary.case_descs.push(desc);
    };

    // ---- scripted ----
    for (name, acts) in scripted() {
        let out = run_case(&rt, &keys, name, &acts, 7);
        n_eval += 1;
        record(out, true, &mut summary, &mut coq_cases);
    }

    // ---- exhaustive interleavings (prefix-sharing depth-first search on the real node) ----
    let configs: Vec<(&'static str, Vec<Act>, usize, usize)> = vec![
        ("incoming", alphabet(), if thorough { 6 } else { 5 }, if thorough { 12000 } else { 2500 }),
        ("static", alphabet_static(), if thorough { 6 } else { 5 }, if thorough { 4000 } else { 1200 }),
    ];
    for (aname, alpha, depth, budget) in configs {
        let mut model_budget_exh = budget;
        let mut interesting_budget: usize = 300;
        let mut ctx = Ctx::new(&rt, &keys, 11);
        let mut path = vec![];
        let mut leaves: u64 = 0;
        let total = (alpha.len() as u64).pow(depth as u32);
        let stride = (total / model_budget_exh as u64).max(1);
        let mut leaf = |c: &Ctx, p: &[Act]| {
            leaves += 1;
            n_eval += 1;
            let mut interesting = !c.failures.is_empty();
            if interesting {
                if interesting_budget == 0 {
                    // still reported as an oracle failure below, just not added to the Coq cases
                    interesting = false;
                    let i = summary.case_descs.len();
                    for f in &c.failures {
                        summary.oracle_failure(i.saturating_sub(1), f, "{\"note\":\"further failing interleavings omitted\"}");
                    }
                } else {
                    interesting_budget -= 1;
                }
            }
            let sampled = leaves % stride == 0 && model_budget_exh > 0;
            if sampled {
                model_budget_exh -= 1;
            }
            // every leaf is judged by the oracle; leaves with failures and a
            // deterministic sample are also compared with the model
            if interesting || sampled || !c.known.is_empty() && leaves % 7 == 0 {
                record(finish(c, "exhaustive", p), true, &mut summary, &mut coq_cases);
            } else {
                summary.count("kind", "exhaustive(oracle only)");
                if c.accepted_count + c.rejected_count > 0 && distinct.borrow_mut().insert(fnv(&c.model_acts)) {
                    summary.nontrivial += 1;
                }
                for t in &c.tags {
                    summary.count("tag", t);
                }
            }
        };
        dfs(&mut ctx, &alpha, depth, &mut path, &mut leaf);
        summary.notes.push(format!(
            "exhaustive ({} alphabet): all {} sequences of length {} over {} letters were run on the real node and judged by the oracle",
            aname,
            leaves,
            depth,
            alpha.len()
        ));
    }

    // ---- random ----
    let n_random = if thorough { 12000 } else { 1500 };
    for i in 0..n_random {
        let len = match i % 4 {
            0 => rng.range(3, 8),
            1 => rng.range(8, 16),
            _ => rng.range(12, 40),
        } as usize;
        let acts = gen_random(&mut rng, len);
        let out = run_case(&rt, &keys, "random", &acts, 1000 + i as u64);
        n_eval += 1;
        record(out, true, &mut summary, &mut coq_cases);
    }

    summary.evaluations = n_eval;
    let header = format!(
        "From Saito Require Import Base Handshake.\n\
         Definition g : cfg := mkC {} (mkV {} {} {}) (mkV {} {} {}).\n\
         Definition check (c : list action * list (list (list N))) : bool :=\n\
         let '(acts, expected) := c in eqb_lllN (trace g (init 1 1) acts) expected.",
        ME, MY_CVER.0, MY_CVER.1, MY_CVER.2, MY_WVER.0, MY_WVER.1, MY_WVER.2
    );
    let files = gal::write_shards(
        &format!("{}/cases", args.out),
        "C17",
        &header,
        "list action * list (list (list N))",
        &coq_cases,
        args.shards,
    )
    .unwrap();
    summary.case_files = files;
    for c in &coq_cases {
        if c != "([], [])" {
            n_model += 1;
        }
    }
    summary.notes.push(format!(
        "{} of the {} runs were also compared step by step with the Coq model; all of them were judged by the direct oracle",
        n_model, n_eval
    ));
    summary.write(&args.out);
    // bin/check reads `model_cases` for the wording of the correspondence obligation
    let path = format!("{}/summary.json", args.out);
    let text = std::fs::read_to_string(&path).unwrap();
    let text = text.replacen("{\n", &format!("{{\n\"model_cases\": {},\n", n_model), 1);
    std::fs::write(&path, text).unwrap();
}
