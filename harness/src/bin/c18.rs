//! C18 — a lite block is a faithful projection of its full block.
//!
//! Builds real blocks (world.rs) with n transfers, with and without golden ticket / fee
//! transaction, and for every keep/omit pattern of the transfers runs the lite-block route of
//! saito-rust/src/network_controller.rs on the real code:
//!   bytes -> deserialize_from_net -> generate -> generate_lite_block(keylist)
//!         -> serialize_for_net -> [client] deserialize_from_net -> generate.
//! Observed: the lite block, the merkle root recomputed from its transactions, the block held
//! by the client and the root recomputed there, the root of the full block.  Every 32-byte
//! value is lifted to a term of the model's free hash (`Leaf id` / `Node l r`, `BH mr fields`)
//! through a table of hints that is checked with the real hash function (an inner value is
//! only ever called `Node l r` if hash(l ++ r) really is that value), so the Coq model
//! (coq/model/Lite.v `observe`) is compared structurally.  The C18 statement itself is
//! evaluated directly on the implementation's values (oracle).
use std::collections::{BTreeSet, HashMap};
use std::panic::{catch_unwind, AssertUnwindSafe};
use std::sync::Mutex;

use saito_core::core::consensus::block::{Block, BlockType};
use saito_core::core::consensus::slip::{Slip, SlipType};
use saito_core::core::consensus::transaction::{Transaction, TransactionType};
use saito_core::core::defs::SaitoPublicKey;
use saito_core::core::util::crypto::hash;
use verif_harness::common::{jstr, Args, Summary};
use verif_harness::gal;
use verif_harness::rng::Rng;
use verif_harness::world::*;

type H32 = [u8; 32];

// ---------------------------------------------------------------- the lite-block route (extracted source)

/// The body of the `/lite-block/<hash>/<key>` closure of saito-rust/src/network_controller.rs,
/// cut out of the source by build.rs and compiled here as `lite_route_body`, with stand-ins for
/// the three names it takes from outside saito-core (`warp`, `StatusCode`, `BLOCKS_DIR_PATH`).
#[allow(unused_imports, unused_variables, unused_mut, dead_code, clippy::all)]
mod lite_route {
    use std::fs;
    use std::sync::Arc;

    use log::{debug, error, info, trace, warn};
    use saito_core::core::consensus::block::{Block, BlockType};
    use saito_core::core::consensus::peers::peer_collection::PeerCollection;
    use saito_core::core::defs::{PrintForLog, SaitoPublicKey, BLOCK_FILE_EXTENSION};
    use tokio::fs::File;
    use tokio::io::AsyncReadExt;
    use tokio::sync::RwLock;

    pub mod warp {
        #[derive(Debug, Clone, Copy, PartialEq, Eq)]
        pub enum Rejection {
            Reject,
            NotFound,
        }
        pub mod reject {
            pub fn reject() -> super::Rejection {
                super::Rejection::Reject
            }
            pub fn not_found() -> super::Rejection {
                super::Rejection::NotFound
            }
        }
        pub mod reply {
            pub struct Reply {
                pub body: Vec<u8>,
                pub status: u16,
            }
            pub fn with_status(body: Vec<u8>, status: super::super::StatusCode) -> Reply {
                Reply { body, status: status.0 }
            }
        }
    }
    pub struct StatusCode(pub u16);
    impl StatusCode {
        pub const OK: StatusCode = StatusCode(200);
    }
    /// stands in for the lazy_static String of rust_io_handler.rs
    pub struct DirPath;
    pub static DIR: std::sync::Mutex<String> = std::sync::Mutex::new(String::new());
    impl std::fmt::Display for DirPath {
        fn fmt(&self, f: &mut std::fmt::Formatter<'_>) -> std::fmt::Result {
            write!(f, "{}", DIR.lock().unwrap())
        }
    }
    pub static BLOCKS_DIR_PATH: DirPath = DirPath;

    include!(concat!(env!("OUT_DIR"), "/lite_route.rs"));
}

// ---------------------------------------------------------------- panics

static LAST_PANIC: Mutex<Option<(String, String)>> = Mutex::new(None);

fn install_hook() {
    std::panic::set_hook(Box::new(|info| {
        let file = info.location().map(|l| l.file().to_string()).unwrap_or_default();
        let msg = if let Some(s) = info.payload().downcast_ref::<&str>() {
            s.to_string()
        } else if let Some(s) = info.payload().downcast_ref::<String>() {
            s.clone()
        } else {
            String::new()
        };
        *LAST_PANIC.lock().unwrap() = Some((file, msg));
    }));
}

/// panic sites of the model (merkle.rs sites are not told apart: all 1801)
fn panic_site() -> u64 {
    let p = LAST_PANIC.lock().unwrap().take();
    match p {
        Some((file, msg)) => {
            if file.ends_with("merkle.rs") {
                1801
            } else if file.ends_with("block.rs") && msg.contains("multiply with overflow") {
                1812
            } else if file.ends_with("block.rs") && msg.contains("unwrap()") {
                1811
            } else {
                9999
            }
        }
        None => 9998,
    }
}

#[derive(Clone)]
enum R<T> {
    Ok(T),
    Err,
    Panic(u64),
}
impl<T> R<T> {
    fn ok(&self) -> Option<&T> {
        match self {
            R::Ok(v) => Some(v),
            _ => None,
        }
    }
    fn lit(&self) -> String {
        match self {
            R::Ok(_) => unreachable!(),
            R::Err => "Err".to_string(),
            R::Panic(s) => format!("(Panic {})", s),
        }
    }
    fn carry<U>(&self) -> R<U> {
        match self {
            R::Ok(_) => unreachable!(),
            R::Err => R::Err,
            R::Panic(s) => R::Panic(*s),
        }
    }
}
fn guarded<T>(f: impl FnOnce() -> Option<T>) -> R<T> {
    match catch_unwind(AssertUnwindSafe(f)) {
        Ok(Some(v)) => R::Ok(v),
        Ok(None) => R::Err,
        Err(_) => R::Panic(panic_site()),
    }
}

// ---------------------------------------------------------------- lifting values to terms

struct Sym {
    intern: Interner,
    /// inner values: hash(l ++ r) -> "(Node l r)"; every entry was computed with the real hash
    hv: HashMap<H32, String>,
    /// block hashes: value -> "(BH mr fields)"; every entry was computed by the real generate_hash
    bh: HashMap<H32, String>,
    defs: Vec<String>,
    def_index: HashMap<String, String>,
}
impl Sym {
    fn new() -> Sym {
        Sym {
            intern: Interner::default(),
            hv: HashMap::new(),
            bh: HashMap::new(),
            defs: vec![],
            def_index: HashMap::new(),
        }
    }
    fn id(&mut self, b: &[u8]) -> u64 {
        self.intern.get(b)
    }
    fn term(&mut self, v: &H32) -> String {
        if let Some(t) = self.hv.get(v) {
            return t.clone();
        }
        format!("(Leaf {})", self.intern.get(v))
    }
    /// shares a literal under a name (purely syntactic)
    fn def(&mut self, prefix: &str, ty: &str, body: String) -> String {
        let key = format!("{}|{}", ty, body);
        if let Some(n) = self.def_index.get(&key) {
            return n.clone();
        }
        let name = format!("{}{}", prefix, self.defs.len());
        self.defs.push(format!("Definition {} : {} := {}.", name, ty, body));
        self.def_index.insert(key, name.clone());
        name
    }
    fn reg_pair(&mut self, l: &H32, r: &H32) -> H32 {
        let v = hash(&[l.as_slice(), r.as_slice()].concat());
        if !self.hv.contains_key(&v) {
            let t = format!("(Node {} {})", self.term(l), self.term(r));
            self.hv.insert(v, t);
        }
        v
    }
    /// reference construction of the merkle root over a leaf list (pairs left to right, an odd
    /// last element is carried up unchanged); registers every inner value as a hint
    fn ref_merkle(&mut self, leaves: &[H32]) -> H32 {
        if leaves.is_empty() {
            return [0; 32];
        }
        let mut cur = leaves.to_vec();
        while cur.len() > 1 {
            let mut next = vec![];
            for ch in cur.chunks(2) {
                if ch.len() == 2 {
                    next.push(self.reg_pair(&ch[0], &ch[1]));
                } else {
                    next.push(ch[0]);
                }
            }
            cur = next;
        }
        cur[0]
    }
    /// hints for combined placeholder hashes: hash over runs of 2, 4, 8 adjacent values
    fn reg_runs(&mut self, vals: &[H32]) {
        let mut level = vals.to_vec();
        let mut width = 1usize;
        for _ in 0..3 {
            if level.len() <= width {
                break;
            }
            let mut next = vec![];
            for i in 0..level.len() - width {
                next.push(self.reg_pair(&level[i], &level[i + width]));
            }
            level = next;
            width *= 2;
        }
    }
    fn header_hash_value(b: &Block) -> H32 {
        let mut c = b.clone();
        c.transactions.clear();
        c.generate_pre_hash();
        c.generate_hash()
    }
    fn signed_fields(&mut self, b: &Block) -> Vec<u64> {
        vec![
            b.id,
            b.timestamp,
            self.id(&b.previous_block_hash),
            self.id(&b.creator),
            b.graveyard,
            b.treasury,
            b.burnfee,
            b.difficulty,
            b.avg_fee_per_byte,
            b.avg_nolan_rebroadcast_per_block,
            b.previous_block_unpaid,
            b.avg_total_fees,
            b.avg_total_fees_new,
            b.avg_total_fees_atr,
            b.avg_payout_routing,
            b.avg_payout_mining,
        ]
    }
    fn reg_block_hash(&mut self, b: &Block) {
        let v = Sym::header_hash_value(b);
        if !self.bh.contains_key(&v) {
            let mr = self.term(&b.merkle_root);
            let f = self.signed_fields(b);
            self.bh.insert(v, format!("(BH {} {})", mr, gal::nlist(&f)));
        }
    }
    fn bterm(&mut self, v: &H32) -> String {
        if let Some(t) = self.bh.get(v) {
            return t.clone();
        }
        format!("(BRaw {})", self.intern.get(v))
    }
    fn header_lit(&mut self, b: &Block) -> String {
        let mr = self.term(&b.merkle_root);
        let prev = self.id(&b.previous_block_hash);
        let creator = self.id(&b.creator);
        let sig = self.id(&b.signature);
        let nums = [
            b.graveyard,
            b.treasury,
            b.total_fees,
            b.total_fees_new,
            b.total_fees_atr,
            b.total_fees_cumulative,
            b.avg_total_fees,
            b.avg_total_fees_new,
            b.avg_total_fees_atr,
            b.total_payout_routing,
            b.total_payout_mining,
            b.total_payout_treasury,
            b.total_payout_graveyard,
            b.total_payout_atr,
            b.avg_payout_routing,
            b.avg_payout_mining,
            b.avg_payout_treasury,
            b.avg_payout_graveyard,
            b.avg_payout_atr,
            b.avg_fee_per_byte,
            b.fee_per_byte,
            b.avg_nolan_rebroadcast_per_block,
            b.burnfee,
            b.difficulty,
            b.previous_block_unpaid,
        ];
        let body = format!(
            "mkHeader {} {} {} {} {} {} {}",
            b.id,
            b.timestamp,
            prev,
            creator,
            mr,
            sig,
            nums.iter().map(|x| x.to_string()).collect::<Vec<_>>().join(" ")
        );
        self.def("h", "header", body)
    }
    fn tx_lit(&mut self, t: &Transaction) -> String {
        let sig = self.id(&t.signature);
        let sig32 = self.id(&t.signature[0..32]);
        let from: Vec<u64> = t.from.iter().map(|s| self.id(&s.public_key)).collect();
        let to: Vec<u64> = t.to.iter().map(|s| self.id(&s.public_key)).collect();
        let rest = if t.from.is_empty() && t.to.is_empty() && t.data.is_empty() && t.path.is_empty() {
            0
        } else {
            let mut bytes: Vec<u8> = vec![];
            bytes.extend((t.from.len() as u32).to_be_bytes());
            for s in &t.from {
                bytes.extend(s.serialize_for_net());
            }
            bytes.extend((t.to.len() as u32).to_be_bytes());
            for s in &t.to {
                // Transaction::generate rewrites (block_id, tx_ordinal, slip_index) of the output
                // slips from the position in the block; they are checked by the oracle, not modelled
                let mut s = s.clone();
                s.block_id = 0;
                s.tx_ordinal = 0;
                s.slip_index = 0;
                bytes.extend(s.serialize_for_net());
            }
            bytes.extend((t.data.len() as u32).to_be_bytes());
            bytes.extend(&t.data);
            for h in &t.path {
                bytes.extend(h.serialize_for_net());
            }
            bytes.push(1);
            self.id(&bytes)
        };
        let chash = if t.transaction_type == TransactionType::SPV {
            0
        } else {
            let mut c = t.clone();
            c.generate_hash_for_signature();
            self.id(&c.hash_for_signature.unwrap())
        };
        let hfs = match &t.hash_for_signature {
            None => "None".to_string(),
            Some(h) => format!("(Some {})", self.term(h)),
        };
        let body = format!(
            "mkTx {} {} {} {} {} {} {} {} {} {} {}",
            t.transaction_type as u8,
            t.txs_replacements,
            sig,
            sig32,
            t.timestamp,
            gal::nlist(&from),
            gal::nlist(&to),
            rest,
            t.data.len(),
            chash,
            hfs
        );
        self.def("t", "tx", body)
    }
    fn block_lit(&mut self, b: &Block) -> String {
        let h = self.header_lit(b);
        let bh = self.bterm(&b.hash);
        let txs: Vec<String> = b.transactions.iter().map(|t| self.tx_lit(t)).collect();
        let body = format!("mkBlock {} {} {}", h, bh, gal::list(&txs));
        self.def("b", "block", body)
    }
    fn root_lit(&mut self, v: &H32) -> String {
        let t = self.term(v);
        self.def("r", "hv", t)
    }
}

/// leaf values of a transaction list by the expansion rule of MerkleTree::generate
/// (None if a needed hash is missing: the real code panics there)
fn leaf_values(txs: &[Transaction]) -> Option<Vec<H32>> {
    let mut out = vec![];
    for t in txs {
        if t.txs_replacements > 1 {
            if t.txs_replacements > 4096 {
                return None;
            }
            for _ in 0..t.txs_replacements {
                out.push(t.hash_for_signature.unwrap_or([0; 32]));
            }
        } else {
            out.push(t.hash_for_signature?);
        }
    }
    Some(out)
}

// ---------------------------------------------------------------- one evaluation

struct Eval {
    lite: R<Block>,
    root_lite: R<H32>,
    client: R<Block>,
    root_client: R<H32>,
    root_full: R<H32>,
}

fn wire_trip(l: &Block) -> Option<Block> {
    let bytes = l.serialize_for_net(BlockType::Full);
    let mut c = Block::deserialize_from_net(&bytes).ok()?;
    c.generate().ok()?;
    Some(c)
}

fn evaluate(full: &Block, ks: &[SaitoPublicKey]) -> Eval {
    let lite = guarded(|| Some(full.generate_lite_block(ks.to_vec())));
    let root_lite = match lite.ok() {
        Some(l) => guarded(|| Some(l.generate_merkle_root(false, false))),
        None => lite.carry(),
    };
    let client = match lite.ok() {
        Some(l) => guarded(|| wire_trip(l)),
        None => lite.carry(),
    };
    let root_client = match client.ok() {
        Some(c) => guarded(|| Some(c.generate_merkle_root(false, false))),
        None => client.carry(),
    };
    let root_full = guarded(|| Some(full.generate_merkle_root(false, false)));
    Eval { lite, root_lite, client, root_client, root_full }
}

fn touches(t: &Transaction, ks: &[SaitoPublicKey]) -> bool {
    t.from.iter().any(|s| ks.contains(&s.public_key)) || t.to.iter().any(|s| ks.contains(&s.public_key))
}

fn header_fields(b: &Block) -> Vec<(&'static str, Vec<u8>)> {
    let n = |x: u64| x.to_be_bytes().to_vec();
    vec![
        ("id", n(b.id)),
        ("timestamp", n(b.timestamp)),
        ("previous_block_hash", b.previous_block_hash.to_vec()),
        ("creator", b.creator.to_vec()),
        ("merkle_root", b.merkle_root.to_vec()),
        ("signature", b.signature.to_vec()),
        ("graveyard", n(b.graveyard)),
        ("treasury", n(b.treasury)),
        ("total_fees", n(b.total_fees)),
        ("total_fees_new", n(b.total_fees_new)),
        ("total_fees_atr", n(b.total_fees_atr)),
        ("total_fees_cumulative", n(b.total_fees_cumulative)),
        ("avg_total_fees", n(b.avg_total_fees)),
        ("avg_total_fees_new", n(b.avg_total_fees_new)),
        ("avg_total_fees_atr", n(b.avg_total_fees_atr)),
        ("total_payout_routing", n(b.total_payout_routing)),
        ("total_payout_mining", n(b.total_payout_mining)),
        ("total_payout_treasury", n(b.total_payout_treasury)),
        ("total_payout_graveyard", n(b.total_payout_graveyard)),
        ("total_payout_atr", n(b.total_payout_atr)),
        ("avg_payout_routing", n(b.avg_payout_routing)),
        ("avg_payout_mining", n(b.avg_payout_mining)),
        ("avg_payout_treasury", n(b.avg_payout_treasury)),
        ("avg_payout_graveyard", n(b.avg_payout_graveyard)),
        ("avg_payout_atr", n(b.avg_payout_atr)),
        ("avg_fee_per_byte", n(b.avg_fee_per_byte)),
        ("fee_per_byte", n(b.fee_per_byte)),
        ("avg_nolan_rebroadcast_per_block", n(b.avg_nolan_rebroadcast_per_block)),
        ("burnfee", n(b.burnfee)),
        ("difficulty", n(b.difficulty)),
        ("previous_block_unpaid", n(b.previous_block_unpaid)),
    ]
}

/// the C18 statement on the implementation's values; returns (known finding id or "", what)
fn oracle(full: &Block, ks: &[SaitoPublicKey], ev: &Eval, ref_root: Option<H32>) -> Vec<(String, String)> {
    let mut out: Vec<(String, String)> = vec![];
    let fail = |out: &mut Vec<(String, String)>, id: &str, what: String| out.push((id.to_string(), what));
    let keep: Vec<bool> = full
        .transactions
        .iter()
        .map(|t| touches(t, ks) || t.transaction_type == TransactionType::GoldenTicket)
        .collect();
    let any_omitted = keep.iter().any(|k| !*k);
    let aligned_pair = keep.chunks(2).any(|c| c.len() == 2 && !c[0] && !c[1]);
    let omitted_multi = full
        .transactions
        .iter()
        .zip(keep.iter())
        .any(|(t, k)| !*k && t.txs_replacements > 1);
    let root_full = match &ev.root_full {
        R::Ok(r) => *r,
        _ => {
            fail(&mut out, "", "merkle root of the full block cannot be computed (panic)".to_string());
            return out;
        }
    };
    let stale = !full.transactions.is_empty() && root_full != full.merkle_root;
    if let Some(r) = ref_root {
        if r != root_full {
            fail(&mut out, "", "generate_merkle_root of the full block differs from the reference construction (pairs left to right, odd element carried)".to_string());
        }
    }
    let lite = match &ev.lite {
        R::Ok(l) => l,
        _ => {
            fail(&mut out, "", "generate_lite_block panicked".to_string());
            return out;
        }
    };
    // same id, hash, signature, header
    let hf = header_fields(full);
    for (i, (name, v)) in header_fields(lite).iter().enumerate() {
        if *v != hf[i].1 {
            let id = if *name == "merkle_root" && stale { "stale-merkle-root" } else { "" };
            fail(&mut out, id, format!("lite block header field {} differs from the full block", name));
        }
    }
    if lite.hash != full.hash {
        fail(&mut out, "", "lite block hash field differs from the full block".to_string());
    }
    // every relevant transaction (and every golden ticket) in full and in order
    let mut pos = 0usize;
    for (t, k) in full.transactions.iter().zip(keep.iter()) {
        if !*k {
            continue;
        }
        let want = t.serialize_for_net();
        let mut found = false;
        while pos < lite.transactions.len() {
            let c = &lite.transactions[pos];
            pos += 1;
            if c.serialize_for_net() == want && c.hash_for_signature == t.hash_for_signature {
                found = true;
                break;
            }
        }
        if !found {
            let via = if t.transaction_type == TransactionType::GoldenTicket {
                "is a golden ticket"
            } else if t.to.iter().any(|s| ks.contains(&s.public_key)) {
                "pays to a listed key"
            } else {
                "spends from a listed key"
            };
            fail(&mut out, "", format!("a transaction that {} is not present in full and in order in the lite block", via));
            break;
        }
    }
    // placeholders suffice to recompute the commitment, in memory
    match &ev.root_lite {
        R::Ok(r) if *r == root_full => {}
        R::Ok(_) => {
            let id = if aligned_pair {
                "merged-placeholders"
            } else if omitted_multi {
                "replacements-gt-1"
            } else {
                ""
            };
            fail(&mut out, id, "merkle root recomputed from the lite block's transactions differs from the full block's".to_string());
        }
        _ => fail(&mut out, "", "merkle root of the lite block cannot be computed".to_string()),
    }
    // wire trip
    match &ev.client {
        R::Ok(c) => {
            if c.hash != full.hash {
                let id = if stale { "stale-merkle-root" } else { "" };
                fail(&mut out, id, "block hash recomputed by the client differs from the full block's hash".to_string());
            }
            for (i, (name, v)) in header_fields(c).iter().enumerate() {
                if *v != hf[i].1 && !(*name == "merkle_root" && stale) {
                    fail(&mut out, "", format!("header field {} differs after the wire trip", name));
                }
            }
            // the relevant transactions are still there in full after the wire trip, byte for byte
            // (including the output slips' block id / transaction ordinal / slip index that
            // Block::generate recomputes from the placeholders' replacement counts)
            let mut pos = 0usize;
            for (t, k) in full.transactions.iter().zip(keep.iter()) {
                if !*k {
                    continue;
                }
                let want = t.serialize_for_net();
                let mut found = false;
                while pos < c.transactions.len() {
                    let x = &c.transactions[pos];
                    pos += 1;
                    if x.serialize_for_net() == want && x.hash_for_signature == t.hash_for_signature {
                        found = true;
                        break;
                    }
                }
                if !found {
                    // is it the position? (the replacement counts of the placeholders in front of it
                    // must add up to the number of transactions they stand for)
                    let orig = full.transactions.iter().position(|x| x.signature == t.signature).unwrap_or(0) as u64;
                    let mut idx = 0u64;
                    let mut got: Option<u64> = None;
                    for x in &c.transactions {
                        if x.signature == t.signature && x.transaction_type == t.transaction_type {
                            got = Some(idx);
                            break;
                        }
                        idx += if x.transaction_type == TransactionType::SPV { x.txs_replacements as u64 } else { 1 };
                    }
                    let detail = match got {
                        Some(g) if g != orig => format!(": it is transaction {} of the full block but Block::generate numbers it {} in the received lite block (replacement counts of the placeholders before it do not add up), so its output slips get other utxo keys", orig, g),
                        Some(_) => ": same position, different bytes".to_string(),
                        None => ": it is missing".to_string(),
                    };
                    fail(&mut out, "", format!("a relevant transaction is not byte-identical (in order) in the block the client holds after the wire trip{}", detail));
                    break;
                }
            }
            match &ev.root_client {
                R::Ok(r) if *r == root_full => {}
                R::Ok(_) => {
                    let id = if any_omitted { "spv-hash-not-serialised" } else { "" };
                    fail(&mut out, id, "merkle root recomputed by the client from the received lite block differs from the full block's".to_string());
                }
                _ => fail(&mut out, "", "merkle root cannot be computed by the client".to_string()),
            }
        }
        _ => fail(&mut out, "", "lite block does not survive serialize_for_net / deserialize_from_net / generate".to_string()),
    }
    out
}

// ---------------------------------------------------------------- case collection

struct Ctx {
    sym: Sym,
    summary: Summary,
    coq_cases: Vec<String>,
    distinct: BTreeSet<String>,
    known_seen: HashMap<String, u64>,
}

impl Ctx {
    fn prepare_block(&mut self, b: &Block) {
        let vals: Vec<H32> = b.transactions.iter().filter_map(|t| t.hash_for_signature).collect();
        self.sym.reg_runs(&vals);
        if let Some(lv) = leaf_values(&b.transactions) {
            self.sym.ref_merkle(&lv);
        }
        self.sym.reg_block_hash(b);
    }

    /// hints for the combined hashes of merged placeholders: replays the pair-merging loop on
    /// (is placeholder type, replacement count, hash) triples and registers hash(a ++ b) of every
    /// merge.  Only a source of hints: a value is named `Node a b` only because the real hash says so.
    fn hint_merges(&mut self, full: &Block, ks: &[SaitoPublicKey]) {
        let mut v: Vec<(bool, u32, Option<H32>)> = full
            .transactions
            .iter()
            .map(|t| {
                if touches(t, ks) || t.transaction_type == TransactionType::GoldenTicket {
                    (t.transaction_type == TransactionType::SPV, t.txs_replacements, t.hash_for_signature)
                } else {
                    (true, 1, t.hash_for_signature)
                }
            })
            .collect();
        let mut i = 0;
        while i + 1 < v.len() {
            if v[i].0 && v[i + 1].0 && v[i].1 == v[i + 1].1 {
                match (v[i].2, v[i + 1].2) {
                    (Some(a), Some(b)) => {
                        v[i].2 = Some(self.sym.reg_pair(&a, &b));
                        v[i].1 = v[i].1.wrapping_mul(2);
                        v.remove(i + 1);
                    }
                    _ => return,
                }
            } else {
                i += 2;
            }
        }
    }

    /// runs one (block, key list) on the implementation, records model case + oracle verdicts
    fn run(&mut self, kind: &str, block_name: &str, full: &Block, ks: &[SaitoPublicKey], use_oracle: bool) {
        let case = self.coq_cases.len();
        let ev = evaluate(full, ks);
        // hints (checked with the real hash) before any value is lifted
        self.prepare_block(full);
        self.hint_merges(full, ks);
        let ref_root = leaf_values(&full.transactions).map(|lv| self.sym.ref_merkle(&lv));
        if let Some(l) = ev.lite.ok() {
            self.prepare_block(l);
        }
        if let Some(c) = ev.client.ok() {
            self.prepare_block(c);
        }
        let b_lit = self.sym.block_lit(full);
        let ks_ids: Vec<u64> = ks.iter().map(|k| self.sym.id(k)).collect();
        let sym = &mut self.sym;
        let o_lite = match &ev.lite {
            R::Ok(l) => format!("(Ok {})", sym.block_lit(l)),
            o => o.lit(),
        };
        let o_root_lite = match &ev.root_lite {
            R::Ok(r) => format!("(Ok {})", sym.root_lit(r)),
            o => o.lit(),
        };
        let o_client = match &ev.client {
            R::Ok(c) => format!("(Ok {})", sym.block_lit(c)),
            o => o.lit(),
        };
        let o_root_client = match &ev.root_client {
            R::Ok(r) => format!("(Ok {})", sym.root_lit(r)),
            o => o.lit(),
        };
        let o_root_full = match &ev.root_full {
            R::Ok(r) => format!("(Ok {})", sym.root_lit(r)),
            o => o.lit(),
        };
        let o_client_ord = match &ev.client {
            R::Ok(c) => format!(
                "(Ok {})",
                gal::nlist(
                    &c.transactions
                        .iter()
                        .filter(|t| !t.to.is_empty())
                        .map(|t| t.to[0].tx_ordinal)
                        .collect::<Vec<_>>()
                )
            ),
            o => o.lit(),
        };
        self.coq_cases.push(format!(
            "({}, {}, mkObs {} {} {} {} {} {})",
            b_lit,
            gal::nlist(&ks_ids),
            o_lite,
            o_root_lite,
            o_client,
            o_root_client,
            o_root_full,
            o_client_ord
        ));
        // description + distribution
        let keep: Vec<bool> = full
            .transactions
            .iter()
            .map(|t| touches(t, ks) || t.transaction_type == TransactionType::GoldenTicket)
            .collect();
        let pattern: String = keep.iter().map(|k| if *k { 'K' } else { 'o' }).collect();
        let types: Vec<u8> = full.transactions.iter().map(|t| t.transaction_type as u8).collect();
        let lite_shape: String = match ev.lite.ok() {
            Some(l) => l
                .transactions
                .iter()
                .map(|t| {
                    if t.transaction_type == TransactionType::SPV {
                        format!("S{}", t.txs_replacements)
                    } else {
                        "K".to_string()
                    }
                })
                .collect::<Vec<_>>()
                .join(","),
            None => "panic".to_string(),
        };
        let verdict = |a: &R<H32>, b: &R<H32>| match (a, b) {
            (R::Ok(x), R::Ok(y)) => (x == y).to_string(),
            _ => "n/a".to_string(),
        };
        let desc = format!(
            "{{\"case\":{},\"kind\":{},\"block\":{},\"block_id\":{},\"tx_types\":{:?},\"replacements\":{:?},\"keep_pattern\":{},\"keylist_ids\":{:?},\"lite_shape\":{},\"root_lite_eq_full\":{},\"root_client_eq_full\":{}}}",
            case,
            jstr(kind),
            jstr(block_name),
            full.id,
            types,
            full.transactions.iter().map(|t| t.txs_replacements).collect::<Vec<_>>(),
            jstr(&pattern),
            ks_ids,
            jstr(&lite_shape),
            jstr(&verdict(&ev.root_lite, &ev.root_full)),
            jstr(&verdict(&ev.root_client, &ev.root_full)),
        );
        let s = &mut self.summary;
        s.count("kind", kind);
        s.count("txs_in_block", &format!("{:02}", full.transactions.len()));
        let omitted = keep.iter().filter(|k| !**k).count();
        s.count("omitted", &format!("{:02}", omitted));
        let merges = match ev.lite.ok() {
            Some(l) => full.transactions.len() - l.transactions.len(),
            None => 0,
        };
        s.count("merges", &format!("{}", merges));
        s.count("root_lite_eq_full", &verdict(&ev.root_lite, &ev.root_full));
        s.count("root_client_eq_full", &verdict(&ev.root_client, &ev.root_full));
        if let R::Panic(site) = ev.lite {
            s.count("lite_panic_site", &format!("{}", site));
        }
        if omitted > 0 && omitted < keep.len() {
            // non-trivial: something omitted and something kept
            if self.distinct.insert(format!("{}|{}|{}", block_name, full.id, pattern)) {
                s.nontrivial += 1;
            }
        }
        if !use_oracle {
            // C18_header_fields holds for every block: every header field but merkle_root, and the
            // hash field, are those of the block served
            if let Some(l) = ev.lite.ok() {
                let hf = header_fields(full);
                for (i, (name, v)) in header_fields(l).iter().enumerate() {
                    if *name != "merkle_root" && *v != hf[i].1 {
                        s.oracle_failure(case, &format!("lite block header field {} differs from the block served", name), &desc);
                    }
                }
                if l.hash != full.hash {
                    s.oracle_failure(case, "lite block hash field differs from the block served", &desc);
                }
            }
        }
        if use_oracle {
            // a light wallet for a listed key that is fed the received lite block ends up with the
            // slips (utxo key, amount, block id, transaction ordinal, slip index, spent) of a wallet
            // fed the full block
            if let Some(c) = ev.client.ok() {
                let mut seen: Vec<SaitoPublicKey> = vec![];
                for k in ks.iter() {
                    if seen.contains(k) || seen.len() >= 4 {
                        continue;
                    }
                    seen.push(*k);
                    let a = wallet_view(full, k);
                    let b = wallet_view(c, k);
                    if a != b {
                        s.oracle_failure(
                            case,
                            &format!(
                                "a wallet for a listed key fed the received lite block holds different slips than one fed the full block: (block id, tx ordinal, slip index, amount, spent) full {:?} lite {:?}",
                                a.iter().map(|x| (x.1, x.2, x.3, x.4, x.5)).collect::<Vec<_>>(),
                                b.iter().map(|x| (x.1, x.2, x.3, x.4, x.5)).collect::<Vec<_>>()
                            ),
                            &desc,
                        );
                        break;
                    }
                }
            }
            for (id, what) in oracle(full, ks, &ev, ref_root) {
                if id.is_empty() {
                    s.oracle_failure(case, &what, &desc);
                } else {
                    s.count("known_class_hits", &id);
                    let seen = self.known_seen.entry(id.clone()).or_insert(0);
                    *seen += 1;
                    if *seen <= 3 {
                        s.known_hit(&id, case, &format!("{} [keep pattern {} -> lite {}]", what, pattern, lite_shape));
                    }
                }
            }
        }
        if s.samples.len() < 6 && (case % 97 == 5 || kind != "chain") {
            s.samples.push(desc.clone());
        }
        s.case_descs.push(desc);
    }
}

/// Same file format as `gal::write_shards`, but every shard carries only the shared
/// definitions (`Definition <name> : <ty> := <body>.`, in creation order, so dependencies
/// come first) that its own cases need.
fn write_shards_with_defs(
    dir: &str,
    name: &str,
    requires: &str,
    defs: &[String],
    check_def: &str,
    case_type: &str,
    cases: &[String],
    shards: usize,
    first_index: usize,
) -> std::io::Result<Vec<String>> {
    use std::io::Write as _;
    std::fs::create_dir_all(dir)?;
    let shards = shards.max(1).min(cases.len().max(1));
    // name -> index, body tokens
    let mut index: HashMap<String, usize> = HashMap::new();
    for (i, d) in defs.iter().enumerate() {
        let nm = d["Definition ".len()..].split(' ').next().unwrap().to_string();
        index.insert(nm, i);
    }
    fn tokens(s: &str) -> impl Iterator<Item = &str> {
        s.split(|c: char| !(c.is_ascii_alphanumeric() || c == '_')).filter(|t| !t.is_empty())
    }
    let mut files = vec![];
    for k in 0..shards {
        let mut needed = vec![false; defs.len()];
        let mut stack: Vec<usize> = vec![];
        for (i, c) in cases.iter().enumerate() {
            if i % shards == k {
                for t in tokens(c) {
                    if let Some(j) = index.get(t) {
                        if !needed[*j] {
                            needed[*j] = true;
                            stack.push(*j);
                        }
                    }
                }
            }
        }
        while let Some(j) = stack.pop() {
            let body = &defs[j][defs[j].find(":=").unwrap()..];
            for t in tokens(body) {
                if let Some(q) = index.get(t) {
                    if !needed[*q] {
                        needed[*q] = true;
                        stack.push(*q);
                    }
                }
            }
        }
        let path = format!("{}/{}_{}.v", dir, name, k);
        let mut f = std::io::BufWriter::new(std::fs::File::create(&path)?);
        writeln!(f, "{}", requires)?;
        for (j, d) in defs.iter().enumerate() {
            if needed[j] {
                writeln!(f, "{}", d)?;
            }
        }
        writeln!(f, "{}", check_def)?;
        writeln!(f, "Open Scope N_scope.")?;
        writeln!(f, "Definition cases : list (N * ({})) := [", case_type)?;
        let mut first = true;
        for (i, c) in cases.iter().enumerate() {
            if i % shards != k {
                continue;
            }
            if !first {
                writeln!(f, ";")?;
            }
            first = false;
            write!(f, "({}, {})", i + first_index, c)?;
        }
        writeln!(f, "].")?;
        writeln!(
            f,
            "Definition bad : list N := flat_map (fun ic => if check (snd ic) then [] else [fst ic]) cases."
        )?;
        writeln!(f, "Eval vm_compute in bad.")?;
        files.push(path);
    }
    Ok(files)
}

// ---------------------------------------------------------------- route cases

fn opt_n(x: Option<u64>) -> String {
    match x {
        Some(v) => format!("(Some {})", v),
        None => "None".to_string(),
    }
}

/// Runs the extracted route body on a scratch blocks directory holding real chain blocks, for
/// key segments of every decoding class, requesters with and without a peer entry, and hash
/// segments that match one file / no file / a broken file.  Returns the Coq cases (their
/// descriptions are appended to the summary in the same order).
async fn route_cases(
    ctx: &mut Ctx,
    args: &Args,
    blocks: &[(String, Block)],
    node: &Node,
    tk: &[(SaitoPublicKey, saito_core::core::defs::SaitoPrivateKey)],
    fk: &[(SaitoPublicKey, saito_core::core::defs::SaitoPrivateKey)],
    rng: &mut Rng,
) -> Vec<String> {
    use lite_route::warp::Rejection;
    use saito_core::core::consensus::peers::peer::Peer;
    use saito_core::core::consensus::peers::peer_collection::PeerCollection;
    use saito_core::core::defs::PrintForLog;
    use std::sync::Arc;
    use tokio::sync::RwLock;

    let mut out = vec![];
    let first_case = ctx.coq_cases.len();
    if !lite_route::LITE_ROUTE_EXTRACTED {
        ctx.summary.oracle_failure(
            first_case,
            "the lite-block route closure was not found in saito-rust/src/network_controller.rs (harness/build.rs): the route is not checked",
            &format!("{{\"case\":{},\"kind\":\"route\",\"source\":{}}}", first_case, jstr(lite_route::LITE_ROUTE_SOURCE)),
        );
        return out;
    }
    // scratch directory with real chain blocks, named as Block::get_file_name does
    let dir = format!("{}/blocks/", args.out);
    let _ = std::fs::remove_dir_all(&dir);
    std::fs::create_dir_all(&dir).unwrap();
    let stored: Vec<&Block> = blocks
        .iter()
        .filter(|(n, b)| n.starts_with("chain") && b.transactions.len() >= 3)
        .map(|(_, b)| b)
        .take(5)
        .collect();
    if stored.len() < 2 {
        pre_fail(ctx, "no chain blocks to put into the blocks directory of the lite-block route");
        return out;
    }
    let file_name = |b: &Block| format!("{}-{}.sai", b.timestamp, hex::encode(b.hash));
    for b in &stored {
        std::fs::write(format!("{}{}", dir, file_name(b)), b.serialize_for_net(BlockType::Full)).unwrap();
    }
    // a file that is not a block, and a block file that does not decode (golden ticket payload)
    let garbage_hash = hex::encode(hash(b"garbage"));
    std::fs::write(format!("{}77-{}.sai", dir, garbage_hash), vec![7u8; 500]).unwrap();
    let mut bad_gt = {
        let mut rr = Rng::new(99);
        synthetic_block(&mut rr, 0).0
    };
    {
        let mut t = Transaction::default();
        t.transaction_type = TransactionType::GoldenTicket;
        t.data = vec![1, 2, 3, 4, 5];
        t.sign(&node.sk);
        bad_gt.transactions.push(t);
        bad_gt.hash = hash(b"bad golden ticket block");
        std::fs::write(format!("{}{}", dir, file_name(&bad_gt)), bad_gt.serialize_for_net(BlockType::Full)).unwrap();
    }
    // something without the extension
    std::fs::write(format!("{}{}.tmp", dir, hex::encode(stored[0].hash)), b"x").unwrap();
    *lite_route::DIR.lock().unwrap() = dir.clone();

    // peers: requester tk[0] follows [tk[1], fk[2]]; requester fk[3] follows nothing; tk[4] has a
    // dangling address entry
    let mut peers = PeerCollection::default();
    let mut p1 = Peer::new(1);
    p1.public_key = Some(tk[0].0);
    p1.key_list = vec![tk[1].0, fk[2].0];
    peers.index_to_peers.insert(1, p1);
    peers.address_to_peers.insert(tk[0].0, 1);
    let mut p2 = Peer::new(2);
    p2.public_key = Some(fk[3].0);
    peers.index_to_peers.insert(2, p2);
    peers.address_to_peers.insert(fk[3].0, 2);
    peers.address_to_peers.insert(tk[4].0, 9);
    let peers_model = {
        let a = ctx.sym.id(&tk[0].0);
        let b = ctx.sym.id(&fk[3].0);
        let kl: Vec<u64> = vec![ctx.sym.id(&tk[1].0), ctx.sym.id(&fk[2].0)];
        format!("[({}, {}); ({}, [])]", a, gal::nlist(&kl), b)
    };
    let peer_lock = Arc::new(RwLock::new(peers));
    let own = ctx.sym.id(&node.pk);

    // key segments
    let mut keys: Vec<(Option<String>, &str)> = vec![(None, "missing"), (Some(String::new()), "empty")];
    for k in [tk[0].0, tk[1].0, fk[3].0, tk[4].0, fk[2].0, node.pk] {
        keys.push((Some(k.to_hex()), "hex"));
        keys.push((Some(k.to_base58()), "base58"));
    }
    keys.push((Some(tk[2].0.to_hex().to_uppercase()), "hex uppercase"));
    keys.push((Some("zz".repeat(33)), "66 characters, not hex"));
    keys.push((Some(hex::encode(&tk[0].0[0..32])), "hex of 32 bytes"));
    keys.push((Some(hex::encode(&tk[0].0) + "00"), "hex of 34 bytes"));
    keys.push((Some(bs58_of(&tk[0].0[0..32])), "base58 of 32 bytes"));
    keys.push((Some("0OIl".to_string()), "not base58"));
    // hash segments: (string, the block it selects if any)
    let mut hashes: Vec<(String, Option<&Block>, &str)> = vec![];
    for b in &stored {
        hashes.push((hex::encode(b.hash), Some(*b), "hash of a stored block"));
    }
    hashes.push((hex::encode(hash(b"unknown")), None, "unknown hash"));
    hashes.push((garbage_hash.clone(), None, "file that is not a block"));
    hashes.push((hex::encode(bad_gt.hash), Some(&bad_gt), "block file with a 5-byte golden ticket payload"));
    hashes.push((format!("{}-{}", stored[1].timestamp, &hex::encode(stored[1].hash)[0..20]), Some(stored[1]), "timestamp and hash prefix of a stored block"));

    let mut combos: Vec<(usize, usize)> = vec![];
    for ki in 0..keys.len() {
        for hi in 0..hashes.len() {
            if hi < 2 || ki < 4 || rng.chance(1, 3) {
                combos.push((ki, hi));
            }
        }
    }
    for (ki, hi) in combos {
        let case = first_case + out.len();
        let (key, kname) = &keys[ki];
        let (hs, sel, hname) = &hashes[hi];
        let fut = lite_route::lite_route_body(hs.clone(), key.clone(), peer_lock.clone(), node.pk);
        let res = match tokio::spawn(fut).await {
            Ok(r) => r,
            Err(_) => {
                let _ = panic_site();
                Ok(lite_route::warp::reply::Reply { body: vec![], status: 599 })
            }
        };
        // model input
        let k_lit = match key {
            None => "KMissing".to_string(),
            Some(sg) => {
                let hx = SaitoPublicKey::from_hex(sg).ok().map(|k| ctx.sym.id(&k));
                let b58 = SaitoPublicKey::from_base58(sg).ok().map(|k| ctx.sym.id(&k));
                format!("(KStr {} {} {})", sg.len(), opt_n(hx), opt_n(b58))
            }
        };
        let file_lit = match sel {
            None => "None".to_string(),
            Some(b) => {
                // the block as the route reads it: decoded from the stored bytes (for the file that
                // does not decode, the block it was serialised from)
                let disk = Block::deserialize_from_net(&b.serialize_for_net(BlockType::Full)).unwrap_or_else(|_| (*b).clone());
                ctx.prepare_block(&disk);
                format!("(Some {})", ctx.sym.block_lit(&disk))
            }
        };
        // observation
        let (o_lit, o_short) = match &res {
            Err(Rejection::Reject) => ("RReject".to_string(), "reject".to_string()),
            Err(Rejection::NotFound) => ("RNotFound".to_string(), "not found".to_string()),
            Ok(r) if r.status == 599 => ("(RServed (Panic 9999))".to_string(), "panic".to_string()),
            Ok(r) => match Block::deserialize_from_net(&r.body) {
                Ok(bk) => {
                    ctx.prepare_block(&bk);
                    (format!("(RServed (Ok {}))", ctx.sym.block_lit(&bk)), format!("served {} bytes, status {}", r.body.len(), r.status))
                }
                Err(_) => ("(RServed Err)".to_string(), "served bytes that do not decode".to_string()),
            },
        };
        out.push(format!("(({}, {}, {}, {}), {})", own, k_lit, peers_model, file_lit, o_lit));
        let desc = format!(
            "{{\"case\":{},\"kind\":\"route\",\"key_segment\":{},\"key_kind\":{},\"hash_segment\":{},\"hash_kind\":{},\"result\":{}}}",
            case,
            match key {
                Some(k) => jstr(k),
                None => "null".to_string(),
            },
            jstr(kname),
            jstr(hs),
            jstr(hname),
            jstr(&o_short)
        );
        ctx.summary.count("kind", "route");
        ctx.summary.count("route_result", o_short.split(' ').next().unwrap_or(""));
        // direct oracle: what is served for (hash of a stored block, decodable key) is that block's
        // projection: status 200, same identity after the client's generate, every transaction of
        // the block that touches the requester's key present in full
        if let (Some(b), Ok(r)) = (sel, &res) {
            let requester: Option<SaitoPublicKey> = match key {
                Some(sg) if sg.is_empty() => Some(node.pk),
                Some(sg) if sg.len() == 66 => SaitoPublicKey::from_hex(sg).ok(),
                Some(sg) => SaitoPublicKey::from_base58(sg).ok(),
                None => None,
            };
            if r.status != 200 {
                ctx.summary.oracle_failure(case, &format!("route answers with status {}", r.status), &desc);
            }
            match Block::deserialize_from_net(&r.body) {
                Ok(mut c) => {
                    if c.generate().is_err() || c.hash != b.hash || c.id != b.id || c.signature != b.signature {
                        ctx.summary.oracle_failure(case, "the block served by the route does not have the identity (id, hash, signature) of the stored block after the client's generate", &desc);
                    }
                    if let Some(rk) = requester {
                        for t in &b.transactions {
                            if touches(t, &[rk]) && !c.transactions.iter().any(|x| x.serialize_for_net() == t.serialize_for_net()) {
                                ctx.summary.oracle_failure(case, "a transaction touching the requester's key is missing from the block served by the route", &desc);
                                break;
                            }
                        }
                    }
                }
                Err(_) => ctx.summary.oracle_failure(case, "the route serves bytes that do not decode", &desc),
            }
        }
        if let (Some(b), Err(_)) = (sel, &res) {
            let decodable_key = match key {
                Some(sg) if sg.is_empty() => true,
                Some(sg) if sg.len() == 66 => SaitoPublicKey::from_hex(sg).is_ok(),
                Some(sg) => SaitoPublicKey::from_base58(sg).is_ok(),
                None => false,
            };
            if decodable_key && Block::deserialize_from_net(&b.serialize_for_net(BlockType::Full)).is_ok() {
                ctx.summary.oracle_failure(case, "the route refuses a stored block to a requester with a well-formed key", &desc);
            }
        }
        if out.len() % 37 == 3 && ctx.summary.samples.len() < 8 {
            ctx.summary.samples.push(desc.clone());
        }
        ctx.summary.case_descs.push(desc);
    }
    let _ = fk;
    out
}

fn bs58_of(bytes: &[u8]) -> String {
    // base58 text of arbitrary bytes through the real implementation: pad to a hash
    use saito_core::core::defs::PrintForLog;
    let mut h = [0u8; 32];
    h.copy_from_slice(&bytes[0..32]);
    let h: saito_core::core::defs::SaitoHash = h;
    h.to_base58()
}

/// something the generators rely on did not hold on this tree (a block could not be built, was not
/// accepted, does not survive its own serialisation ...): reported with a description instead of
/// crashing the harness
fn pre_fail(ctx: &mut Ctx, what: &str) {
    let case = ctx.coq_cases.len();
    let desc = format!("{{\"case\":{},\"kind\":\"generator precondition\",\"what\":{}}}", case, jstr(what));
    ctx.summary.oracle_failure(case, &format!("generator precondition: {}", what), &desc);
}

/// what Wallet::on_chain_reorganization makes of a block for the holder of `key`
fn wallet_view(b: &Block, key: &SaitoPublicKey) -> Vec<(Vec<u8>, u64, u64, u8, u64, bool)> {
    let mut w = saito_core::core::consensus::wallet::Wallet::new([0u8; 32], *key);
    let r = catch_unwind(AssertUnwindSafe(|| {
        w.on_chain_reorganization(b, true, 100);
    }));
    if r.is_err() {
        let _ = panic_site();
        return vec![(b"panic".to_vec(), 0, 0, 0, 0, false)];
    }
    let mut v: Vec<(Vec<u8>, u64, u64, u8, u64, bool)> = w
        .slips
        .values()
        .map(|x| (x.utxokey.to_vec(), x.block_id, x.tx_ordinal, x.slip_index, x.amount, x.spent))
        .collect();
    v.sort();
    v
}

fn fake_key(i: u8) -> SaitoPublicKey {
    let mut k = [0u8; 33];
    k[0] = 2;
    k[1] = 0xfa;
    k[32] = i;
    k
}

fn synthetic_block(rng: &mut Rng, ntx: usize) -> (Block, Vec<SaitoPublicKey>) {
    let mut b = Block::new();
    b.id = rng.range(2, 50);
    b.timestamp = rng.range(1000, 9000);
    b.previous_block_hash = hash(&rng.next().to_be_bytes());
    b.creator = fake_key(200);
    b.treasury = rng.below(1000);
    b.graveyard = rng.below(1000);
    b.burnfee = rng.below(1000);
    b.difficulty = rng.below(10);
    b.total_fees = rng.below(1000);
    b.avg_total_fees = rng.below(1000);
    b.avg_payout_mining = rng.below(1000);
    b.previous_block_unpaid = rng.below(1000);
    b.fee_per_byte = rng.below(10);
    b.signature = [rng.below(250) as u8 + 1; 64];
    let spv_heavy = rng.chance(1, 2);
    let unhashed = rng.chance(1, 6);
    for _ in 0..ntx {
        let mut t = Transaction::default();
        t.timestamp = rng.range(1, 5000);
        let ty = if rng.chance(if spv_heavy { 3 } else { 1 }, 6) {
            TransactionType::SPV
        } else {
            *rng.pick(&[
                TransactionType::Normal,
                TransactionType::Normal,
                TransactionType::Normal,
                TransactionType::Fee,
                TransactionType::GoldenTicket,
                TransactionType::ATR,
            ])
        };
        t.transaction_type = ty;
        t.txs_replacements = *rng.pick(&[1u32, 1, 1, 1, 2, 2, 0, 3, 4]);
        let mut sig = [0u8; 64];
        let a = hash(&rng.next().to_be_bytes());
        sig[0..32].copy_from_slice(&a);
        sig[32..64].copy_from_slice(&hash(&a));
        t.signature = sig;
        let nf = rng.below(3);
        for _ in 0..nf {
            let mut s = Slip::default();
            s.public_key = fake_key(rng.below(6) as u8);
            s.amount = 0;
            s.slip_type = SlipType::Normal;
            t.from.push(s);
        }
        let nt = rng.below(3);
        for i in 0..nt {
            let mut s = Slip::default();
            s.public_key = fake_key(rng.below(6) as u8);
            s.amount = 0;
            s.slip_index = i as u8;
            s.slip_type = SlipType::Normal;
            t.to.push(s);
        }
        if rng.chance(1, 3) {
            t.data = vec![rng.below(256) as u8; rng.below(5) as usize];
        }
        if ty == TransactionType::GoldenTicket && !rng.chance(1, 5) {
            // a GoldenTicket-typed transaction decodes only with a 97-byte payload (fix eeb4ec7);
            // one in five keeps a malformed payload: the wire trip must then fail in model and code
            t.data = (0..97).map(|_| rng.below(256) as u8).collect();
        }
        if unhashed && rng.chance(1, 4) {
            t.hash_for_signature = None;
        } else if rng.chance(1, 2) {
            t.generate_hash_for_signature();
        } else {
            t.hash_for_signature = Some(hash(&rng.next().to_be_bytes()));
        }
        b.transactions.push(t);
    }
    if rng.chance(1, 2) {
        if let Some(lv) = leaf_values(&b.transactions) {
            // consistent root
            let mut s = Sym::new();
            b.merkle_root = s.ref_merkle(&lv);
        }
    } else if rng.chance(1, 2) {
        b.merkle_root = hash(&rng.next().to_be_bytes());
    }
    b.hash = if rng.chance(1, 2) { Sym::header_hash_value(&b) } else { hash(&rng.next().to_be_bytes()) };
    let nks = rng.below(4);
    let ks: Vec<SaitoPublicKey> = (0..nks).map(|_| fake_key(rng.below(7) as u8)).collect();
    (b, ks)
}

#[tokio::main(flavor = "current_thread")]
async fn main() {
    let args = Args::parse();
    verif_harness::common::init_log();
    let thorough = args.tier == "thorough";
    let mut rng = Rng::new(args.seed);

    let mut ctx = Ctx {
        sym: Sym::new(),
        summary: Summary::new("C18"),
        coq_cases: vec![],
        distinct: BTreeSet::new(),
        known_seen: HashMap::new(),
    };

    // ------------------------------------------------------------ a real chain
    let max_n: usize = if thorough { 10 } else { 8 };
    let params = Params { genesis_period: 100, ..Params::default() };
    let mut node = Node::new(&params, 1);
    let nk = 10usize;
    let fk: Vec<_> = (0..nk).map(|j| keypair(20 + j as u8)).collect();
    let tk: Vec<_> = (0..nk).map(|j| keypair(40 + j as u8)).collect();
    let decoys: Vec<SaitoPublicKey> = (0..3).map(|j| keypair(70 + j as u8).0).collect();
    // key j spends one genesis output in every block with more than j transfers (at most 255
    // issuance transactions fit: Block::generate_consensus_values counts them in a u8)
    // (+4: the boundary-size blocks below take one more output of keys 0..3 each)
    let need: Vec<usize> = (0..nk).map(|j| 2 * max_n.saturating_sub(j) + 3 + if j < 4 { 4 } else { 0 }).collect();
    let mut base = vec![0usize; nk];
    let mut iss = vec![(node.pk, 10_000_000u64)];
    for j in 0..nk {
        base[j] = iss.len();
        for _ in 0..need[j] {
            iss.push((fk[j].0, 1_000_000));
        }
    }
    assert!(iss.len() < 256);
    let mut next_out = vec![0usize; nk];
    let mut take = |j: usize| -> usize {
        let i = base[j] + next_out[j];
        next_out[j] += 1;
        assert!(next_out[j] <= need[j]);
        i
    };
    let ck: Vec<SaitoPublicKey> = (0..3).map(|j| keypair(60 + j as u8).0).collect();
    let mut blocks: Vec<(String, Block)> = vec![];
    let g = match make_genesis(&node, 1000, &iss).await {
        Ok(g) => g,
        Err(e) => {
            pre_fail(&mut ctx, &format!("the genesis block cannot be built: {}", e));
            Block::new()
        }
    };
    let mut chain_ok = !g.transactions.is_empty();
    if chain_ok {
        let r = node.add_block(g.clone()).await;
        if r != AddClass::OnChain {
            pre_fail(&mut ctx, &format!("the genesis block is not accepted: {:?}", r));
            chain_ok = false;
        }
    }
    let mut parent = g.clone();
    for n in 0..=(if chain_ok { max_n } else { 0 }) {
        if !chain_ok {
            break;
        }
        for gt in [false, true] {
            let ts = parent.timestamp + 120_000;
            let mut txs = vec![];
            for j in 0..n {
                let inp = outputs_of(&g, take(j));
                let fee = 1000 + 10 * j as u64;
                txs.push(make_tx(&inp[0..1], &[(tk[j].0, inp[0].amount - fee)], &fk[j].1, ts));
            }
            let b = match make_block(&node, parent.hash, ts, txs, gt, 7 + n as u64).await {
                Ok(b) => b,
                Err(e) => {
                    pre_fail(&mut ctx, &format!("block with {} transfers, golden ticket {} cannot be built: {}", n, gt, e));
                    continue;
                }
            };
            let r = node.add_block(b.clone()).await;
            ctx.summary.count("chain_block_added", &format!("{:?}", r));
            // an empty block is not valid on chain; it is still a block the route could be asked for
            if !(r == AddClass::OnChain || (n == 0 && !gt)) {
                pre_fail(&mut ctx, &format!("block with {} transfers, golden ticket {} is not accepted on the chain: {:?}", n, gt, r));
            }
            if r == AddClass::OnChain {
                parent = b.clone();
            }
            blocks.push((format!("chain n={} gt={}", n, gt), b));
        }
    }
    // accepted block with a normal transaction whose txs_replacements is 2
    if chain_ok {
        let ts = parent.timestamp + 120_000;
        let mut txs = vec![];
        for j in 0..3 {
            let inp = outputs_of(&g, take(j));
            let mut tx = make_tx(&inp[0..1], &[(tk[j].0, inp[0].amount - 1000)], &fk[j].1, ts);
            if j == 1 {
                tx.txs_replacements = 2;
                tx.sign(&fk[j].1);
            }
            txs.push(tx);
        }
        let b = make_block(&node, parent.hash, ts, txs, false, 3).await.unwrap_or_else(|_| Block::new());
        let r = if b.transactions.is_empty() { AddClass::Invalid } else { node.add_block(b.clone()).await };
        ctx.summary.count("replacements2_block_added", &format!("{:?}", r));
        if r == AddClass::OnChain {
            parent = b.clone();
            blocks.push(("accepted block, one transfer with txs_replacements=2".to_string(), b));
        } else {
            ctx.summary.notes.push("block with txs_replacements=2 was not accepted; class replacements-gt-1 not exercised on a chain block".to_string());
        }
    }
    // accepted block whose transfers have two outputs each: the second output goes to a key that
    // appears nowhere else, and the key lists name only those keys
    if chain_ok {
        let ts = parent.timestamp + 120_000;
        let mut txs = vec![];
        for j in 0..3 {
            let inp = outputs_of(&g, take(j));
            let half = (inp[0].amount - 1000) / 2;
            txs.push(make_tx(&inp[0..1], &[(tk[j].0, half), (ck[j], inp[0].amount - 1000 - half)], &fk[j].1, ts));
        }
        match make_block(&node, parent.hash, ts, txs, false, 3).await {
            Ok(b) => {
                let r = node.add_block(b.clone()).await;
                ctx.summary.count("two_output_block_added", &format!("{:?}", r));
                if r == AddClass::OnChain {
                    parent = b.clone();
                    blocks.push(("accepted block, transfers with two outputs (listed through the second)".to_string(), b));
                } else {
                    pre_fail(&mut ctx, &format!("block of two-output transfers is not accepted: {:?}", r));
                }
            }
            Err(e) => pre_fail(&mut ctx, &format!("block of two-output transfers cannot be built: {}", e)),
        }
    }
    // accepted blocks with transactions of boundary size: exactly 255 outputs and / or 255 inputs
    // (the largest counts the wire format allows: slip_index is a u8 and the codec accepts up to
    // u8::MAX slips), one of the outputs or all but one paying a key that can be listed, next to
    // ordinary transfers whose message payloads have sizes around the u8 / u16 limits.  Which of
    // the transfers is the big one, which of its outputs pays the single key and the payload
    // sizes are drawn from the PRNG (the position in the block is Block::create's).
    // bblocks: (name, block, per transfer: keys through which it can be made relevant)
    let mut bblocks: Vec<(String, Block, Vec<(SaitoPublicKey, Vec<SaitoPublicKey>)>)> = vec![];
    if chain_ok {
        let sinks: Vec<_> = (0..4).map(|j| keypair(80 + j as u8)).collect();
        let sizes: [usize; 8] = [0, 1, 254, 255, 256, 257, 65535, 65536];
        // the 255 outputs to sinks[0] of the first block are the 255 inputs of the second
        let mut sink_outputs: Vec<Slip> = vec![];
        for bi in 0..4usize {
            let gt = bi % 2 == 1;
            let m = if gt { 3 } else { 4 };
            let big = rng.below(m as u64) as usize;
            let any = rng.below(255) as usize;
            let q = *rng.pick(&[0usize, 1, 127, 253, 254, any]);
            let ts = parent.timestamp + 120_000;
            let mut txs = vec![];
            let mut listing: Vec<(SaitoPublicKey, Vec<SaitoPublicKey>)> = vec![];
            let mut shape = String::new();
            for j in 0..m {
                let inp = outputs_of(&g, take(j));
                if j != big {
                    let mut tx = make_tx(&inp[0..1], &[(tk[j].0, inp[0].amount - 1000)], &fk[j].1, ts);
                    tx.data = vec![rng.below(256) as u8; *rng.pick(&sizes)];
                    tx.sign(&fk[j].1);
                    shape.push_str(&format!("[1 in, 1 out, {} bytes]", tx.data.len()));
                    listing.push((tx.signature[0..33].try_into().unwrap(), vec![tk[j].0, fk[j].0]));
                    txs.push(tx);
                    continue;
                }
                // the big one
                let (inputs, signer, payer_key): (Vec<Slip>, _, SaitoPublicKey) = if bi == 1 && sink_outputs.len() == 255 {
                    (sink_outputs.clone(), sinks[0].1, sinks[0].0)
                } else {
                    (inp[0..1].to_vec(), fk[j].1, fk[j].0)
                };
                let total: u64 = inputs.iter().map(|s| s.amount).sum();
                let each = (total - 1000) / 255;
                let all_to_sink = bi == 0;
                let outs: Vec<(SaitoPublicKey, u64)> = (0..255usize)
                    .map(|i| if i == q && !all_to_sink { (tk[j].0, each) } else { (sinks[bi].0, each) })
                    .collect();
                let mut tx = make_tx(&inputs, &outs, &signer, ts);
                if bi >= 2 {
                    tx.data = vec![rng.below(256) as u8; *rng.pick(&sizes)];
                    tx.sign(&signer);
                }
                shape.push_str(&format!("[{} in, {} out (single key at {}), {} bytes]", tx.from.len(), tx.to.len(), if all_to_sink { "none".to_string() } else { q.to_string() }, tx.data.len()));
                let mut via = vec![payer_key, sinks[bi].0];
                if !all_to_sink {
                    via.insert(0, tk[j].0);
                }
                listing.push((tx.signature[0..33].try_into().unwrap(), via));
                txs.push(tx);
            }
            let name = format!("boundary block {}: gt={} {}", bi, gt, shape);
            match make_block(&node, parent.hash, ts, txs, gt, 31 + bi as u64).await {
                Ok(b) => {
                    let r = node.add_block(b.clone()).await;
                    ctx.summary.count("boundary_block_added", &format!("{:?}", r));
                    if r == AddClass::OnChain && b.transactions.iter().filter(|t| t.transaction_type == TransactionType::Normal).count() == m {
                        parent = b.clone();
                        if bi == 0 {
                            if let Some(t) = b.transactions.iter().find(|t| t.to.len() == 255) {
                                sink_outputs = t.to.clone();
                            }
                        }
                        bblocks.push((name, b, listing));
                    } else {
                        pre_fail(&mut ctx, &format!("{} is not accepted on the chain with all its transfers: {:?}", name, r));
                    }
                }
                Err(e) => pre_fail(&mut ctx, &format!("{} cannot be built: {}", name, e)),
            }
        }
    }
    // block whose transactions were reordered after signing (merkle root stale): accepted by the
    // pinned tree (C06 defect), rejected since fix 22133df
    let mut stale_unaccepted: Option<Block> = None;
    if chain_ok {
        let ts = parent.timestamp + 120_000;
        let mut txs = vec![];
        for j in 0..3 {
            let inp = outputs_of(&g, take(j));
            txs.push(make_tx(&inp[0..1], &[(tk[j].0, inp[0].amount - 1000)], &fk[j].1, ts));
        }
        let mut b = make_block(&node, parent.hash, ts, txs, false, 3).await.unwrap_or_else(|_| Block::new());
        if b.transactions.len() >= 2 {
            b.transactions.swap(0, 1);
        }
        let gen_ok = b.generate().is_ok() && !b.transactions.is_empty();
        let r = if gen_ok { node.add_block(b.clone()).await } else { AddClass::Invalid };
        ctx.summary.count("stale_root_block_added", &format!("{:?}", r));
        if r == AddClass::OnChain {
            // regression of the repaired Block::validate (fix 22133df): C18's header statement then
            // fails on a chain block; the oracle reports it under the unlisted id stale-merkle-root
            blocks.push(("accepted block, transactions swapped after signing (stale merkle root)".to_string(), b));
        } else if gen_ok {
            // rejected by validation; generate_lite_block on it is still compared with the model
            stale_unaccepted = Some(b);
        }
    }

    install_hook();
    for (name, stored) in &blocks {
        // the route: read from disk, deserialize, generate
        let bytes = stored.serialize_for_net(BlockType::Full);
        let mut full = match Block::deserialize_from_net(&bytes) {
            Ok(f) => f,
            Err(_) => {
                pre_fail(&mut ctx, &format!("{}: the stored block does not decode from its own serialize_for_net bytes", name));
                continue;
            }
        };
        if full.generate().is_err() || full.hash != stored.hash {
            pre_fail(&mut ctx, &format!("{}: the block read back from its bytes does not generate to the stored block's hash", name));
            continue;
        }
        let second_output_only = name.contains("two outputs");
        // transfers in block order: (index, j)
        let transfers: Vec<(usize, usize)> = full
            .transactions
            .iter()
            .enumerate()
            .filter(|(_, t)| t.transaction_type == TransactionType::Normal)
            .filter_map(|(i, t)| tk.iter().position(|k| !t.to.is_empty() && k.0 == t.to[0].public_key).map(|j| (i, j)))
            .collect();
        let m = transfers.len();
        let has_special = full.transactions.len() > m;
        let kind = if name.starts_with("chain") { "chain" } else { "chain-special" };
        for mask in 0u32..(1u32 << m) {
            let node_variants: &[bool] = if has_special { &[false, true] } else { &[false] };
            for with_node in node_variants {
                let mut ks: Vec<SaitoPublicKey> = vec![];
                for (bit, (_, j)) in transfers.iter().enumerate() {
                    if mask & (1 << bit) != 0 {
                        // relevant through the output key, the input key, or both
                        if second_output_only {
                            ks.push(ck[*j]);
                            continue;
                        }
                        match rng.below(3) {
                            0 => ks.push(tk[*j].0),
                            1 => ks.push(fk[*j].0),
                            _ => {
                                ks.push(fk[*j].0);
                                ks.push(tk[*j].0);
                            }
                        }
                    }
                }
                if *with_node {
                    ks.push(node.pk);
                }
                if rng.chance(1, 3) {
                    ks.insert(rng.below(ks.len() as u64 + 1) as usize, *rng.pick(&decoys));
                }
                if rng.chance(1, 4) && ks.len() > 1 {
                    ks.reverse();
                }
                ctx.run(kind, name, &full, &ks, true);
            }
        }
    }

    // ------------------------------------------------------------ boundary-size transactions
    for (name, stored, listing) in &bblocks {
        let bytes = stored.serialize_for_net(BlockType::Full);
        let mut full = match Block::deserialize_from_net(&bytes) {
            Ok(f) => f,
            Err(_) => {
                // reported, and the block the producing node holds in memory is projected instead, so
                // that the failure is also stated in the property's terms by the oracle
                pre_fail(&mut ctx, &format!("{}: the stored block does not decode from its own serialize_for_net bytes", name));
                stored.clone()
            }
        };
        if full.generate().is_err() || full.hash != stored.hash {
            pre_fail(&mut ctx, &format!("{}: the block read back from its bytes does not generate to the stored block's hash", name));
            continue;
        }
        // transfers in block order
        let order: Vec<&Vec<SaitoPublicKey>> = full
            .transactions
            .iter()
            .filter(|t| t.transaction_type == TransactionType::Normal)
            .filter_map(|t| listing.iter().find(|(sig, _)| t.signature[0..33] == sig[..]).map(|(_, via)| via))
            .collect();
        let m = order.len();
        if m != listing.len() {
            pre_fail(&mut ctx, &format!("{}: not all of its transfers are in the block", name));
            continue;
        }
        let has_special = full.transactions.len() > m;
        for mask in 0u32..(1u32 << m) {
            let node_variants: &[bool] = if has_special { &[false, true] } else { &[false] };
            for with_node in node_variants {
                let mut ks: Vec<SaitoPublicKey> = vec![];
                for (bit, via) in order.iter().enumerate() {
                    if mask & (1 << bit) != 0 {
                        ks.push(*rng.pick(via.as_slice()));
                        if rng.chance(1, 4) {
                            ks.push(*rng.pick(via.as_slice()));
                        }
                    }
                }
                if *with_node {
                    ks.push(node.pk);
                }
                if rng.chance(1, 3) {
                    ks.insert(rng.below(ks.len() as u64 + 1) as usize, *rng.pick(&decoys));
                }
                for t in &full.transactions {
                    if t.to.len() == 255 || t.from.len() == 255 {
                        let kept = touches(t, &ks);
                        ctx.summary.count(
                            "boundary_tx",
                            &format!("{} inputs, {} outputs, {}", t.from.len(), t.to.len(), if kept { "kept" } else { "omitted" }),
                        );
                    }
                    if t.transaction_type == TransactionType::Normal {
                        ctx.summary.count("boundary_block_payload_bytes", &format!("{:05}", t.data.len()));
                    }
                }
                ctx.run("chain-boundary", name, &full, &ks, true);
            }
        }
    }

    // ------------------------------------------------------------ real blocks under other headers
    // Chain blocks of a young chain have many equal header fields (no rebroadcast fees yet:
    // avg_total_fees = avg_total_fees_new, ...).  Here every numeric header field of a real block
    // gets its own value and Block::generate recomputes the identity, so a lite block that copies
    // a field from the wrong source no longer hashes to the block it was made from.
    for (bi, (name, stored)) in blocks.iter().enumerate() {
        if !(name.starts_with("chain") && bi % 3 == 1) && bi != 4 {
            continue;
        }
        let bytes = stored.serialize_for_net(BlockType::Full);
        let mut full = match Block::deserialize_from_net(&bytes) {
            Ok(f) => f,
            Err(_) => continue, // reported in the loop above
        };
        let base = rng.range(1_000, 900_000);
        let mut k = 0u64;
        let mut next = || {
            k += 1;
            base + 7919 * k
        };
        full.timestamp = next();
        full.graveyard = next();
        full.treasury = next();
        full.total_fees = next();
        full.total_fees_new = next();
        full.total_fees_atr = next();
        full.total_fees_cumulative = next();
        full.avg_total_fees = next();
        full.avg_total_fees_new = next();
        full.avg_total_fees_atr = next();
        full.total_payout_routing = next();
        full.total_payout_mining = next();
        full.total_payout_treasury = next();
        full.total_payout_graveyard = next();
        full.total_payout_atr = next();
        full.avg_payout_routing = next();
        full.avg_payout_mining = next();
        full.avg_payout_treasury = next();
        full.avg_payout_graveyard = next();
        full.avg_payout_atr = next();
        full.avg_fee_per_byte = next();
        full.fee_per_byte = next();
        full.avg_nolan_rebroadcast_per_block = next();
        full.burnfee = next();
        full.difficulty = next();
        full.previous_block_unpaid = next();
        if full.generate().is_err() {
            pre_fail(&mut ctx, &format!("{}: generate fails after the header values were replaced", name));
            continue;
        }
        let nm = format!("{} with distinct header values from {}", name, base);
        let first_to: Vec<SaitoPublicKey> = full
            .transactions
            .iter()
            .filter(|t| t.transaction_type == TransactionType::Normal)
            .map(|t| t.to[0].public_key)
            .collect();
        let mut lists: Vec<Vec<SaitoPublicKey>> = vec![vec![], vec![node.pk]];
        if !first_to.is_empty() {
            lists.push(first_to.clone());
            lists.push(first_to.iter().step_by(2).cloned().collect());
        }
        for ks in lists {
            ctx.run("chain-reheadered", &nm, &full, &ks, true);
        }
    }

    // ------------------------------------------------------------ pruned chain blocks
    // a stored block whose transactions were dropped (BlockType::Pruned keeps the header): the lite
    // block must keep the header's merkle root (generate_merkle_root(true, true) returns the field)
    for (bi, (name, stored)) in blocks.iter().enumerate() {
        if !(name.starts_with("chain") && (bi == 5 || bi == 8 || bi == 11)) {
            continue;
        }
        let mut full = stored.clone();
        full.transactions.clear();
        full.block_type = BlockType::Pruned;
        for ks in [vec![], vec![node.pk, tk[0].0]] {
            ctx.run("chain-pruned", &format!("{} pruned of its transactions", name), &full, &ks, true);
        }
    }

    if let Some(stored) = &stale_unaccepted {
        let mut full = stored.clone();
        let _ = full.generate();
        for ks in [vec![], vec![tk[0].0], vec![tk[0].0, fk[1].0, tk[2].0]] {
            ctx.run("stale-root-unaccepted", "rejected block with stale merkle root", &full, &ks, false);
        }
    }

    // ------------------------------------------------------------ lite blocks as input (lite of lite)
    if !blocks.is_empty() {
        let (_, stored) = &blocks[9.min(blocks.len() - 1)];
        let mut full = stored.clone();
        let _ = full.generate();
        for ks in [vec![], vec![tk[0].0], vec![tk[1].0, tk[2].0], vec![node.pk]] {
            let l1 = full.generate_lite_block(ks.clone());
            if let Some(c) = wire_trip(&l1) {
                for ks2 in [vec![], vec![tk[0].0], vec![tk[3].0, node.pk]] {
                    ctx.run("lite-of-lite", "received lite block as input", &c, &ks2, false);
                    ctx.run("lite-of-lite", "in-memory lite block as input", &l1, &ks2, false);
                }
            }
        }
    }

    // ------------------------------------------------------------ synthetic blocks (model correspondence only)
    let n_syn = if thorough { 4000 } else { 500 };
    for i in 0..n_syn {
        let ntx = match i % 5 {
            0 => rng.below(3),
            1 | 2 => rng.range(2, 6),
            _ => rng.range(3, 12),
        } as usize;
        let (b, ks) = synthetic_block(&mut rng, ntx);
        ctx.run("synthetic", "synthetic", &b, &ks, false);
    }
    // (the u32 overflow of `txs_replacements *= 2` needs two kept placeholder-typed entries with
    // 2^31 replacements each; computing any merkle root of such a block allocates 2^31 leaves, so
    // that site of the model is not exercised here)

    // ------------------------------------------------------------ output
    let route_cases = route_cases(&mut ctx, &args, &blocks, &node, &tk, &fk, &mut rng).await;
    let mut summary = ctx.summary;
    summary.evaluations = ctx.coq_cases.len() as u64;
    let check_def = "(* merkle.rs panic sites are not told apart by the harness *)\n\
         Definition canon {A} (r : res A) : res A :=\n  \
           match r with Panic s => Panic (if (s =? P_ROOT_UNWRAP) || (s =? P_ROOT_EMPTY) then P_MERKLE_UNWRAP else s) | _ => r end.\n\
         Definition canon_obs (o : obs) : obs :=\n  \
           mkObs (canon (o_lite o)) (canon (o_root_lite o)) (canon (o_client o)) (canon (o_root_client o)) (canon (o_root_full o)) (canon (o_client_ord o)).\n\
         Definition check (c : block * list N * obs) : bool :=\n  \
           let '(b, ks, o) := c in obs_eqb (canon_obs (observe b ks)) o.";
    let files = write_shards_with_defs(
        &format!("{}/cases", args.out),
        "C18",
        "From Saito Require Import Base Merkle Lite.\nOpen Scope N_scope.",
        &ctx.sym.defs,
        check_def,
        "block * list N * obs",
        &ctx.coq_cases,
        args.shards,
        0,
    )
    .unwrap();
    let route_files = write_shards_with_defs(
        &format!("{}/cases", args.out),
        "C18R",
        "From Saito Require Import Base Merkle Lite.\nOpen Scope N_scope.",
        &ctx.sym.defs,
        "Definition check (c : (N * key_arg * list (N * list N) * option block) * route_out) : bool :=\n  \
           let '((own, k, peers, file), o) := c in route_out_eqb (route own k peers file) o.",
        "(N * key_arg * list (N * list N) * option block) * route_out",
        &route_cases,
        2,
        ctx.coq_cases.len(),
    )
    .unwrap();
    let mut files = files;
    files.extend(route_files);
    summary.evaluations += route_cases.len() as u64;
    summary.case_files = files;
    summary.write(&args.out);
}
