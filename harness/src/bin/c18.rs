//! exploratory
use saito_core::core::consensus::block::{Block, BlockType};
use saito_core::core::consensus::transaction::TransactionType;
use verif_harness::world::*;

#[tokio::main(flavor = "current_thread")]
async fn main() {
    verif_harness::common::init_log();
    let params = Params { genesis_period: 100, ..Params::default() };
    let mut node = Node::new(&params, 1);
    let nk = 10usize;
    let fk: Vec<_> = (0..nk).map(|j| keypair(20 + j as u8)).collect();
    let tk: Vec<_> = (0..nk).map(|j| keypair(40 + j as u8)).collect();
    let per = 24usize;
    let mut iss = vec![(node.pk, 10_000_000u64)];
    for j in 0..nk {
        for _ in 0..per {
            iss.push((fk[j].0, 1_000_000));
        }
    }
    let g = make_genesis(&node, 1000, &iss).await.unwrap();
    println!("genesis {:?} txs {}", node.add_block(g.clone()).await, g.transactions.len());
    let mut parent = g.clone();
    let mut used = 0usize;
    for n in 0..=4usize {
        for gt in [false, true] {
            let ts = parent.timestamp + 120_000;
            let mut txs = vec![];
            for j in 0..n {
                let idx = 1 + j * per + used;
                let inp = outputs_of(&g, idx);
                txs.push(make_tx(&inp[0..1], &[(tk[j].0, inp[0].amount - 1000)], &fk[j].1, ts));
            }
            used += 1;
            let b = make_block(&node, parent.hash, ts, txs, gt, 7).await.unwrap();
            let r = node.add_block(b.clone()).await;
            println!(
                "n={} gt={} -> {:?} id {} types {:?}",
                n,
                gt,
                r,
                b.id,
                b.transactions.iter().map(|t| t.transaction_type as u8).collect::<Vec<_>>()
            );
            // pipeline
            let bytes = b.serialize_for_net(BlockType::Full);
            let mut full = Block::deserialize_from_net(&bytes).unwrap();
            full.generate().unwrap();
            assert_eq!(full.hash, b.hash);
            let lite = full.generate_lite_block(vec![]);
            let root_full = full.generate_merkle_root(false, false);
            let root_lite = lite.generate_merkle_root(false, false);
            let lb = lite.serialize_for_net(BlockType::Full);
            let mut cl = Block::deserialize_from_net(&lb).unwrap();
            cl.generate().unwrap();
            let root_cl = cl.generate_merkle_root(false, false);
            println!(
                "   lite: {:?} mr_field_eq {} root_lite_eq {} root_wire_eq {} hash_eq {}",
                lite.transactions
                    .iter()
                    .map(|t| (t.transaction_type as u8, t.txs_replacements))
                    .collect::<Vec<_>>(),
                lite.merkle_root == full.merkle_root,
                root_lite == root_full,
                root_cl == root_full,
                cl.hash == full.hash
            );
            for t in &full.transactions {
                if t.transaction_type == TransactionType::Fee || t.transaction_type == TransactionType::GoldenTicket {
                    println!(
                        "   type {:?} from {:?} to {:?}",
                        t.transaction_type,
                        t.from.iter().map(|s| hex::encode(&s.public_key[0..4])).collect::<Vec<_>>(),
                        t.to.iter().map(|s| hex::encode(&s.public_key[0..4])).collect::<Vec<_>>()
                    );
                }
            }
            if r == AddClass::OnChain { parent = b; }
        }
    }
    // experiment A: normal tx with txs_replacements = 2
    {
        let ts = parent.timestamp + 120_000;
        let mut txs = vec![];
        for j in 0..3 {
            let idx = 1 + j * per + used;
            let inp = outputs_of(&g, idx);
            let mut tx = make_tx(&inp[0..1], &[(tk[j].0, inp[0].amount - 1000)], &fk[j].1, ts);
            if j == 1 { tx.txs_replacements = 2; tx.sign(&fk[j].1); }
            txs.push(tx);
        }
        used += 1;
        let b = make_block(&node, parent.hash, ts, txs, false, 7).await.unwrap();
        let r = node.add_block(b.clone()).await;
        println!("A: {:?} repl {:?}", r, b.transactions.iter().map(|t| t.txs_replacements).collect::<Vec<_>>());
        let lite = b.generate_lite_block(vec![tk[0].0, tk[2].0]);
        println!("   lite {:?} root_eq {}", lite.transactions.iter().map(|t| (t.transaction_type as u8, t.txs_replacements)).collect::<Vec<_>>(), lite.generate_merkle_root(false,false) == b.merkle_root);
        let lite = b.generate_lite_block(vec![tk[0].0, tk[1].0, tk[2].0]);
        println!("   lite-all {:?} root_eq {}", lite.transactions.iter().map(|t| (t.transaction_type as u8, t.txs_replacements)).collect::<Vec<_>>(), lite.generate_merkle_root(false,false) == b.merkle_root);
        if r == AddClass::OnChain { parent = b; }
    }
    // experiment B: transaction appended after signing (stale merkle root)
    {
        let ts = parent.timestamp + 120_000;
        let mut txs = vec![];
        for j in 0..3 {
            let idx = 1 + j * per + used;
            let inp = outputs_of(&g, idx);
            txs.push(make_tx(&inp[0..1], &[(tk[j].0, inp[0].amount - 1000)], &fk[j].1, ts));
        }
        used += 1;
        let mut b = make_block(&node, parent.hash, ts, txs, false, 7).await.unwrap();
        let h0 = b.hash;
        b.transactions.swap(0, 1);
        b.generate().unwrap();
        println!("B: hash unchanged {}", h0 == b.hash);
        let r = node.add_block(b.clone()).await;
        println!("B: {:?}", r);
        let bytes = b.serialize_for_net(BlockType::Full);
        let mut full = Block::deserialize_from_net(&bytes).unwrap();
        full.generate().unwrap();
        let lite = full.generate_lite_block(vec![tk[0].0, tk[1].0, tk[2].0]);
        let lb = lite.serialize_for_net(BlockType::Full);
        let mut cl = Block::deserialize_from_net(&lb).unwrap();
        cl.generate().unwrap();
        println!("   lite mr_field_eq {} lite.hash==full.hash {} client.hash==full.hash {}", lite.merkle_root == full.merkle_root, lite.hash == full.hash, cl.hash == full.hash);
    }
}
