//! exploration (temporary)
use saito_core::core::consensus::slip::Slip;
use saito_core::core::consensus::transaction::Transaction;
use verif_harness::world::*;

fn show(k: &[u8; 59]) -> String {
    let s = Slip::parse_slip_from_utxokey(k).unwrap();
    format!("({}:{}:{}:{} a={} t={:?})", s.public_key[32], s.block_id, s.tx_ordinal, s.slip_index, s.amount, s.slip_type)
}

#[tokio::main(flavor = "current_thread")]
async fn main() {
    verif_harness::common::init_log();
    let gp: u64 = std::env::args().nth(1).map(|s| s.parse().unwrap()).unwrap_or(5);
    let params = Params { genesis_period: gp, ..Params::default() };
    let mut node = Node::new(&params, 1);
    let (pk2, sk2) = keypair(2);
    let g = make_genesis(&node, 1000, &[(node.pk, 1_000_000), (node.pk, 500_000), (pk2, 700_000), (node.pk, 3)]).await.unwrap();
    println!("genesis {:?} txs {}", node.add_block(g.clone()).await, g.transactions.len());
    let mut parent = g.clone();
    let mut spend2 = outputs_of(&g, 2);
    for i in 0..16u64 {
        let ts = parent.timestamp + 120_000;
        // key 2 pays node 100+i
        let mut txs = vec![];
        if i % 3 == 0 && i < 5 {
            let tx = make_tx(&spend2[0..1], &[(pk2, spend2[0].amount - 100 - i), (node.pk, 100 + i)], &sk2, ts);
            txs.push(tx);
        }
        let b = match make_block(&node, parent.hash, ts, txs, i % 2 == 0 && i != 6, i).await {
            Ok(b) => b,
            Err(e) => {
                println!("make_block failed {}", e);
                break;
            }
        };
        let r = node.add_block(b.clone()).await;
        println!(
            "block {} -> {:?} txs {} types {:?}",
            b.id,
            r,
            b.transactions.len(),
            b.transactions.iter().map(|t| t.transaction_type as u8).collect::<Vec<_>>()
        );
        for t in &b.transactions {
            println!("   tx type {:?} from {:?} to {:?}", t.transaction_type,
              t.from.iter().map(|s| show(&s.utxoset_key)).collect::<Vec<_>>(),
              t.to.iter().map(|s| show(&s.utxoset_key)).collect::<Vec<_>>());
        }
        if let Some(idx) = b.transactions.iter().position(|t| t.transaction_type as u8 == 0) {
            spend2 = outputs_of(&b, idx);
        }
        parent = b;
        let latest = node.blockchain.get_latest_block_id();
        let w = node.wallet_lock.read().await;
        let mut un: Vec<_> = w.unspent_slips.iter().cloned().collect();
        un.sort();
        let mut led: Vec<_> = node
            .blockchain
            .utxoset
            .iter()
            .filter(|(k, v)| **v && k[0..33] == node.pk)
            .map(|(k, _)| *k)
            .collect();
        led.sort();
        println!("  latest {} balance {} unspent {:?}", latest, w.get_available_balance(), un.iter().map(show).collect::<Vec<_>>());
        println!("  ledger mine {:?}", led.iter().map(show).collect::<Vec<_>>());
        drop(w);
        // try building a tx on a clone of the wallet
        let mut wc = node.wallet_lock.read().await.clone();
        let bal = wc.get_available_balance();
        let res = Transaction::create(&mut wc, pk2, bal / 2 + 1, 0, false, None, latest, gp);
        match res {
            Ok(mut tx) => {
                tx.sign(&node.sk);
                tx.generate(&node.pk, 0, 0);
                let v = tx.validate(&node.blockchain.utxoset, &node.blockchain, true);
                println!("  create {} -> in {} out {} validate {}", bal / 2 + 1, tx.total_in, tx.total_out, v);
            }
            Err(e) => println!("  create err {:?}", e),
        }
    }
}
